import AcraModel.Censor.Chain
import AcraModel.Censor.Session
import AcraModel.Censor.Match
import AcraModel.Censor.MatchGeneralise
import AcraModel.Censor.MatchSound
import AcraModel.Censor.MatchIdent
/-!
# C05 — a statement rejected by the SQL firewall never reaches the database

Property theorems only (models and helper lemmas: `AcraModel/Censor/{Chain,Tree,Match,Session}.lean`).
`fact_*` theorems pin what the models take from the current source (`Generated/CensorTable.lean`).
-/
namespace AcraModel.Props.C05
open AcraModel AcraModel.Censor AcraModel.Censor.Session Generated.CensorTable

/-! ## regenerated facts -/

/-- `HandleQuery`'s loop: capture handlers never decide; `query_ignore` sees the raw text **and the parsed
statement** and stops with "allow"; every other handler gets the normalised text and the parse tree, an error
denies, `continueHandling = false` allows; falling off the end allows. -/
theorem fact_hq_loop :
    hqLoop = [("QueryCaptureHandler", "queryWithHiddenValues,parsedQuery", "continue"),
              ("QueryIgnoreHandler", "rawQuery,parsedQuery", "stop:return nil;continue"),
              ("default", "normalizedQuery,parsedQuery", "call"),
              ("default", "err != nil", "return err"),
              ("default", "!continueHandling", "return nil")]
    ∧ hqFallThrough = "return nil" := by decide

/-- `HandleQuery`'s prologue: inactive censor returns nil; a syntax error is returned unless `ignoreParseError`. -/
theorem fact_hq_prologue : hqInactiveGuard = true ∧ hqParseError = "ignore:continue;else:return err" := by decide

/-- **One ordered loop.** `HandleQuery` walks `acraCensor.handlers` in exactly ONE loop, a `for _, handler := range` (front to
back = configuration order), and nothing outside that loop – in particular no earlier pass over the handlers – looks at
the kind of a handler: each handler is consulted at its own position (`runChain` is that loop). A separate first pass
over one handler kind (e.g. all `query_ignore` handlers before the deny/allow rules) makes this fact fail. -/
theorem fact_hq_single_ordered_loop :
    hqHandlerLoops = 1 ∧ hqLoopOrder = ["range:_,handler"] ∧ hqKindTestsOutsideLoop = [] := by decide

/-- Allow handler: unparsed ⇒ continue; queries, then tables (second component: all tables whitelisted), then
patterns; a hit stops with "allow". -/
theorem fact_allow_check :
    allowCheck = [("nil-parsed", "", "return true, nil"),
      ("len(handler.queries) != 0", "common.CheckExactQueriesMatch(normalizedQuery,handler.queries)#0", "return false, nil"),
      ("len(handler.tables) != 0", "common.CheckTableNamesMatch(parsedQuery,handler.tables)#1", "return false, nil"),
      ("len(handler.patterns) != 0", "common.CheckPatternsMatching(handler.patterns,parsedQuery)#0", "return false, nil"),
      ("end", "", "return true, nil")] := by decide

/-- Deny handler: same order, first component of the table check (at least one table blacklisted), a hit returns an error. -/
theorem fact_deny_check :
    denyCheck = [("nil-parsed", "", "return true, nil"),
      ("len(handler.queries) != 0", "common.CheckExactQueriesMatch(normalizedQuery,handler.queries)#0", "return false, common.ErrDenyByQueryError"),
      ("len(handler.tables) != 0", "common.CheckTableNamesMatch(parsedQuery,handler.tables)#0", "return false, common.ErrDenyByTableError"),
      ("len(handler.patterns) != 0", "common.CheckPatternsMatching(handler.patterns,parsedQuery)#0", "return false, common.ErrDenyByPatternError"),
      ("end", "", "return true, nil")] := by decide

/-- PostgreSQL: the statement is remembered as pending only **after** the censor let it through
(`Session.stepQuery … addFirst = false`); a censor error makes `handleQueryPacket` report "censored". -/
theorem fact_pg_add_after_censor :
    addAfterCensor pgSimpleQueryCalls = true ∧ pgAddGuardedByCensor = true
    ∧ pgCensorCall = "censorErr != nil => return true, nil" := by decide

/-- PostgreSQL loop: a censored packet is answered with ErrorResponse + ReadyForQuery and the loop continues
*before* `sendPacket`. -/
theorem fact_pg_loop :
    pgLoopCalls = ["ReadClientPacket", "handleClientPacket", "sendClientError", "sendPacket"]
    ∧ pgCensoredBranch = "sendClientError;continue" ∧ pgClientErrorWrites = ["errorMessage", "ReadyForQuery"] := by decide

/-- MySQL: the censor is asked first; a denied statement gets an error packet and the loop continues before any
response handler is installed or anything is written to the database. -/
theorem fact_mysql :
    mysqlQueryCalls = ["HandleQuery", "sendClientError", "OnQuery", "setQueryHandler", "SetPendingParse", "setQueryHandler"]
    ∧ mysqlDeniedBranch = "err != nil:sendClientError;continue" := by decide

/-- Every field-by-field comparator of `matching_logic.go` ends in `return true`, compares each part of the query
with the *same* part of the pattern and stops with false only when they differ. (On the pinned tree this failed
for `handleInsertStatement` (`return false`), `areEqualIntervalExpr`, `areEqualConvertType` (inverted tests) and
`areEqualCaseExpr` (`query.Else` against `pattern.Expr`).) -/
theorem fact_comparators_ok : comparators.all Match.comparatorOk = true := by decide

/-- **Every comparator compares the pattern with the query.** For every comparison of every field-by-field comparator
and every plain case of every type switch of the current `matching_logic.go`, the two operands are `(query.X, pattern.X)`:
the *same* selector `X` applied to the two *different* trees – never `(query.X, query.X)`, `(pattern.X, pattern.X)` or
`(query.X, pattern.Y)`. (`Match.operandPairs` lists the pairs.) This is what lets the lock-step walk of
`match_sound_on_identifiers` speak about "the same position" of statement and pattern. -/
theorem fact_comparators_compare_pattern_with_query : Match.tablePairsOk = true := by decide

/-- The functions with placeholder logic are exactly the ones the model writes by hand. -/
theorem fact_irregular :
    irregular = ["handleStreamStatement", "areEqualSelectExprs", "areEqualInsertRows", "areEqualTableExpr",
      "areEqualSimpleTableExpr", "areEqualSelectExpr", "areEqualExpr", "areEqualSQLVal", "areEqualColIdent",
      "areEqualSelectStatement", "areEqualSubquery", "areEqualValTuple"] := by decide

/-- Every DML statement kind is dispatched to its handler. -/
theorem fact_dispatch :
    (["Select", "Union", "Insert", "Update", "Delete"].map fun k => patternDispatch.lookup k)
      = [some "handleSelectStatement", some "handleUnionStatement", some "handleInsertStatement",
         some "handleUpdateStatement", some "handleDeleteStatement"] := by decide

/-- The two regenerated descriptions of the parse-tree types agree: `fieldTypes` lists exactly the fields of `structFields`, in the same order. -/
theorem fact_field_tables_agree : fieldTypes.map (fun e => (e.1, e.2.map (·.1))) = structFields := by decide

/-- **The comparator table of the current source is well typed** (`Censor/MatchTyping.lean: fnTyped`): every
field-by-field comparator compares a part of the query with the same part of the pattern, applies `strings.EqualFold`
to strings only and `reflect.DeepEqual` / `!=` / `bytes.Equal` only to parts that cannot hold a placeholder, recognises
the whole-statement placeholder of its own kind by a shortcut, understands `%%WHERE%%` exactly in `Select.Where`, and ends
in `return true` – except the ten handlers of the statement kinds that are compared with `reflect.DeepEqual` as a whole
(SET, DDL, SHOW, USE, BEGIN …: patterns for these support no placeholders). -/
theorem fact_table_typed :
    (Match.compiled.map (·.1)).filter (fun fn => !Match.okRegular fn) =
      ["handleSetStatement", "handleDBDDLStatement", "handleDDLStatement", "handleShowStatement", "handleUseStatement",
       "handleBeginStatement", "handleCommitStatement", "handleRollbackStatement", "handleOtherReadStatement",
       "handleOtherAdminStatement"] := by decide

/-- Every function that switches on the pattern's type is well typed: each plain case hands the node (or a field of it)
to a function that accepts it; the hand-written cases are exactly the ones the model writes out. -/
theorem fact_switches_typed : Match.switchFns.all Match.switchTyped = true := by decide

/-- The five DML statement kinds are dispatched to well-typed comparators that accept exactly that kind. -/
theorem fact_dml_dispatch : dmlKinds.all (fun k =>
    match patternDispatch.lookup k with
    | some h => Match.okRegular h && (Match.domOf h).kinds == [k] && Match.rankOf h == 2 && !Match.kindChanging k
    | none => false) = true := Match.dml_dispatch

/-! ## the chain -/

variable {A P : Type}

/-- **First decisive handler wins.** If every handler in front of `d` passes the statement on and `d` decides,
the chain's result is `d`'s decision – whatever follows. -/
theorem first_decisive_wins (sem : Sem A P) (s : Stmt A) (pre post : List (Handler P)) (d : Handler P) (v : Verdict)
    (hpre : ∀ x ∈ pre, x.check sem s = .next) (hd : (d.check sem s).toVerdict? = some v) :
    runChain sem s (pre ++ d :: post) = v :=
  runChain_decisive sem s pre post d v hpre hd

/-- **A matching deny rule denies.** A parsed statement that hits a deny handler's rules – by its normalised text,
by a table `CheckTableNamesMatch` reports, or by a pattern – is denied, provided no handler in front of it decides. -/
theorem deny_match_denies (sem : Sem A P) (cfg : Cfg P) (s : Stmt A) (p : Parsed A) (pre post : List (Handler P)) (r : Rules P)
    (hcfg : cfg.handlers = pre ++ .deny r :: post) (hp : s.parsed = some p)
    (hpre : ∀ x ∈ pre, x.check sem s = .next)
    (hit : r.queries.contains p.norm = true ∨ (sem.tables p.ast r.tables).1 = true ∧ r.tables ≠ []
            ∨ r.patterns.any (sem.pat p.ast) = true) :
    handleQuery sem cfg s = .deny := by
  have hact : cfg.active = true := by simp [Cfg.active, hcfg]
  have hhit : rulesHit sem (·.1) r p = true := by
    unfold rulesHit
    rcases hit with h | ⟨h, hne⟩ | h
    · have : r.queries.isEmpty = false := by
        cases hq : r.queries with
        | nil => simp [hq] at h
        | cons a b => rfl
      simp only [this, h, Bool.not_false, Bool.true_and, Bool.true_or]
    · have : r.tables.isEmpty = false := by
        cases ht : r.tables with
        | nil => exact absurd ht hne
        | cons a b => rfl
      simp only [this, h, Bool.not_false, Bool.true_and, Bool.true_or, Bool.or_true]
    · have : r.patterns.isEmpty = false := by
        cases hq : r.patterns with
        | nil => simp [hq] at h
        | cons a b => rfl
      simp only [this, h, Bool.not_false, Bool.true_and, Bool.or_true]
  unfold handleQuery
  simp only [hact, hp, Bool.not_true, Option.isNone_some, Bool.false_and, hcfg]
  exact runChain_decisive sem s pre post (.deny r) .deny hpre (by simp [Handler.check, hp, hhit, Step.toVerdict?])

/-- **Not admitted in front of a deny-all ⇒ denied.** If no handler in front of a `denyall` stops with "allow"
(no allow rule admits the statement, no ignore entry, no allow-all), the statement is denied. -/
theorem allow_then_denyAll (sem : Sem A P) (cfg : Cfg P) (s : Stmt A) (pre post : List (Handler P))
    (hcfg : cfg.handlers = pre ++ .denyAll :: post) (hpre : ∀ x ∈ pre, x.check sem s ≠ .allow) :
    handleQuery sem cfg s = .deny := by
  have hact : cfg.active = true := by simp [Cfg.active, hcfg]
  unfold handleQuery
  simp only [hact, Bool.not_true, hcfg, Bool.false_eq_true, if_false]
  split
  · rfl
  · exact runChain_no_allow_then_deny sem s pre post hpre

/-- **Unparseable statements are rejected unless tolerated** – for every censor that is switched on (at least one
handler or a parse-error log). A censor without any handler and without a parse-error log does not look at
statements at all (`HandleQuery`'s first `if`; see `inactive_allows`): that is "no firewall configured", not a
tolerated parse error, and is the only configuration excluded here. -/
theorem unparsed_denied (sem : Sem A P) (cfg : Cfg P) (s : Stmt A)
    (hact : cfg.active = true) (hs : s.parsed = none) (hip : cfg.ignoreParseError = false) :
    handleQuery sem cfg s = .deny := by
  simp [handleQuery, hact, hs, hip]

/-- the excluded corner, stated openly: an inactive censor allows everything -/
theorem inactive_allows (sem : Sem A P) (cfg : Cfg P) (s : Stmt A) (h : cfg.active = false) :
    handleQuery sem cfg s = .allow := by
  simp [handleQuery, h]

/-- With `ignore_parse_error` an unparseable statement runs through the chain, where allow/deny rule handlers pass it
on; so a `denyall` behind handlers that do not allow it still denies it. -/
theorem unparsed_tolerated_runs_chain (sem : Sem A P) (cfg : Cfg P) (s : Stmt A)
    (hact : cfg.active = true) (hip : cfg.ignoreParseError = true) :
    handleQuery sem cfg s = runChain sem s cfg.handlers := by
  simp [handleQuery, hact, hip]

/-- **The verdict depends on the normal form only.** Two texts the parser maps to the same (normalised text, parse
tree) – spellings differing in keyword case, whitespace, a trailing semicolon or margin comments – get the same
verdict, provided each `query_ignore` list contains both raw texts or neither (after the repair the handler also
looks the normalised text up, so listing a statement in any spelling ignores all its spellings). -/
theorem verdict_depends_on_normal_form (sem : Sem A P) (cfg : Cfg P) (s₁ s₂ : Stmt A) (hp : s₁.parsed = s₂.parsed)
    (hi : ∀ qs, Handler.ignore qs ∈ cfg.handlers → qs.contains s₁.raw = qs.contains s₂.raw) :
    handleQuery sem cfg s₁ = handleQuery sem cfg s₂ := by
  unfold handleQuery
  rw [hp, runChain_raw_irrelevant sem s₁ s₂ hp cfg.handlers hi]

/-- Without `query_ignore` handlers the raw text is irrelevant altogether. -/
theorem verdict_spelling_invariant (sem : Sem A P) (cfg : Cfg P) (s₁ s₂ : Stmt A) (hp : s₁.parsed = s₂.parsed)
    (hno : ∀ qs, Handler.ignore qs ∉ cfg.handlers) :
    handleQuery sem cfg s₁ = handleQuery sem cfg s₂ :=
  verdict_depends_on_normal_form sem cfg s₁ s₂ hp (fun qs h => absurd h (hno qs))

/-! ## table rules -/

/-- **Deny by table, top level** (`_partial`: the extra hypothesis is exactly the complement of the known finding's
input class `table-rule-nested`): a SELECT that has a table of a deny handler's list as a plain member of its
top-level FROM list is denied, provided nothing in front of that handler decides. -/
theorem deny_table_denies_partial (cfg : Cfg Tree) (s : Stmt Tree) (p : Parsed Tree) (pre post : List (Handler Tree)) (r : Rules Tree)
    (pat : Tree → Tree → Bool) (x : Tree)
    (hcfg : cfg.handlers = pre ++ .deny r :: post) (hp : s.parsed = some p)
    (hpre : ∀ h ∈ pre, h.check ⟨tablesMatch, pat⟩ s = .next)
    (hk : p.ast.kind = "Select") (hx : x ∈ ((p.ast.field "From").getD Tree.nil).kids)
    (hxk : x.kind = "AliasedTableExpr") (he : ((x.field "Expr").getD Tree.nil).kind = "TableName")
    (hin : r.tables.contains (tableNameStr ((x.field "Expr").getD Tree.nil)) = true) :
    handleQuery ⟨tablesMatch, pat⟩ cfg s = .deny := by
  apply deny_match_denies ⟨tablesMatch, pat⟩ cfg s p pre post r hcfg hp hpre
  refine Or.inr (Or.inl ⟨tablesMatch_top_level p.ast x r.tables hk hx hxk he hin, ?_⟩)
  intro hnil
  simp [hnil] at hin

/-- The full statement ("by a table it reads from") fails on the current code: a table read through a sub-select is
not reported (`select id from pub where id in (select id from secret)` against the table rule `secret`) – known
finding `table-rule-nested`, replayed on the real `CheckTableNamesMatch` by the regression corpus. -/
theorem deny_table_nested_counterexample :
    let sub := Match.selectOf [Match.aliased (Match.cName "id")] [Match.aliasedTable "secret"] Tree.nil
    let wh := Match.whereOf (.node "ComparisonExpr" [Match.lf "in", Match.cName "id", .node "Subquery" [sub], Tree.nil])
    let stmt := Match.selectOf [Match.aliased (Match.cName "id")] [Match.aliasedTable "pub"] wh
    tablesMatch stmt ["secret"] = (false, false) ∧ tablesMatch sub ["secret"] = (true, true) := by
  decide

/-! ## patterns -/

/-- **All comparisons succeed ⇒ the handler returns true** – for every field-by-field comparator of the current
source (`comparators`, regenerated): if no step of its body stops with false on `(q, p)`, the function returns
true. The final `return` being `true` comes from `fact_comparators_ok`; this is what failed for INSERT patterns. -/
theorem handler_true_when_all_comparisons_succeed (fuel : Nat) (fn : String) (q p : Tree) (fin : Bool) (steps : List Match.Row)
    (hs : Match.specialFns.contains fn = false) (hl : comparators.lookup fn = some (fin, steps))
    (hall : Match.noFalse (Match.evalFn fuel)
        (fun e x => e == "isWherePattern" && !x.isNil && Match.foldEq (Match.fld x "Type") (Match.fld Match.wherePattern "Type")
          && Match.evalFn fuel "areEqualExpr" (Match.fld x "Expr") (Match.fld Match.wherePattern "Expr"))
        q p (steps.length + 1) steps = true) :
    Match.evalFn (fuel + 1) fn q p = true := by
  rw [Match.evalFn_regular fuel fn q p fin steps hs hl]
  apply Match.runSteps_of_noFalse _ _ _ _ _ _ _ hall
  have hok := fact_comparators_ok
  rw [List.all_eq_true] at hok
  have hmem : (fn, fin, steps) ∈ comparators := by
    have := List.lookup_eq_some_iff.mp hl
    obtain ⟨l₁, l₂, h, _⟩ := this
    rw [h]; simp
  have := hok _ hmem
  simp only [Match.comparatorOk, Bool.and_eq_true] at this
  exact this.1

/-- `%%VALUE%%` matches any literal, `%%LIST_OF_VALUES%%` too, `%%COLUMN%%` any identifier, `(%%SUBQUERY%%)` any
sub-select: generalising such a position of a pattern never turns a successful comparison into a failing one. -/
theorem placeholders_match_everything (fuel : Nat) (q : Tree) :
    Match.evalFn (fuel + 1) "areEqualSQLVal" q Match.valuePattern = true
    ∧ Match.evalFn (fuel + 1) "areEqualSQLVal" q Match.listOfValuesPattern = true
    ∧ Match.evalFn (fuel + 1) "areEqualColIdent" q Match.columnPattern = true
    ∧ Match.evalFn (fuel + 1) "areEqualSubquery" q (.node "Subquery" [Match.subqueryPattern]) = true :=
  ⟨Match.value_matches fuel q, Match.listOfValues_matches fuel q, Match.column_matches fuel q, Match.subquery_matches fuel q⟩

/-- `match_generalise` (a pattern obtained from a statement by generalising any subset of its positions matches the
statement), proved in its two local halves: congruence for **every** regular node kind of the current source (if no
comparison of the body fails the handler returns true – resting on the regenerated `fact_comparators_ok`) and the
placeholder cases (a generalised literal / identifier / sub-select is accepted whatever the statement has there).
The closed statement is checked on the real matcher and on the model for every generated statement × subset of ≤ 6
positions (oracle `pattern-self-mismatch`). The closed statement is `match_generalise` below (the induction over
well-typed parse trees that chains the two halves); this theorem is kept for the record. -/
theorem match_generalise_partial (fuel : Nat) :
    (∀ fn fin steps q p, Match.specialFns.contains fn = false → comparators.lookup fn = some (fin, steps) →
      Match.noFalse (Match.evalFn fuel)
        (fun e x => e == "isWherePattern" && !x.isNil && Match.foldEq (Match.fld x "Type") (Match.fld Match.wherePattern "Type")
          && Match.evalFn fuel "areEqualExpr" (Match.fld x "Expr") (Match.fld Match.wherePattern "Expr"))
        q p (steps.length + 1) steps = true →
      Match.evalFn (fuel + 1) fn q p = true)
    ∧ (∀ q, Match.evalFn (fuel + 1) "areEqualSQLVal" q Match.valuePattern = true
          ∧ Match.evalFn (fuel + 1) "areEqualSQLVal" q Match.listOfValuesPattern = true
          ∧ Match.evalFn (fuel + 1) "areEqualColIdent" q Match.columnPattern = true
          ∧ Match.evalFn (fuel + 1) "areEqualSubquery" q (.node "Subquery" [Match.subqueryPattern]) = true) :=
  ⟨fun fn fin steps q p hs hl hall => handler_true_when_all_comparisons_succeed fuel fn q p fin steps hs hl hall,
   fun q => placeholders_match_everything fuel q⟩

/-- **`match_generalise`.** For every statement tree `t` that is well typed (`wellTypedM`: w.r.t. the regenerated Go
types of `sqlparser/ast.go` – `structFields`/`fieldTypes`/`namedTypes`/`interfaces` – and holding in every compared
position a value the comparator called on it has a case for) and is a DML statement (SELECT, UNION, INSERT, UPDATE,
DELETE), and for every generalisation `σ` – any set of its literals (and function calls) replaced by `%%VALUE%%`, tails of
tuples by `%%LIST_OF_VALUES%%`, identifiers by `%%COLUMN%%`, sub-selects by `(%%SUBQUERY%%)`, WHERE clauses of SELECTs by
`%%WHERE%%`, select lists by `*`, whole SELECT/UNION/INSERT/UPDATE/DELETE statements by `%%SELECT%%`/… – the pattern
`generalise t σ` matches `t`: `checkSinglePatternMatch` returns true. Proved by induction over the depth of well-typed
trees; the per-node-kind step is generic over the regenerated comparator table (`fact_table_typed`,
`fact_switches_typed`, `fact_comparators_ok`). The harness checks `wellTypedM` on every tree the reflection dump of the
real parser produces and compares `generalise` with the same generalisation carried out on the real parse tree. -/
theorem match_generalise (t : Tree) (σ : Sigma) (hwt : wellTypedM t = true) (hdml : dmlKinds.contains t.kind = true) :
    matchT (generalise t σ) t = true :=
  Match.matchT_of_isGen hwt hdml (Match.isGen_generalise t σ)

/-- The relational form: *every* pattern in the relation "is a generalisation of" matches – not only those `generalise`
produces (e.g. a `%%WHERE%%` where the statement has no WHERE clause at all). -/
theorem match_generalise_rel (t p : Tree) (hwt : wellTypedM t = true) (hdml : dmlKinds.contains t.kind = true)
    (hg : isGen true false p t = true) : matchT p t = true :=
  Match.matchT_of_isGen hwt hdml hg

/-- The one case of a type switch the typing judgement excludes (`Match.excludedCases`): `areEqualInsertRows`, case
`*ParenSelect`, hands the inner statement to `handleSelectStatement`, which accepts a `*Select` only. A parenthesised UNION
as INSERT rows would therefore not even match itself – but the grammar (`insert_data`) drops the parentheses, no parse
tree contains this shape (checked on every dumped tree), the case is dead code. -/
theorem insertRows_parenSelect_counterexample :
    let sel (n : String) := Match.selectDual (Match.sqlVal "1" (strBytes n))
    let u : Tree := .node "Union" [Match.lf "union", sel "1", sel "2", .node "OrderBy" [], Tree.nil, Match.lf ""]
    let ins : Tree := .node "Insert" [Match.lf "insert", .node "Comments" [], Match.lf "", Match.tName "t1", Match.lf "false",
      .node "Partitions" [], .node "Columns" [], .node "ParenSelect" [u], .node "OnDup" [], .node "Returning" []]
    wellTyped ins = true ∧ Match.acc ins = false ∧ matchT ins ins = false := by
  decide

/-! ### the converse direction -/

/-- `match_sound_on_literals` ("a pattern without placeholders matches only statements equal to it up to what the
comparators ignore"), proved in its local halves – for **every** comparator of the regenerated table and the two leaf
comparators:

1. a field-by-field comparator that returns `true` either ran through with *every* comparison passing and ends in
   `return true`, or was stopped with `true` by one of exactly three kinds of step: the nil guard (both sides nil), a
   whole-statement shortcut (`p` *is* `%%SELECT%%`/`%%UNION%%`/…), the `%%WHERE%%` escape (`isWherePattern(p.Where)`);
2. `areEqualSQLVal` on a pattern that is neither `%%VALUE%%` nor `%%LIST_OF_VALUES%%` means same literal type and bytes;
   `areEqualColIdent` on a pattern that is not `%%COLUMN%%` means the same name up to ASCII letter case.

What the comparators do **not** look at (so a literal pattern also matches statements differing there): letter case of
keywords/operators/identifiers (`strings.EqualFold`, `ColIdent.Equal`); table identifiers up to `CompliantName`
(`compliant_name_counterexample`, known finding `pattern-table-compliant-name`); `SQLVal.CastType`, `Limit.Type`
(`limit 1, 2` = `limit 2 offset 1`), `Insert.Default`, quoting flags of identifiers; a select list consisting of a lone `*`
matches every select list (by design). On the pinned tree they also ignored RETURNING, `UPDATE … FROM` and `UNION` vs
`UNION ALL` – an allow-rule bypass (`insert into t1 (a) values (%%VALUE%%)` matched `… returning (select password from
users limit 1)`), repaired (`fix:` 46; `returning_is_compared`).
**Missing** for the closed theorem: the induction over well-typed trees that chains (1) and (2) into a structural
relation between `p` and `t` (it needs the converse of `cstep_good` for every step shape and the list of fields each
comparator reads as a regenerated fact). -/
theorem match_sound_on_literals_partial (fuel : Nat) :
    (∀ fn fin steps q p, Match.specialFns.contains fn = false → Match.compiled.lookup fn = some (fin, steps) →
      Match.evalFn (fuel + 1) fn q p = true →
      steps.any (Match.cstepRetTrue (Match.evalFn fuel) (Match.escEval (Match.evalFn fuel)) q p) = true
      ∨ (fin = true ∧ steps.all (Match.cstepPasses (Match.evalFn fuel) (Match.escEval (Match.evalFn fuel)) q p) = true))
    ∧ (∀ call esc q p i a, (Match.atomAt call esc q p i a).isRetTrue = true →
        (a = .nilboth ∧ q.isNil = true ∧ p.isNil = true)
        ∨ (∃ o ph x c, a = .shortcut o ph ∧ Match.selO i q p o = some x ∧ Match.placeholderStmt ph = some c ∧ (x == c) = true)
        ∨ (∃ e ea c a' b x, a = .cmpEsc e ea c a' b ∧ Match.selO i q p ea = some x ∧ esc e x = true))
    ∧ (∀ q p, Match.evalFn (fuel + 1) "areEqualSQLVal" q p = true → Match.isValuePattern p = false →
        Match.isListOfValuesPattern p = false →
        (Match.fld q "Type").leafBytes = (Match.fld p "Type").leafBytes ∧ (Match.fld q "Val").leafBytes = (Match.fld p "Val").leafBytes)
    ∧ (∀ q p, Match.evalFn (fuel + 1) "areEqualColIdent" q p = true → Match.isColumnPattern p = false →
        lowerBytes (Match.fld q "val").leafBytes = lowerBytes (Match.fld p "val").leafBytes) :=
  ⟨fun fn fin steps q p hs hl h => by
      rw [Match.evalFn_compiled fuel fn q p fin steps hs hl] at h
      exact Match.runC_true_inv _ _ q p fin steps h,
   fun call esc q p i a h => Match.atom_retTrue_kinds call esc q p i a h,
   fun q p h hv hl => Match.sqlVal_sound fuel q p h hv hl,
   fun q p h hc => Match.colIdent_sound fuel q p h hc⟩

/-- **`match_sound_on_identifiers`.** When a pattern `p` matches a statement `t`, then for every call the matcher makes on
its way down – `Match.compared t p`, the lock-step walk: each entry is `(fuel, callee, x, y)` with `x` a part of the
statement and `y` **the same part of the pattern**; the walk stops only below a placeholder escape (`%%SELECT%%`-style
whole-statement placeholder, `(%%SUBQUERY%%)`, `%%WHERE%%`, a lone `*` select list, nil = nil) –

* every **table identifier** reached (`areEqualTableIdent`: the name *and every qualifier component* of a table name in
  FROM / INSERT INTO / UPDATE / DELETE / JOIN, of the qualifier of a column name – `table.column`, `schema.table.column` –
  and of `t.*` / `s.t.*`) is equal in statement and pattern up to ASCII letter case and `CompliantName()`;
* every **column identifier** reached (`areEqualColIdent`) is `%%COLUMN%%` in the pattern or equal up to letter case.

So a pattern that spells out `app.users` does not match `vault.users`, `users` or `other.users`, and `app.users.id`
does not match `vault.users.id`. Proved over the regenerated comparator table: it needs
`fact_comparators_compare_pattern_with_query` (each comparator hands `(query.X, pattern.X)` to its callee) and the
regenerated body of `areEqualTableIdent`; a comparator comparing `query.Qualifier` with `query.Qualifier` breaks both. -/
theorem match_sound_on_identifiers (t p : Tree) (h : matchT p t = true) :
    ∀ e ∈ Match.compared t p,
      (e.2.1 = "areEqualTableIdent" → Match.identEq e.2.2.1 e.2.2.2 = true)
      ∧ (e.2.1 = "areEqualColIdent" → Match.isColumnPattern e.2.2.2 = true
          ∨ lowerBytes (Match.fld e.2.2.1 "val").leafBytes = lowerBytes (Match.fld e.2.2.2 "val").leafBytes) := by
  intro e he
  have hs := Match.compared_sound fact_comparators_compare_pattern_with_query h e he
  obtain ⟨f, fn, x, y⟩ := e
  simp only at hs ⊢
  constructor
  · intro hfn
    subst hfn
    rw [Match.opCmp_fn (by decide)] at hs
    cases f with
    | zero => simp [Match.evalFn] at hs
    | succ f => exact Match.tableIdent_sound f x y hs
  · intro hfn
    subst hfn
    rw [Match.opCmp_fn (by decide)] at hs
    cases f with
    | zero => simp [Match.evalFn] at hs
    | succ f =>
      cases hc : Match.isColumnPattern y with
      | true => exact Or.inl rfl
      | false => exact Or.inr (Match.colIdent_sound f x y hs hc)

/-- **`match_sound_on_literals`, in walk form.** Under the same hypothesis every *literal* the walk reaches
(`areEqualSQLVal`) is `%%VALUE%%` / `%%LIST_OF_VALUES%%` in the pattern or has the same type and the same bytes in the
statement; every keyword / operator / flag compared with `strings.EqualFold` is equal up to letter case; every part
compared with `reflect.DeepEqual` / `bytes.Equal` / `!=` is identical. With `match_sound_on_identifiers` this is the
converse of `match_generalise` for everything the matcher reaches.
**Still missing** for the closed structural statement (`p` relates to `t` position by position over the *whole* tree):
that the walk reaches every position of the pattern outside placeholders – i.e. per node kind, the list of fields no
comparator reads (today: `SQLVal.CastType`, `Limit.Type`, `Insert.Default`, quoting flags, the lone-`*` select list;
listed in `match_sound_on_literals_partial`) as a regenerated fact. -/
theorem match_sound_on_literals_reached (t p : Tree) (h : matchT p t = true) :
    ∀ e ∈ Match.compared t p,
      (e.2.1 = "areEqualSQLVal" → Match.isValuePattern e.2.2.2 = true ∨ Match.isListOfValuesPattern e.2.2.2 = true
          ∨ ((Match.fld e.2.2.1 "Type").leafBytes = (Match.fld e.2.2.2 "Type").leafBytes
              ∧ (Match.fld e.2.2.1 "Val").leafBytes = (Match.fld e.2.2.2 "Val").leafBytes))
      ∧ (e.2.1 = "strings.EqualFold" → Match.foldEq e.2.2.1 e.2.2.2 = true)
      ∧ (e.2.1 = "reflect.DeepEqual" ∨ e.2.1 = "bytes.Equal" → e.2.2.1 = e.2.2.2) := by
  intro e he
  have hs := Match.compared_sound fact_comparators_compare_pattern_with_query h e he
  obtain ⟨f, fn, x, y⟩ := e
  simp only at hs ⊢
  refine ⟨?_, ?_, ?_⟩
  · intro hfn
    subst hfn
    rw [Match.opCmp_fn (by decide)] at hs
    cases f with
    | zero => simp [Match.evalFn] at hs
    | succ f =>
      cases hv : Match.isValuePattern y with
      | true => exact Or.inl rfl
      | false =>
        cases hl : Match.isListOfValuesPattern y with
        | true => exact Or.inr (Or.inl rfl)
        | false => exact Or.inr (Or.inr (Match.sqlVal_sound f x y hs hv hl))
  · intro hfn
    subst hfn
    simpa [Match.opCmp] using hs
  · intro hfn
    have hb : (x == y) = true := by
      rcases hfn with hfn | hfn <;> subst hfn <;> simpa [Match.opCmp] using hs
    exact Tree.eq_of_beq x y hb

/-- The seeded shape, decided on concrete trees: the pattern `select name from app.users where id = %%VALUE%%` matches
`… from app.users where id = 7` and does **not** match the same statement on `vault.users` or on unqualified `users`; the
lock-step walk of the second pair contains the table identifier that differs. -/
theorem qualifier_is_compared :
    let tbl (schema : String) : Tree := .node "AliasedTableExpr"
      [.node "TableName" [Match.tIdent "users", Match.tIdent schema], .node "Partitions" [], Match.tIdent "", Tree.nil]
    let stmt (schema : String) (v : Tree) : Tree :=
      Match.selectOf [Match.aliased (Match.cName "name")] [tbl schema] (Match.whereOf (Match.cmpEq (Match.cName "id") v))
    let pat := stmt "app" Match.valuePattern
    let seven := Match.sqlVal "1" (strBytes "7")
    matchT pat (stmt "app" seven) = true ∧ matchT pat (stmt "vault" seven) = false ∧ matchT pat (stmt "" seven) = false
    ∧ (Match.compared (stmt "vault" seven) pat).any
        (fun e => e.2.1 == "areEqualTableIdent" && !Match.identEq e.2.2.1 e.2.2.2) = true := by
  decide

/-- A literal pattern matches a statement on a *different table*: table identifiers are compared after
`CompliantName()` (every character that is not a letter, `_`, `@` or a non-leading digit becomes `_`), so the pattern
`select a from a_b` matches ``select a from `a-b` `` – known finding `pattern-table-compliant-name`, replayed on the real
matcher by the regression corpus. -/
theorem compliant_name_counterexample :
    let stmt (tbl : String) := Match.selectOf [Match.aliased (Match.cName "a")] [Match.aliasedTable tbl] Tree.nil
    matchT (stmt "a_b") (stmt "a-b") = true ∧ (stmt "a_b" == stmt "a-b") = false := by
  decide

/-- After the repair the RETURNING clause is compared: an INSERT pattern without RETURNING no longer matches the same
INSERT with one (on the pinned tree it did – `Insert.Returning` was read by no comparator). -/
theorem returning_is_compared :
    let ins (ret : List Tree) : Tree := .node "Insert" [Match.lf "insert", .node "Comments" [], Match.lf "", Match.tName "t1", Match.lf "false",
      .node "Partitions" [], .node "Columns" [Match.cIdent "a"],
      .node "Values" [.node "ValTuple" [Match.sqlVal "1" (strBytes "1")]], .node "OnDup" [], .node "Returning" ret]
    matchT (ins []) (ins [Match.aliased (Match.cName "a")]) = false ∧ matchT (ins []) (ins []) = true := by
  decide

/-! ## sessions -/

/-- **A denied statement is never forwarded** (and each gets exactly one error + ready): for every interleaving of
statements and database completions, from every state, the database-side trace is exactly the allowed statements in
order – independently of when the proxy remembers the statement. -/
theorem denied_not_forwarded (denied : String → Bool) (addFirst : Bool) (st : St) (evs : List Ev) :
    forwarded (run denied addFirst st evs).2 = allowedOf denied evs
    ∧ clientErrors (run denied addFirst st evs).2 = deniedCount denied evs :=
  ⟨forwarded_run denied addFirst st evs, clientErrors_run denied addFirst st evs⟩

/-- **The session stays aligned.** With the statement remembered only after the censor accepted it
(`fact_pg_add_after_censor`), for every event list in which the database answers only statements it received: the
pending queue is always "allowed statements not yet answered" and the k-th database response is processed with the
k-th *allowed* statement – never with a rejected one. -/
theorem queue_aligned (denied : String → Bool) (evs : List Ev) (hwf : wellFormed denied 0 evs = true) :
    (run denied false ⟨[]⟩ evs).1.pending = (allowedOf denied evs).drop (doneCount evs)
    ∧ pairedWith (run denied false ⟨[]⟩ evs).2 = ((allowedOf denied evs).take (doneCount evs)).map some := by
  have := aligned_run denied ⟨[]⟩ evs (by simpa using hwf)
  simpa using this

/-- MySQL: the database-side trace of a session is exactly its allowed statements (`fact_mysql`: censor first, `continue` after the error packet). -/
theorem mysql_denied_not_forwarded (denied : String → Bool) (qs : List String) :
    forwarded (myRun denied qs) = qs.filter (fun q => !denied q) :=
  forwarded_myRun denied qs

/-- The order matters: remembering the statement *before* asking the censor (the pinned tree before the repair)
pairs the next response with the rejected statement. -/
theorem queue_misaligned_counterexample :
    pairedWith (run (fun q => q == "denied") true ⟨[]⟩ [.query "denied", .query "ok", .dbDone]).2 = [some "denied"]
    ∧ pairedWith (run (fun q => q == "denied") false ⟨[]⟩ [.query "denied", .query "ok", .dbDone]).2 = [some "ok"] := by
  decide

/-- **End to end**: a statement the chain denies – because it hits a deny rule in front of which nothing decides –
is not in the database-side trace of any session containing it… -/
theorem denied_statement_never_reaches_database (sem : Sem A P) (cfg : Cfg P) (parse : String → Stmt A)
    (st : St) (evs : List Ev) (q : String) (hq : handleQuery sem cfg (parse q) = .deny) :
    q ∉ forwarded (run (fun x => handleQuery sem cfg (parse x) == .deny) true st evs).2
    ∧ q ∉ forwarded (run (fun x => handleQuery sem cfg (parse x) == .deny) false st evs).2 := by
  have key : ∀ evs : List Ev, q ∉ allowedOf (fun x => handleQuery sem cfg (parse x) == .deny) evs := by
    intro evs
    induction evs with
    | nil => simp [allowedOf]
    | cons e es ih =>
      cases e with
      | query x =>
        simp only [allowedOf]
        split
        · exact ih
        · next hx =>
          intro hmem
          rcases List.mem_cons.mp hmem with h | h
          · subst h; simp [hq] at hx
          · exact ih h
      | dbDone => simpa [allowedOf] using ih
  constructor <;> rw [forwarded_run] <;> exact key evs

/-! ## non-vacuity -/

/-- a configuration and a statement satisfying the hypotheses of `deny_match_denies` (deny by table behind an allow rule that does not apply) -/
example :
    let sem : Sem Unit Unit := ⟨fun _ ts => (ts.contains "secret", false), fun _ _ => false⟩
    let cfg : Cfg Unit := ⟨false, false, [.allow ⟨["select 1"], [], []⟩, .capture, .deny ⟨[], ["secret"], []⟩, .allowAll]⟩
    let s : Stmt Unit := ⟨"SELECT * FROM secret", some ⟨"select * from secret", ()⟩⟩
    handleQuery sem cfg s = .deny ∧ handleQuery sem cfg ⟨"select 1", some ⟨"select 1", ()⟩⟩ = .allow := by decide

/-- `allow_then_denyAll` and `unparsed_denied` are not vacuous -/
example :
    let sem : Sem Unit Unit := ⟨fun _ _ => (false, false), fun _ _ => false⟩
    let cfg : Cfg Unit := ⟨false, false, [.allow ⟨["select 1"], [], []⟩, .denyAll]⟩
    handleQuery sem cfg ⟨"select 2", some ⟨"select 2", ()⟩⟩ = .deny
    ∧ handleQuery sem cfg ⟨"selec", none⟩ = .deny
    ∧ handleQuery sem { cfg with ignoreParseError := true, handlers := [.allow ⟨["select 1"], [], []⟩] } ⟨"selec", none⟩ = .allow := by decide

/-- `queue_aligned`'s hypothesis is satisfiable by a session with denied and allowed statements and completions -/
example : wellFormed (fun q => q == "d") 0 [.query "a", .query "d", .dbDone, .query "b", .query "d", .dbDone] = true := by decide

/-- `match_generalise` is not vacuous: `select 7 from dual` is a well-typed DML tree, generalising its literal gives a
different tree, which matches. -/
example :
    let t := Match.selectDual (Match.sqlVal "1" (strBytes "7"))
    wellTypedM t = true ∧ dmlKinds.contains t.kind = true ∧ (generalise t [(7, .value)] == t) = false := by
  decide

end AcraModel.Props.C05
