import AcraModel.Typed.Spec
import AcraModel.Typed.KindsLemmas
import AcraModel.Typed.RowLemmas
import AcraModel.Wire.ByteaLemmas
/-!
# C19 — typed columns come back in the declared type or per the failure policy

Property theorems about the model of the type-aware read path (`Typed/Policy.lean`: the real
decoder → (reveal) → encoder chain of both proxies) against the independent specification of
`Typed/Spec.lean`. The subscribers in between are an arbitrary function `reveal`.
-/
namespace AcraModel.Props.C19
open AcraModel AcraModel.Typed AcraModel.Wire

/-! ## facts from the regenerated tables -/

/-- Every encoder parses integers with the same width in `Encode`, `encodeDefault` and
`ValidateDefaultValue` (so a default accepted at start-up always encodes), 32 bits for the int32 types and
64 for the int64 types, and always in base 10. -/
theorem fact_parseIntBits :
    Generated.Typed.parseIntBits = [
      ("Int4DataTypeEncoder", "Encode", [32]), ("Int4DataTypeEncoder", "ValidateDefaultValue", [32]), ("Int4DataTypeEncoder", "encodeDefault", [32]),
      ("Int8DataTypeEncoder", "Encode", [64]), ("Int8DataTypeEncoder", "ValidateDefaultValue", [64]), ("Int8DataTypeEncoder", "encodeDefault", [64]),
      ("LongDataTypeEncoder", "Encode", [32]), ("LongDataTypeEncoder", "ValidateDefaultValue", [32]), ("LongDataTypeEncoder", "encodeDefault", [32]),
      ("LongLongDataTypeEncoder", "Encode", [64]), ("LongLongDataTypeEncoder", "ValidateDefaultValue", [64]), ("LongLongDataTypeEncoder", "encodeDefault", [64])] := by decide

/-- The encoders are registered under the type ids the configuration maps `data_type` to
(int32 → Int4OID / TypeLong, int64 → Int8OID / TypeLongLong, str → TextOID / TypeString, bytes → ByteaOID / TypeBlob). -/
theorem fact_encoder_registry :
    Generated.Typed.pgEncoders = [("Int4OID", "Int4DataTypeEncoder"), ("Int8OID", "Int8DataTypeEncoder"), ("TextOID", "TextDataType"), ("ByteaOID", "ByteaDataTypeEncoder")] ∧
    Generated.Typed.myEncoders = [("TypeLong", "LongDataTypeEncoder"), ("TypeLongLong", "LongLongDataTypeEncoder"), ("TypeString", "StringDataTypeEncoder"), ("TypeBlob", "BlobDataTypeEncoder")] ∧
    Generated.Typed.pgEncryptedTypeIDs = [("EncryptedType_Bytes", "ByteaOID"), ("EncryptedType_Int32", "Int4OID"), ("EncryptedType_Int64", "Int8OID"), ("EncryptedType_String", "TextOID")] ∧
    Generated.Typed.myEncryptedTypeIDs = [("EncryptedType_Bytes", "TypeBlob"), ("EncryptedType_Int32", "TypeLong"), ("EncryptedType_Int64", "TypeLongLong"), ("EncryptedType_String", "TypeString")] := by decide

/-- In both proxies the decoder is subscribed before, and the encoder after, every subscriber that can
reveal a value (decoder first, encoder last). -/
theorem fact_wiring :
    Generated.Typed.pgSubscribeOrder.head? = some "decoderProcessor" ∧
    Generated.Typed.pgSubscribeOrder.getLast? = some "encoderProcessor" ∧
    Generated.Typed.mySubscribeOrder.getLast? = some "NewDataEncoderProcessor()" ∧
    Generated.Typed.mySubscribeOrder.idxOf "NewDataDecoderProcessor()" < Generated.Typed.mySubscribeOrder.idxOf "containerDetector" ∧
    Generated.Typed.mySubscribeOrder.idxOf "NewDataDecoderProcessor()" < Generated.Typed.mySubscribeOrder.idxOf "tokenProcessor" := by decide

/-- The failure-policy names of the configuration and the MySQL type codes the model uses. -/
theorem fact_policy_names_and_codes :
    Generated.Typed.onFailEmpty = "" ∧ Generated.Typed.onFailCiphertext = "ciphertext" ∧
    Generated.Typed.onFailDefault = "default_value" ∧ Generated.Typed.onFailError = "error" ∧
    myTypeCode .int32 = 3 ∧ myTypeCode .int64 = 8 ∧ myTypeCode .str = 254 ∧ myTypeCode .bytes = 252 := by decide

/-! ## integer codecs -/

/-- **int_codec_roundtrip (text).** Formatting an integer of the column's width and parsing it back gives
the same integer – including both boundary values. -/
theorem int_codec_roundtrip_text (bits : Nat) (n : Int) (hb : 1 ≤ bits) (h : inRange bits n) :
    parseInt (formatInt n) bits = some n := parseInt_formatInt bits n hb h

/-- **int_codec_roundtrip (binary).** The fixed-width forms (PostgreSQL big-endian, MySQL little-endian)
decode to the integer they encode, for every width and every in-range value; and every `k`-byte string is
the encoding of exactly the integer it decodes to. -/
theorem int_codec_roundtrip_binary (k : Nat) (n : Int) (hk : 1 ≤ k) (h : inRange (8 * k) n) :
    beToInt (intToBE k n) = n ∧ leToInt (intToLE k n) = n ∧
    (intToBE k n).length = k ∧ (intToLE k n).length = k :=
  ⟨beToInt_intToBE k n hk h, leToInt_intToLE k n hk h, intToBE_length k n, intToLE_length k n⟩

/-- every non-empty byte string is the binary form of the integer it decodes to, which is in range -/
theorem int_codec_binary_total (b : Bytes) (hb : 1 ≤ b.length) :
    intToBE b.length (beToInt b) = b ∧ inRange (8 * b.length) (beToInt b) ∧
    intToLE b.length (leToInt b) = b ∧ inRange (8 * b.length) (leToInt b) :=
  ⟨intToBE_beToInt b hb, beToInt_inRange b hb, intToLE_leToInt b hb, leToInt_inRange b hb⟩

/-- **int_codec_range.** Whatever `ParseInt` accepts lies in the range of the width – a value is never
wrapped – and the decimal form of any out-of-range integer is rejected. -/
theorem int_codec_range (bits : Nat) (hb : 1 ≤ bits) :
    (∀ s n, parseInt s bits = some n → inRange bits n) ∧
    (∀ n, ¬ inRange bits n → parseInt (formatInt n) bits = none) :=
  ⟨fun s n h => parseInt_inRange s bits n hb h, fun n h => parseInt_formatInt_out_of_range bits n hb h⟩

/-! ## PostgreSQL read path -/

/-- **typed_owner (PostgreSQL).** When the value is revealed as a non-empty plaintext `m` that is a value
of the declared type, the client receives exactly the specification encoding of `m` as that type in the
format it asked for: binary integers big-endian of the declared width, text integers as their decimal
text, strings as they are, bytes as they are (binary) or as bytea hex (text). -/
theorem typed_owner_pg (s : Setting) (t : DataType) (binary : Bool) (d64 : Default64)
    (reveal : Bytes → Option Bytes) (wire x m w : Bytes)
    (ht : s.dataType = some t) (hx : pgDecode s binary wire = some x) (hr : reveal x = some m)
    (hm : m ≠ []) (hw : pgSpecEncode t binary m = some w) :
    pgTypedRead s binary d64 reveal wire = .value w false := by
  unfold pgTypedRead
  simp only [hx, hr]
  have hme : m.isEmpty = false := by cases m <;> simp_all
  unfold pgEncode
  simp only [hme, Bool.false_eq_true, if_false, ht]
  cases t <;> simp only [pgSpecEncode, bitsOf, Option.getD_some] at hw ⊢
  · cases hp : parseInt m 32 <;> simp_all
  · cases hp : parseInt m 64 <;> simp_all
  · simp_all
  · simp_all

/-- **typed_policy (PostgreSQL).** When the value is not revealed (and the stored data is non-empty and,
for integer columns, is not itself a decimal literal – a ciphertext never is), the client receives exactly
what the failure policy says, stated outright as a table:
* `error` → an encoding error for the statement;
* `default_value` with a (valid) default → the specification encoding of the default as the declared type;
* `ciphertext`, or `default_value` without a configured default → the stored value (bytea columns in text
  format as bytea hex). -/
theorem typed_policy_pg (s : Setting) (t : DataType) (binary : Bool) (d64 : Default64)
    (reveal : Bytes → Option Bytes) (wire x : Bytes)
    (ht : s.dataType = some t) (hx : pgDecode s binary wire = some x) (hr : reveal x = none)
    (hne : x ≠ []) (hv : validDefault s d64)
    (hnl : ∀ n, parseInt x (bitsOf t) ≠ some n ∨ bitsOf t = 0) :
    pgTypedRead s binary d64 reveal wire =
      match s.policy, defaultPlain s d64 with
      | .error, _ => .encodingError
      | .defaultValue, some d =>
        (match pgSpecEncode t binary d with
         | some w => .value w false
         | none => .otherError)
      | _, _ => .value (pgCipherForm t binary x) false := by
  unfold pgTypedRead
  simp only [hx, hr]
  have hxe : x.isEmpty = false := by cases x <;> simp_all
  unfold pgEncode pgEncodeOnFail defaultPlain pgCipherForm validDefault at *
  simp only [hxe, Bool.false_eq_true, if_false, ht]
  cases t <;> cases hp : s.policy <;> cases hd : s.default <;>
    simp_all [bitsOf, pgSpecEncode] <;>
    (try (cases hpi : parseInt x 32 <;> simp_all)) <;>
    (try (cases hpi : parseInt x 64 <;> simp_all)) <;>
    (try (cases h6 : d64.decoded <;> simp_all))
  · rename_i d; cases hq : parseInt d 32 <;> simp_all
  · rename_i d; cases hq : parseInt d 64 <;> simp_all

/-- the specification encoding of a value decodes under its type -/
theorem pgSpecEncode_decodes (t : DataType) (binary : Bool) (m w : Bytes)
    (h : pgSpecEncode t binary m = some w) : pgDecodesAs t binary w := by
  cases t <;> simp only [pgSpecEncode, pgDecodesAs] at h ⊢
  · cases hp : parseInt m 32 <;> simp [hp] at h
    cases binary <;> simp_all
    rw [← h]; exact intToBE_length 4 _
  · cases hp : parseInt m 64 <;> simp [hp] at h
    cases binary <;> simp_all
    rw [← h]; exact intToBE_length 8 _
  · cases binary <;> simp_all
    exact ⟨m, by rw [← h]; exact Bytea.decodeEscaped_pgEncodeToHex m⟩

/-- a stored value of an integer column that is itself a decimal literal of the declared width is
delivered as that integer (it is a value of the declared type), whoever reads it -/
theorem unrevealed_literal_pg (s : Setting) (t : DataType) (binary : Bool) (d64 : Default64)
    (reveal : Bytes → Option Bytes) (wire x : Bytes) (n : Int)
    (ht : s.dataType = some t) (hx : pgDecode s binary wire = some x) (hr : reveal x = none)
    (hb : bitsOf t ≠ 0) (hn : parseInt x (bitsOf t) = some n) :
    pgTypedRead s binary d64 reveal wire = .value (if binary then intToBE (bitsOf t / 8) n else x) false := by
  unfold pgTypedRead
  simp only [hx, hr]
  have hxe : x.isEmpty = false := by
    cases x with
    | nil => cases t <;> simp [parseInt, bitsOf] at hn hb
    | cons _ _ => rfl
  unfold pgEncode
  simp only [hxe, Bool.false_eq_true, if_false, ht]
  cases t <;> simp_all [bitsOf]

/-- **never_wrong_type (PostgreSQL).** For a valid setting and a plaintext that is a value of the declared
type, every value that is delivered either decodes under the declared type in the requested format, or the
value was not revealed, the policy is `ciphertext` (or `default_value` with no default configured) and the
delivered bytes are the stored value. Nothing else – in particular no value of another type and no partly
revealed value – is ever delivered. -/
theorem never_wrong_type_pg (s : Setting) (t : DataType) (binary : Bool) (d64 : Default64)
    (reveal : Bytes → Option Bytes) (wire x out : Bytes) (rb : Bool)
    (ht : s.dataType = some t) (hx : pgDecode s binary wire = some x) (hne : x ≠ [])
    (hv : validDefault s d64)
    (hrep : ∀ m, reveal x = some m → m ≠ [] ∧ (pgSpecEncode t binary m).isSome)
    (h : pgTypedRead s binary d64 reveal wire = .value out rb) :
    pgDecodesAs t binary out ∨
      (reveal x = none ∧ (s.policy = .ciphertext ∨ (s.policy = .defaultValue ∧ s.default = none)) ∧
        out = pgCipherForm t binary x) := by
  cases hr : reveal x with
  | some m =>
    obtain ⟨hm, hs⟩ := hrep m hr
    obtain ⟨w, hw⟩ := Option.isSome_iff_exists.mp hs
    rw [typed_owner_pg s t binary d64 reveal wire x m w ht hx hr hm hw] at h
    cases h
    exact Or.inl (pgSpecEncode_decodes t binary m _ hw)
  | none =>
    by_cases hlit : ∃ n, parseInt x (bitsOf t) = some n ∧ bitsOf t ≠ 0
    · obtain ⟨n, hn, hb⟩ := hlit
      rw [unrevealed_literal_pg s t binary d64 reveal wire x n ht hx hr hb hn] at h
      cases h
      left
      cases t <;> simp [bitsOf] at hb hn ⊢
      · cases binary <;> simp_all [pgDecodesAs]
      · cases binary <;> simp_all [pgDecodesAs]
    · have hnl : ∀ n, parseInt x (bitsOf t) ≠ some n ∨ bitsOf t = 0 := by
        intro n
        by_cases hb : bitsOf t = 0
        · exact Or.inr hb
        · exact Or.inl (fun hn => hlit ⟨n, hn, hb⟩)
      rw [typed_policy_pg s t binary d64 reveal wire x ht hx hr hne hv hnl] at h
      cases hp : s.policy with
      | error => simp [hp] at h
      | ciphertext =>
        simp only [hp] at h
        cases h
        exact Or.inr ⟨rfl, Or.inl rfl, rfl⟩
      | defaultValue =>
        simp only [hp] at h
        cases hd : defaultPlain s d64 with
        | some d =>
          simp only [hd] at h
          cases hw : pgSpecEncode t binary d with
          | none => simp [hw] at h
          | some w =>
            simp only [hw] at h
            cases h
            exact Or.inl (pgSpecEncode_decodes t binary d _ hw)
        | none =>
          simp only [hd] at h
          cases h
          refine Or.inr ⟨rfl, Or.inr ⟨rfl, ?_⟩, rfl⟩
          unfold defaultPlain at hd
          unfold validDefault at hv
          cases hsd : s.default with
          | none => rfl
          | some d0 =>
            cases t <;> simp_all

/-- **describe_matches_data (PostgreSQL).** For a type-aware column the row description announces the
declared type's OID, and – by `never_wrong_type_pg` – the delivered value decodes under exactly that type,
the only exception being the stored value handed over under the `ciphertext` policy. (PostgreSQL has no
roll-back of the description: under that policy the column is still announced as the declared type.) -/
theorem describe_matches_data_pg (s : Setting) (t : DataType) (dbOid : Nat) (ht : s.dataType = some t) :
    pgDescribe s true dbOid = pgOid t ∧
    (pgOid .int32 = 23 ∧ pgOid .int64 = 20 ∧ pgOid .str = 25 ∧ pgOid .bytes = 17) := by
  simp [pgDescribe, ht, pgOid]

/-! ## MySQL read path -/

theorem myDecode_blobLike (binary : Bool) (c o : Nat) (wire : Bytes) (ho : blobLike o) :
    myDecode binary c o wire = wire := by
  obtain ⟨h0, h1, h2, h3, _, _, _, h8, h9, h13⟩ := ho
  unfold myDecode
  cases binary <;> simp [h0, Generated.Typed.myTypeTiny, Generated.Typed.myTypeShort, Generated.Typed.myTypeYear,
    Generated.Typed.myTypeInt24, Generated.Typed.myTypeLong, Generated.Typed.myTypeLongLong, h1, h2, h3, h8, h9, h13]

theorem myEncodeBinaryAs_blobLike (o : Nat) (data : Bytes) (ho : blobLike o) :
    myEncodeBinaryAs o data = .value (lenenc data) false := by
  obtain ⟨_, h1, h2, h3, _, _, h6, h8, h9, h13⟩ := ho
  unfold myEncodeBinaryAs
  simp [Generated.Typed.myTypeNull, Generated.Typed.myTypeTiny, Generated.Typed.myTypeShort, Generated.Typed.myTypeYear,
    Generated.Typed.myTypeInt24, Generated.Typed.myTypeLong, Generated.Typed.myTypeLongLong, h1, h2, h3, h6, h8, h9, h13]

/-- **typed_owner (MySQL).** A revealed, non-empty plaintext that is a value of the declared type is
delivered as the specification encoding of that type (little-endian integers in the binary protocol,
length-encoded text otherwise) and the column keeps the declared type (no roll-back). -/
theorem typed_owner_my (s : Setting) (t : DataType) (binary : Bool) (o : Nat) (d64 : Default64)
    (reveal : Bytes → Option Bytes) (wire m w : Bytes)
    (ht : s.dataType = some t) (ho : blobLike o) (hr : reveal wire = some m)
    (hm : m ≠ []) (hw : mySpecEncode t binary m = some w) :
    myTypedRead s binary (myTypeCode t) o d64 reveal wire = .value w false := by
  unfold myTypedRead
  simp only [myDecode_blobLike binary _ o wire ho, hr]
  have hme : m.isEmpty = false := by cases m <;> simp_all
  unfold myEncode myTypeEncode
  simp only [hme, Bool.false_eq_true, if_false, ht]
  cases t <;> simp only [mySpecEncode, bitsOf] at hw ⊢
  · cases hp : parseInt m 32 <;> simp_all
  · cases hp : parseInt m 64 <;> simp_all
  · simp_all
  · simp_all

/-- **typed_policy (MySQL).** When the value is not revealed (stored data non-empty and, for integer
columns, not a decimal literal): `error` → encoding error for the statement; `default_value` with a valid
default → the default encoded as the declared type, column described as the declared type; `ciphertext`
(or no default configured) → the stored value, length-encoded, with the column description rolled back to
the type the database announced. -/
theorem typed_policy_my (s : Setting) (t : DataType) (binary : Bool) (o : Nat) (d64 : Default64)
    (reveal : Bytes → Option Bytes) (wire : Bytes)
    (ht : s.dataType = some t) (ho : blobLike o) (hr : reveal wire = none)
    (hne : wire ≠ []) (hv : validDefault s d64)
    (hnl : ∀ n, parseInt wire (bitsOf t) ≠ some n ∨ bitsOf t = 0) :
    myTypedRead s binary (myTypeCode t) o d64 reveal wire =
      match s.policy, defaultPlain s d64 with
      | .error, _ => .encodingError
      | .defaultValue, some d =>
        (match mySpecEncode t binary d with
         | some w => .value w false
         | none => .otherError)
      | _, _ => .value (lenenc wire) true := by
  unfold myTypedRead
  simp only [myDecode_blobLike binary _ o wire ho, hr]
  have hxe : wire.isEmpty = false := by cases wire <;> simp_all
  have hO := myEncodeBinaryAs_blobLike o wire ho
  unfold myEncode myTypeEncode myEncodeOnFail defaultPlain validDefault at *
  simp only [hxe, Bool.false_eq_true, if_false, ht, hO]
  cases t <;> cases hp : s.policy <;> cases hd : s.default <;> cases binary <;>
    simp_all [bitsOf, mySpecEncode] <;>
    (try (cases hpi : parseInt wire 32 <;> simp_all)) <;>
    (try (cases hpi : parseInt wire 64 <;> simp_all)) <;>
    (try (cases h6 : d64.decoded <;> simp_all))
  all_goals (rename_i d; first | (cases hq : parseInt d 32 <;> simp_all) | (cases hq : parseInt d 64 <;> simp_all))

/-- the MySQL specification encoding of a value decodes under the declared type's column code -/
theorem mySpecEncode_decodes (t : DataType) (binary : Bool) (m w : Bytes)
    (h : mySpecEncode t binary m = some w) : myDecodesAs (myTypeCode t) binary w := by
  cases t <;> simp only [mySpecEncode, myDecodesAs, myTypeCode, Generated.Typed.myTypeLong, Generated.Typed.myTypeLongLong,
    Generated.Typed.myTypeString, Generated.Typed.myTypeBlob] at h ⊢
  · cases hp : parseInt m 32 <;> simp [hp] at h
    cases binary <;> simp_all
    · exact ⟨m, h.symm, by simp [hp]⟩
    · rw [← h]; exact intToLE_length 4 _
  · cases hp : parseInt m 64 <;> simp [hp] at h
    cases binary <;> simp_all
    · exact ⟨m, h.symm, by simp [hp]⟩
    · rw [← h]; exact intToLE_length 8 _
  · simp at h ⊢; exact ⟨m, h.symm⟩
  · simp at h ⊢; exact ⟨m, h.symm⟩

/-- a stored decimal literal of the declared width in an integer column is delivered as that integer -/
theorem unrevealed_literal_my (s : Setting) (t : DataType) (binary : Bool) (o : Nat) (d64 : Default64)
    (reveal : Bytes → Option Bytes) (wire : Bytes) (n : Int)
    (ht : s.dataType = some t) (ho : blobLike o) (hr : reveal wire = none)
    (hb : bitsOf t ≠ 0) (hn : parseInt wire (bitsOf t) = some n) :
    myTypedRead s binary (myTypeCode t) o d64 reveal wire =
      .value (if binary then intToLE (bitsOf t / 8) n else lenenc wire) false := by
  unfold myTypedRead
  simp only [myDecode_blobLike binary _ o wire ho, hr]
  have hxe : wire.isEmpty = false := by
    cases wire with
    | nil => cases t <;> simp [parseInt, bitsOf] at hn hb
    | cons _ _ => rfl
  unfold myEncode myTypeEncode
  simp only [hxe, Bool.false_eq_true, if_false, ht]
  cases t <;> simp_all [bitsOf]

/-- **describe_matches_data / never_wrong_type (MySQL).** For a valid setting, a column stored as a
blob-like type and a plaintext that is a value of the declared type: whatever value is delivered decodes
under the type the column definition finally announces – the declared type when the value was revealed,
replaced by the default or is itself a literal of that type, and the database's own type after the
roll-back when the stored value is handed over. So the description and the data always agree, and a value
is never delivered under the wrong type. -/
theorem describe_matches_data_my (s : Setting) (t : DataType) (binary : Bool) (o : Nat) (d64 : Default64)
    (reveal : Bytes → Option Bytes) (wire out : Bytes) (rb : Bool)
    (ht : s.dataType = some t) (ho : blobLike o) (hne : wire ≠ []) (hv : validDefault s d64)
    (hrep : ∀ m, reveal wire = some m → m ≠ [] ∧ (mySpecEncode t binary m).isSome)
    (h : myTypedRead s binary (myTypeCode t) o d64 reveal wire = .value out rb) :
    myDecodesAs (myDescribe s o rb) binary out ∧
    (rb = true → reveal wire = none ∧ out = lenenc wire ∧
      (s.policy = .ciphertext ∨ (s.policy = .defaultValue ∧ s.default = none))) := by
  have hblob : ∀ v : Bytes, myDecodesAs o binary (lenenc v) := by
    intro v
    obtain ⟨_, _, _, h3, _, _, _, h8, _, _⟩ := ho
    simp only [myDecodesAs, Generated.Typed.myTypeLong, Generated.Typed.myTypeLongLong, h3, h8, if_false]
    exact ⟨v, rfl⟩
  have hdesc : ∀ b, myDescribe s o b = if b then o else myTypeCode t := by
    intro b; cases b <;> simp [myDescribe, ht]
  cases hr : reveal wire with
  | some m =>
    obtain ⟨hm, hs⟩ := hrep m hr
    obtain ⟨w, hw⟩ := Option.isSome_iff_exists.mp hs
    rw [typed_owner_my s t binary o d64 reveal wire m w ht ho hr hm hw] at h
    cases h
    refine ⟨?_, by simp⟩
    rw [hdesc]; exact mySpecEncode_decodes t binary m _ hw
  | none =>
    by_cases hlit : ∃ n, parseInt wire (bitsOf t) = some n ∧ bitsOf t ≠ 0
    · obtain ⟨n, hn, hb⟩ := hlit
      rw [unrevealed_literal_my s t binary o d64 reveal wire n ht ho hr hb hn] at h
      cases h
      refine ⟨?_, by simp⟩
      rw [hdesc]
      have : mySpecEncode t binary wire = some (if binary then intToLE (bitsOf t / 8) n else lenenc wire) := by
        cases t <;> simp_all [mySpecEncode, bitsOf]
      exact mySpecEncode_decodes t binary wire _ this
    · have hnl : ∀ n, parseInt wire (bitsOf t) ≠ some n ∨ bitsOf t = 0 := by
        intro n
        by_cases hb : bitsOf t = 0
        · exact Or.inr hb
        · exact Or.inl (fun hn => hlit ⟨n, hn, hb⟩)
      rw [typed_policy_my s t binary o d64 reveal wire ht ho hr hne hv hnl] at h
      cases hp : s.policy with
      | error => simp [hp] at h
      | ciphertext =>
        simp only [hp] at h
        cases h
        refine ⟨?_, fun _ => ⟨rfl, rfl, Or.inl rfl⟩⟩
        rw [hdesc]; exact hblob wire
      | defaultValue =>
        simp only [hp] at h
        cases hd : defaultPlain s d64 with
        | some d =>
          simp only [hd] at h
          cases hw : mySpecEncode t binary d with
          | none => simp [hw] at h
          | some w =>
            simp only [hw] at h
            cases h
            refine ⟨?_, by simp⟩
            rw [hdesc]; exact mySpecEncode_decodes t binary d _ hw
        | none =>
          simp only [hd] at h
          cases h
          refine ⟨by rw [hdesc]; exact hblob wire, fun _ => ⟨rfl, rfl, Or.inr ⟨rfl, ?_⟩⟩⟩
          unfold defaultPlain at hd
          unfold validDefault at hv
          cases hsd : s.default with
          | none => rfl
          | some d0 =>
            cases t <;> simp_all

/-! ## every kind of column setting (plain, searchable, masked, tokenized) -/

/-- The predicate that decides whether the PostgreSQL proxy rewrites a column's description, as it is in the source:
`HasTypeAwareSupport` is `OnlyEncryption() || IsSearchable() || maskingSupport`, `maskingSupport` asks for a masking
pattern and a data type id, `OnlyEncryption` tests the masking, tokenization and search bits, and exactly the three
description handlers of the proxy consult it. Also the disjuncts of `IsBinaryDataOperation`, the data types masking may
be combined with and the token type → data type map the model of `Init` interprets. -/
theorem fact_type_aware_predicate :
    Generated.Typed.typeAwareDisjuncts = ["OnlyEncryption", "IsSearchable", "maskingSupport"] ∧
    Generated.Typed.maskingSupportRequires = ["GetMaskingPattern != \"\"", "not GetDBDataTypeID == 0"] ∧
    Generated.Typed.onlyEncryptionMask =
      (Generated.Typed.settingMaskingFlag ||| Generated.Typed.settingTokenizationFlag ||| Generated.Typed.settingSearchFlag) ∧
    Generated.Typed.typeAwareCallSites = ["handleParameterDescription", "handleRowDescription", "replaceOIDsInParsePackets"] ∧
    Generated.Typed.binaryOpDisjuncts = ["GetTokenType == TokenType_Bytes", "OnlyEncryption", "IsSearchable", "len GetMaskingPattern != 0"] ∧
    Generated.Typed.maskingDataTypes = ["EncryptedType_String", "EncryptedType_Bytes", "EncryptedType_Unknown"] ∧
    Generated.Typed.tokenTypeDataTypes = [("TokenType_Int32", "EncryptedType_Int32"), ("TokenType_Int64", "EncryptedType_Int64"),
      ("TokenType_String", "EncryptedType_String"), ("TokenType_Email", "EncryptedType_String"), ("TokenType_Bytes", "EncryptedType_Bytes")] := by
  decide

/-- The option flags are distinct bits and the table of accepted combinations has the 44 entries the model of `Init`
was validated against. -/
theorem fact_setting_flags :
    Generated.Typed.settingFlags.map (·.2) = (List.range 15).map (2 ^ ·) ∧
    Generated.Typed.validSettingMasks.length = 44 := by decide

/-- **Which kinds of settings `Init` accepts, and with which type options.** The configuration of a column is accepted
exactly when the closed form `Shape.acceptsSpec` holds: a default needs a data type, the policy `default_value` and a
text the type's encoder accepts; an encryption-only column with a data type must be re-encrypted to AcraBlocks and one
without cannot have `response_on_fail`; a searchable column may declare a type with any policy (a default only with
`response_on_fail` written out); a masked column may declare `str` or `bytes` (never an integer type), only as AcraBlock and
with neither `response_on_fail` nor a default; a tokenized column has the type of its token and nothing else. -/
theorem init_accepts (r : RawColumn) : (initColumn r).isSome = r.shape.acceptsSpec r.raw.defaultOk := by
  rw [← accepts_eq_spec]
  unfold initColumn
  cases r.shape.accepts r.raw.defaultOk <;> simp

/-- **Which accepted settings are type aware** (as the source's predicate, interpreted over the regenerated disjuncts,
decides): encryption-only and searchable columns always, masked columns when they declare a data type, tokenized columns
never (their tokens are stored under the declared type itself, which the database announces). -/
theorem type_aware_kinds (r : RawColumn) (c : Column) (h : initColumn r = some c) :
    hasTypeAwareSupport c =
      (c.kind == .plain || c.kind == .searchable || (c.kind == .masked && c.setting.dataType.isSome)) := by
  obtain ⟨_, hk, hm, _, _, _⟩ := initColumn_some r c h
  obtain ⟨h1, h2, h3⟩ := mask_bits r.shape
  rw [hasTypeAwareSupport_eq]
  simp only [Column.onlyEncryption, Column.isSearchable, Column.hasMaskingPattern, Column.hasDBTypeID, hm, h1, h2, h3, hk]
  rfl

/-- A masked or tokenized column never has a failure policy other than `ciphertext` and never a default; a masked
column never declares an integer type. (So for these kinds a reader gets the typed value or the stored value, nothing else.) -/
theorem masked_tokenized_policy (r : RawColumn) (c : Column) (h : initColumn r = some c)
    (hk : c.kind = .masked ∨ c.kind = .tokenized) :
    c.setting.policy = .ciphertext ∧ c.setting.default = none ∧
    (c.kind = .masked → c.setting.dataType ≠ some .int32 ∧ c.setting.dataType ≠ some .int64) := by
  obtain ⟨ha, hk', _, ht, hp, hd⟩ := initColumn_some r c h
  rw [accepts_eq_spec] at ha
  have hks : r.shape.kind = c.kind := hk'.symm
  obtain ⟨ho, hdf, hty⟩ := acceptsSpec_masked_tokenized r.shape _ ha (by rw [hks]; exact hk)
  have hdn : r.raw.default = none := by
    have : r.raw.default.isSome = false := hdf
    cases hdv : r.raw.default <;> simp_all
  refine ⟨?_, by rw [hd, hdn], fun hm => ?_⟩
  · rw [hp]; unfold Shape.policy; rw [ho, hdf]; rfl
  · rw [ht]; exact hty (by rw [hks]; exact hm)

/-- **Only valid settings are accepted, whatever the kind**: the default of an accepted column is usable under the
declared type. -/
theorem initColumn_valid (r : RawColumn) (c : Column) (h : initColumn r = some c) :
    validDefault c.setting ⟨r.raw.defaultB64⟩ := by
  obtain ⟨ha, _, _, ht, _, hd⟩ := initColumn_some r c h
  rw [accepts_defaultOk] at ha
  have hdf : r.shape.hasDefault = r.raw.default.isSome := rfl
  unfold validDefault
  rw [hd, ht]
  cases hdv : r.raw.default with
  | none => trivial
  | some d =>
    simp only [Bool.and_eq_true, hdf, hdv, Option.isSome_some, Bool.not_true, Bool.false_or] at ha
    have hok := ha.2
    unfold RawSetting.defaultOk at hok
    rw [hdv] at hok
    cases hty : r.raw.dataType with
    | none => simp [hty] at hok
    | some t => cases t <;> simp_all

/-- For an encryption-only column in the default envelope the model of `Init` for all kinds is the model the read-path
theorems were stated with (`initSetting`). -/
theorem initColumn_plain (raw : RawSetting) (ta : Bool) :
    (initColumn ⟨raw, .plain, false, ta, false, true⟩).map (·.setting) = initSetting raw := by
  have hsp := accepts_eq_spec (RawColumn.shape ⟨raw, .plain, false, ta, false, true⟩) raw.defaultOk
  have hb : ∀ (s : Setting) (sh : Shape), sh.kind = Kind.plain → isBinaryDataOperation ⟨s, .plain, sh.mask⟩ = true :=
    fun s sh hk => isBinaryDataOperation_of_kind s .plain sh (by simp [hk])
  unfold initColumn
  simp only [hsp]
  unfold initSetting RawSetting.defaultOk Shape.acceptsSpec RawColumn.shape Shape.policy
  obtain ⟨t, o, d, u, b64⟩ := raw
  rcases t with _ | (_ | _ | _ | _) <;> rcases o with _ | (_ | _ | _) <;> cases d <;> simp [hb]

/-- **describe_matches_data for every kind (PostgreSQL).** For an accepted column that declares type `t`:
* encryption-only, searchable and masked columns (stored as bytea): the RowDescription and the ParameterDescription
  announce `t`'s OID whatever the database said, the parameter type in `Parse` is replaced by bytea – and every value
  delivered for the column decodes as `t` in the requested format, the only exception being the stored value handed
  over under the `ciphertext` policy (`never_wrong_type_pg`);
* tokenized columns: all three descriptions are left as the database / the client sent them. -/
theorem describe_matches_data_pg_kinds (r : RawColumn) (c : Column) (t : DataType) (dbOid clientOid : Nat)
    (h : initColumn r = some c) (ht : c.setting.dataType = some t) :
    (c.kind ≠ .tokenized →
      pgRowOid c dbOid = pgOid t ∧ pgParamOid c dbOid = pgOid t ∧ pgParseOid c clientOid = byteaOid ∧
      ∀ (binary : Bool) (reveal : Bytes → Option Bytes) (wire x out : Bytes) (rb : Bool),
        pgDecode c.setting binary wire = some x → x ≠ [] →
        (∀ m, reveal x = some m → m ≠ [] ∧ (pgSpecEncode t binary m).isSome) →
        pgTypedRead c.setting binary ⟨r.raw.defaultB64⟩ reveal wire = .value out rb →
        pgDecodesAs t binary out ∨
          (reveal x = none ∧ (c.setting.policy = .ciphertext ∨ (c.setting.policy = .defaultValue ∧ c.setting.default = none)) ∧
            out = pgCipherForm t binary x)) ∧
    (c.kind = .tokenized →
      pgRowOid c dbOid = dbOid ∧ pgParamOid c dbOid = dbOid ∧ pgParseOid c clientOid = clientOid) := by
  have hta := type_aware_kinds r c h
  constructor
  · intro hk
    have : hasTypeAwareSupport c = true := by
      rw [hta]
      cases hkk : c.kind <;> simp_all
    refine ⟨?_, ?_, ?_, ?_⟩
    · simp [pgRowOid, pgDescribe, ht, this]
    · simp [pgParamOid, pgDescribe, ht, this]
    · simp [pgParseOid, this]
    · intro binary reveal wire x out rb hx hne hrep hread
      exact never_wrong_type_pg c.setting t binary ⟨r.raw.defaultB64⟩ reveal wire x out rb ht hx hne
        (initColumn_valid r c h) hrep hread
  · intro hk
    have : hasTypeAwareSupport c = false := by rw [hta]; simp [hk]
    simp [pgRowOid, pgParamOid, pgParseOid, pgDescribe, ht, this]

/-- **describe_matches_data for every kind (MySQL).** The column definition of an accepted column of any kind that
declares type `t` announces `t`'s type code (the rewrite does not ask whether the setting is type aware) unless the row
processor rolled it back, and whatever value is delivered decodes under the type finally announced
(`describe_matches_data_my` for the column's setting). -/
theorem describe_matches_data_my_kinds (r : RawColumn) (c : Column) (t : DataType) (binary : Bool) (o : Nat)
    (reveal : Bytes → Option Bytes) (wire out : Bytes) (rb : Bool)
    (h : initColumn r = some c) (ht : c.setting.dataType = some t) (ho : blobLike o) (hne : wire ≠ [])
    (hrep : ∀ m, reveal wire = some m → m ≠ [] ∧ (mySpecEncode t binary m).isSome)
    (hread : myTypedRead c.setting binary (myTypeCode t) o ⟨r.raw.defaultB64⟩ reveal wire = .value out rb) :
    myColumnType c o false = myTypeCode t ∧ myColumnType c o true = o ∧
    myDecodesAs (myColumnType c o rb) binary out ∧
    (rb = true → reveal wire = none ∧ out = lenenc wire ∧
      (c.setting.policy = .ciphertext ∨ (c.setting.policy = .defaultValue ∧ c.setting.default = none))) := by
  refine ⟨by simp [myColumnType, myDescribe, ht], by simp [myColumnType, myDescribe, ht], ?_⟩
  exact describe_matches_data_my c.setting t binary o ⟨r.raw.defaultB64⟩ reveal wire out rb ht ho hne
    (initColumn_valid r c h) hrep hread

/-! ## configuration validation -/

/-- **Only valid settings are accepted.** Whatever `Init` accepts has a default that is usable under the
declared type (integers parse within the declared width, bytes are valid base64), a default only together
with the `default_value` policy and a declared type, and no failure policy without a declared type. -/
theorem initSetting_valid (raw : RawSetting) (s : Setting) (h : initSetting raw = some s) :
    validDefault s ⟨raw.defaultB64⟩ ∧
    (s.default.isSome → s.policy = .defaultValue ∧ s.dataType.isSome) ∧
    (s.dataType = none → raw.onFail = none) := by
  unfold initSetting at h
  unfold validDefault
  cases hdt : raw.dataType with
  | none =>
    cases hof : raw.onFail <;> cases hd : raw.default <;> simp_all
    subst h; simp
  | some t =>
    cases hd : raw.default with
    | none =>
      simp [hdt, hd] at h
      subst h; simp
    | some d =>
      simp only [hdt, hd, Option.isNone_some, Bool.false_eq_true, false_and, if_false] at h
      generalize hpol : (match raw.onFail with | some p => p | none => if (some d).isSome = true then Policy.defaultValue else Policy.ciphertext) = pol at h
      by_cases hp : pol = Policy.defaultValue
      · subst hp
        simp only [ne_eq] at h
        cases t <;> simp only at h
        · by_cases hok : (parseInt d 32).isSome = true <;> simp [hok] at h; obtain ⟨hpe, rfl⟩ := h; simp [hok, hpe]
        · by_cases hok : (parseInt d 64).isSome = true <;> simp [hok] at h; obtain ⟨hpe, rfl⟩ := h; simp [hok, hpe]
        · by_cases hok : raw.defaultUtf8 = true <;> simp [hok] at h; obtain ⟨hpe, rfl⟩ := h; simp [hpe]
        · by_cases hok : raw.defaultB64.isSome = true <;> simp [hok] at h; obtain ⟨hpe, rfl⟩ := h; simp [hok, hpe]
      · simp at h
        simp at hpol
        exact absurd (hpol.symm.trans h.1) hp

/-! ## whole rows: the column loops of the two proxies -/

/-- Facts from the regenerated sources the row models rely on.
* PostgreSQL `handleQueryDataPacket`: the result format of column `i` is `GetParameterFormatByIndex(i, bindPacket.resultFormats)`
  – PostgreSQL's rule applied to the DECLARED codes of the Bind packet, for every `i`, under no other condition than
  "there is a Bind packet"; its error ends the row; it is compared with `dataFormatBinary` = `int(base.BinaryFormat)`; the
  default is text; the loop passes its own `ctx` to every `onColumnDecryption`, which drops the context the subscribers return.
* MySQL `processTextDataRow` / `processBinaryDataRow`: `onColumnDecryption` is called with the row's `ctx`, the context
  it returns is bound to a variable declared inside the loop body (never to `ctx`, and `ctx` is not assigned in the
  loop), and the roll-back test reads that per-column variable. -/
theorem fact_row_loops :
    Generated.Typed.pgRowFormatExpr = "GetParameterFormatByIndex(i, bindPacket.resultFormats)" ∧
    Generated.Typed.pgRowFormatConds = ["bindPacket != nil"] ∧
    Generated.Typed.pgRowFormatOp = 0 ∧ Generated.Typed.pgRowFormatSlice = 0 ∧
    Generated.Typed.pgRowFormatIndexGuard = false ∧ Generated.Typed.pgRowFormatErrReturned = true ∧
    Generated.Typed.pgRowBinaryArg = "format == dataFormatBinary" ∧
    Generated.Typed.pgDataFormatBinary = Generated.Typed.baseBinaryFormat ∧
    Generated.Typed.pgRowFormatDefault = Generated.Typed.baseTextFormat ∧
    Generated.Typed.baseTextFormat = Generated.Wire.pgBindFormatText ∧
    Generated.Typed.baseBinaryFormat = Generated.Wire.pgBindFormatBinary ∧
    Generated.Typed.pgRowCtxCarried = false ∧ Generated.Typed.pgOnColumnCtxDropped = true ∧
    Generated.Typed.myTextRowCtxBinding = ("ctx", "decrCtx", "decrCtx") ∧
    Generated.Typed.myBinaryRowCtxBinding = ("ctx", "decrCtx", "decrCtx") ∧
    Generated.Typed.myTextRowCtxFresh = true ∧ Generated.Typed.myBinaryRowCtxFresh = true ∧
    Generated.Typed.myTextRowCtxCarried = false ∧ Generated.Typed.myBinaryRowCtxCarried = false ∧
    Generated.Typed.myTextRowRollbackReadsReturned = true ∧ Generated.Typed.myBinaryRowRollbackReadsReturned = true ∧
    Generated.Typed.myOnColumnReturnsSubscriberCtx = true := by decide

/-- **pg_result_format_rule.** For EVERY list of result-format codes a Bind packet may carry and EVERY column index, the
format in which the proxy decodes and re-encodes column `i` is the format PostgreSQL itself uses for column `i`:
* no codes – text for every column;
* ONE code – that code for every column (not only the first);
* one code per column – the column's own code;
and a column for which PostgreSQL has no code (`n ≥ 2` codes, `i ≥ n`) is an error, never a silent default. A simple
query (no Bind) is text. -/
theorem pg_result_format_rule (rf : List Nat) (hv : ValidCodes rf) (i : Nat) :
    columnFormat (some rf) i = (match pgResultFormat rf i with | some c => .ok (c == 1) | none => .err) ∧
    (rf = [] → columnFormat (some rf) i = .ok false) ∧
    (∀ c, rf = [c] → columnFormat (some rf) i = .ok (c == 1)) ∧
    (2 ≤ rf.length → ∀ c, rf[i]? = some c → columnFormat (some rf) i = .ok (c == 1)) ∧
    columnFormat none i = .ok false := by
  have h := columnFormat_rule rf hv i
  refine ⟨h, ?_, ?_, ?_, columnFormat_simple i⟩
  · intro he; subst he; exact h
  · intro c he; subst he; exact h
  · intro hl c hc
    rw [h]
    match rf, hl with
    | a :: b :: r, _ =>
      simp only [pgResultFormat, hc]

/-- **pg_format_code_rule.** `GetParameterFormatByIndex` itself – used for the result formats of every column and for
the formats of the bound parameters (`BindPacket.GetParameters`) – is PostgreSQL's rule for a list of format codes: no
code → text, one code → that code for every index, otherwise the code at the index; an index without a code is an
error. (For valid codes; an unknown code is an error of the lookup.) -/
theorem pg_format_code_rule (codes : List Nat) (hv : ValidCodes codes) (i : Nat) :
    Wire.Pg.formatByIndex i codes = (match pgResultFormat codes i with | some c => .ok (c == 1) | none => .err) :=
  formatByIndex_rule codes hv i

/-- **row_columns_independent_pg.** In a DataRow the proxy delivers (`pgRow … = .cols outs`), the value at position `i`
is a function of column `i` alone: NULL stays NULL, and a column with a setting is what the single-column read path
`pgTypedRead` makes of ITS setting, ITS stored value and ITS keys (`reveal`) in the format PostgreSQL's rule gives
column `i` – whatever the other columns hold, decrypt or fail to decrypt. So `typed_owner_pg`, `typed_policy_pg`,
`never_wrong_type_pg` and `describe_matches_data_pg` hold for every column of every row, with
`binary := (pgResultFormat rf i == some 1)`: for all three shapes of the code list and every column index. -/
theorem row_columns_independent_pg (rf : Option (List Nat)) (hv : ∀ codes, rf = some codes → ValidCodes codes)
    (cols : List (RowColumn × Option Bytes)) (outs : List (Option (Bytes × Bool)))
    (h : pgRow rf Ctx.fresh cols = .cols outs) :
    outs.length = cols.length ∧
    (∀ (i : Nat) (c : RowColumn), cols[i]? = some (c, none) → outs[i]? = some none) ∧
    (∀ (i : Nat) (c : RowColumn) (wire : Bytes) (s : Setting) (d64 : Default64),
      cols[i]? = some (c, some wire) → c.setting = some (s, d64) →
      ∃ binary b rb,
        (match rf with
         | none => binary = false
         | some codes => ∃ code, pgResultFormat codes i = some code ∧ binary = (code == 1)) ∧
        pgTypedRead s binary d64 c.reveal wire = .value b rb ∧ outs[i]? = some (some (b, rb))) := by
  have hloop : pgRowLoop false rf Ctx.fresh 0 cols = .cols outs := by
    unfold pgRow at h
    have hc : Generated.Typed.pgRowCtxCarried = false := rfl
    rw [hc] at h
    cases rf with
    | none => exact h
    | some codes =>
      simp only [getResultFormats_valid codes (hv codes rfl)] at h
      split at h
      · exact h
      · cases h
  rw [pgRowLoop_uncarried] at hloop
  obtain ⟨h1, h2, h3⟩ := collectRow_cols _ _ hloop
  have hlen : (pgColsFrom rf Ctx.fresh 0 cols).length = cols.length := by
    have : ∀ (i : Nat) (l : List (RowColumn × Option Bytes)), (pgColsFrom rf Ctx.fresh i l).length = l.length := by
      intro i l
      induction l generalizing i with
      | nil => rfl
      | cons x xs ih => obtain ⟨c, v⟩ := x; simp [pgColsFrom, ih]
    exact this 0 cols
  refine ⟨by rw [h1, hlen], ?_, ?_⟩
  · intro i c hi
    apply h2
    rw [pgColsFrom_getElem?, hi]
    rfl
  · intro i c wire s d64 hi hs
    have hg : (pgColsFrom rf Ctx.fresh 0 cols)[i]? = some (some (pgColRes rf Ctx.fresh (0 + i) c wire)) := by
      rw [pgColsFrom_getElem?, hi]
      rfl
    obtain ⟨b, rb, hr, ho⟩ := h3 i _ hg
    rw [Nat.zero_add] at hr
    unfold pgColRes at hr
    cases rf with
    | none =>
      rw [columnFormat_simple] at hr
      simp only at hr
      rw [pgColumnChain_fresh c s d64 false wire hs] at hr
      exact ⟨false, b, rb, rfl, hr, ho⟩
    | some codes =>
      rw [columnFormat_rule codes (hv codes rfl) i] at hr
      cases hp : pgResultFormat codes i with
      | none => rw [hp] at hr; cases hr
      | some code =>
        rw [hp] at hr
        simp only at hr
        rw [pgColumnChain_fresh c s d64 _ wire hs] at hr
        exact ⟨code == 1, b, rb, ⟨code, hp, rfl⟩, hr, ho⟩

/-- **typed_owner_pg_row.** Extended protocol, any valid result-format codes, any column index `i`, any other columns: in
a delivered row the owner's value of a typed column at position `i` is the specification encoding of the plaintext as
the declared type IN THE FORMAT THE CLIENT ASKED FOR COLUMN `i` (`pgResultFormat codes i`: the one code when there is
one, the column's code otherwise, text without codes). -/
theorem typed_owner_pg_row (codes : List Nat) (hv : ValidCodes codes) (cols : List (RowColumn × Option Bytes))
    (outs : List (Option (Bytes × Bool))) (h : pgRow (some codes) Ctx.fresh cols = .cols outs)
    (i : Nat) (c : RowColumn) (s : Setting) (t : DataType) (d64 : Default64) (wire x m w : Bytes) (code : Nat)
    (hi : cols[i]? = some (c, some wire)) (hs : c.setting = some (s, d64)) (ht : s.dataType = some t)
    (hf : pgResultFormat codes i = some code)
    (hx : pgDecode s (code == 1) wire = some x) (hr : c.reveal x = some m) (hm : m ≠ [])
    (hw : pgSpecEncode t (code == 1) m = some w) :
    outs[i]? = some (some (w, false)) := by
  obtain ⟨_, _, h3⟩ := row_columns_independent_pg (some codes) (fun cs hc => by cases hc; exact hv) cols outs h
  obtain ⟨binary, b, rb, ⟨code', hc', hb⟩, hread, ho⟩ := h3 i c wire s d64 hi hs
  rw [hf] at hc'
  cases hc'
  subst hb
  rw [typed_owner_pg s t (code == 1) d64 c.reveal wire x m w ht hx hr hm hw] at hread
  cases hread
  exact ho

/-- **row_columns_independent_my.** For every MySQL result row (text or binary protocol), every mixture of columns the
reader can decrypt, cannot decrypt, or that hold garbage, and every mixture of failure policies: in a delivered row the
value and the roll-back mark at position `i` are what the single-column read path `myTypedRead` makes of column `i`'s OWN
setting, stored value and keys – no mark ("decrypted", "type conversion failed") and no setting of another column is
involved; NULL stays NULL. A row is refused exactly when some column's OWN outcome is an error (policy `error` on a
value that is not revealed, or a failing encoder), every column in front of it being deliverable. So `typed_owner_my`,
`typed_policy_my` and `describe_matches_data_my` hold for every column of every row. -/
theorem row_columns_independent_my (binary : Bool) (cols : List (RowColumn × Option Bytes)) :
    let row := if binary then myBinaryRow Ctx.fresh cols else myTextRow Ctx.fresh cols
    (∀ outs, row = .cols outs →
      outs.length = cols.length ∧
      (∀ (i : Nat) (c : RowColumn), cols[i]? = some (c, none) → outs[i]? = some none) ∧
      (∀ (i : Nat) (c : RowColumn) (wire : Bytes) (s : Setting) (d64 : Default64),
        cols[i]? = some (c, some wire) → c.setting = some (s, d64) →
        ∃ b rb, myTypedRead s binary c.colType c.originType d64 c.reveal wire = .value b rb ∧
          outs[i]? = some (some (b, rb)))) ∧
    ((∀ outs, row ≠ .cols outs) →
      ∃ (i : Nat) (c : RowColumn) (wire : Bytes), cols[i]? = some (c, some wire) ∧
        (row = .encodingError ↔ (myColumnChain Ctx.fresh c binary wire).2 = .encodingError) ∧
        (row = .otherError ↔ (myColumnChain Ctx.fresh c binary wire).2 = .otherError) ∧
        (∀ s d64, c.setting = some (s, d64) →
          (myColumnChain Ctx.fresh c binary wire).2 = myTypedRead s binary c.colType c.originType d64 c.reveal wire)) := by
  intro row
  have hrow : row = collectRow (myColsFrom binary Ctx.fresh cols) := by
    have h1 : Generated.Typed.myTextRowCtxCarried = false := rfl
    have h2 : Generated.Typed.myBinaryRowCtxCarried = false := rfl
    cases binary
    · show myTextRow Ctx.fresh cols = _
      unfold myTextRow; rw [h1, myRowLoop_uncarried]
    · show myBinaryRow Ctx.fresh cols = _
      unfold myBinaryRow; rw [h2, myRowLoop_uncarried]
  have hlen : ∀ l : List (RowColumn × Option Bytes), (myColsFrom binary Ctx.fresh l).length = l.length := by
    intro l
    induction l with
    | nil => rfl
    | cons x xs ih => obtain ⟨c, v⟩ := x; simp [myColsFrom, ih]
  have hlen := hlen cols
  constructor
  · intro outs ho
    rw [hrow] at ho
    obtain ⟨h1, h2, h3⟩ := collectRow_cols _ _ ho
    refine ⟨by rw [h1, hlen], ?_, ?_⟩
    · intro i c hi
      apply h2
      rw [myColsFrom_getElem?, hi]
      rfl
    · intro i c wire s d64 hi hs
      have hg : (myColsFrom binary Ctx.fresh cols)[i]? = some (some (myColumnChain Ctx.fresh c binary wire).2) := by
        rw [myColsFrom_getElem?, hi]
        rfl
      obtain ⟨b, rb, hr, hout⟩ := h3 i _ hg
      rw [myColumnChain_fresh c s d64 binary wire hs] at hr
      exact ⟨b, rb, hr, hout⟩
  · intro hne
    rw [hrow] at hne ⊢
    obtain ⟨i, r, h1, _, h3, h4, _⟩ := collectRow_error _ hne
    rw [myColsFrom_getElem?] at h1
    cases hc : cols[i]? with
    | none => rw [hc] at h1; cases h1
    | some cv =>
      obtain ⟨c, v⟩ := cv
      rw [hc] at h1
      cases v with
      | none => simp at h1
      | some wire =>
        simp only [Option.map_some, Option.some.injEq] at h1
        subst h1
        exact ⟨i, c, wire, hc, h3, h4, fun s d64 hs => myColumnChain_fresh c s d64 binary wire hs⟩

/-- **Counterexample shape (what the carried context would do).** If the returned context were carried to the next
column (`ctx, value, err = handler.onColumnDecryption(ctx, …)`), a column the reader can decrypt followed by one it
cannot, with `response_on_fail: default_value`, would deliver the stored ciphertext of the second column instead of
the default: the loop with `carried = true` differs from the loop the source has. -/
theorem carried_context_counterexample :
    let c1 : RowColumn := ⟨some (⟨some .str, .ciphertext, none, true⟩, ⟨none⟩), fun _ => some [111, 107], 254, 253⟩
    let c2 : RowColumn := ⟨some (⟨some .str, .defaultValue, some [100], true⟩, ⟨none⟩), fun _ => none, 254, 253⟩
    myRowLoop false false Ctx.fresh [(c1, some [37, 37, 37]), (c2, some [37, 37, 38])]
      = .cols [some ([2, 111, 107], false), some ([1, 100], false)] ∧
    myRowLoop true false Ctx.fresh [(c1, some [37, 37, 37]), (c2, some [37, 37, 38])]
      = .cols [some ([2, 111, 107], false), some ([3, 37, 37, 38], false)] := by decide

/-! ## non-vacuity -/

/-- a revealed boundary integer in binary format: the hypotheses of `typed_owner_pg` are satisfiable -/
example : pgTypedRead ⟨some .int32, .error, none, true⟩ true ⟨none⟩
      (fun _ => some [45, 50, 49, 52, 55, 52, 56, 51, 54, 52, 56]) [37, 37, 37, 1, 2]   -- "-2147483648"
    = .value [0x80, 0, 0, 0] false := by decide

/-- an unrevealed envelope-like value under each policy (PostgreSQL, text format, hex form on the wire) -/
example : pgTypedRead ⟨some .int32, .defaultValue, some [55], true⟩ false ⟨none⟩ (fun _ => none)
      [92, 120, 50, 53, 50, 53, 50, 53]                                                  -- \x252525
    = .value [55] false := by decide
example : pgTypedRead ⟨some .str, .error, none, true⟩ false ⟨none⟩ (fun _ => none) [92, 120, 50, 53, 50, 53, 50, 53]
    = .encodingError := by decide

/-- MySQL: the stored value comes back length-encoded with the roll-back mark under policy `ciphertext` -/
example : myTypedRead ⟨some .int64, .ciphertext, none, true⟩ true 8 252 ⟨none⟩ (fun _ => none) [37, 37, 37]
    = .value [3, 37, 37, 37] true := by decide

example : blobLike 252 ∧ blobLike 253 ∧ blobLike 254 := by unfold blobLike; decide

/-- the three shapes of the result-format codes are valid code lists, and PostgreSQL's rule on them: ONE code `1` means
binary for column 2 as well; per-column codes give column 2 its own code; no codes mean text -/
example : ValidCodes [] ∧ ValidCodes [1] ∧ ValidCodes [0, 1, 1] ∧
    pgResultFormat [1] 2 = some 1 ∧ pgResultFormat [0, 1, 0] 2 = some 0 ∧ pgResultFormat [] 2 = some 0 ∧
    pgResultFormat [0, 1] 2 = none := by
  refine ⟨?_, ?_, ?_, rfl, rfl, rfl, rfl⟩ <;> intro c hc <;> simp at hc <;> omega

/-- a delivered PostgreSQL row (hypothesis of `row_columns_independent_pg` / `typed_owner_pg_row`): ONE result-format
code `1`, the typed column at index 1 behind a column that is handed over as stored; the int32 value 305419896 arrives
as the four bytes 12 34 56 78 -/
example : pgRow (some [1]) Ctx.fresh
      [(⟨some (⟨some .str, .ciphertext, none, true⟩, ⟨none⟩), fun _ => none, 0, 0⟩, some [37, 37, 37]),
       (⟨some (⟨some .int32, .error, none, true⟩, ⟨none⟩), fun _ => some [51, 48, 53, 52, 49, 57, 56, 57, 54], 0, 0⟩, some [37, 37, 38])]
    = .cols [some ([37, 37, 37], false), some ([0x12, 0x34, 0x56, 0x78], false)] := by decide +kernel

/-- a delivered MySQL row and a refused one (both branches of `row_columns_independent_my`): a decryptable column in
front of one that is not, with the policies `default_value` and `error` -/
example : myTextRow Ctx.fresh
      [(⟨some (⟨some .str, .ciphertext, none, true⟩, ⟨none⟩), fun _ => some [111, 107], 254, 253⟩, some [37, 37, 37]),
       (⟨some (⟨some .str, .defaultValue, some [100], true⟩, ⟨none⟩), fun _ => none, 254, 253⟩, some [37, 37, 38])]
    = .cols [some ([2, 111, 107], false), some ([1, 100], false)] := by decide
example : myBinaryRow Ctx.fresh
      [(⟨some (⟨some .str, .ciphertext, none, true⟩, ⟨none⟩), fun _ => some [111, 107], 254, 253⟩, some [37, 37, 37]),
       (⟨some (⟨some .int32, .error, none, true⟩, ⟨none⟩), fun _ => none, 3, 253⟩, some [37, 37, 38])]
    = .encodingError := by decide

/-- what the description handlers announce for an accepted column of each kind:
(type aware?, RowDescription and ParameterDescription for a bytea column, Parse for a parameter the client declared with
the type's own OID, MySQL column type for a VAR_STRING column) -/
def describeAll (r : RawColumn) (clientOid : Nat) : Option (Bool × Nat × Nat × Nat × Nat) :=
  (initColumn r).map fun c => (hasTypeAwareSupport c, pgRowOid c 17, pgParamOid c 17, pgParseOid c clientOid, myColumnType c 253 false)

/-- searchable + int32 (written by name, then by database id with `response_on_fail: error`): accepted, type aware, int4 -/
example : describeAll ⟨⟨some .int32, none, none, true, none⟩, .searchable, false, false, false, true⟩ 23 = some (true, 23, 23, 17, 3) := by decide +kernel
example : describeAll ⟨⟨some .int32, some .error, none, true, none⟩, .searchable, true, false, true, true⟩ 23 = some (true, 23, 23, 17, 3) := by decide +kernel
/-- masked + str: accepted, type aware, text; masked + int32: rejected; masked + str + `response_on_fail`: rejected -/
example : describeAll ⟨⟨some .str, none, none, true, none⟩, .masked, false, false, false, true⟩ 25 = some (true, 25, 25, 17, 254) := by decide +kernel
example : describeAll ⟨⟨some .int32, none, none, true, none⟩, .masked, false, false, false, true⟩ 23 = none := by decide +kernel
example : describeAll ⟨⟨some .str, some .error, none, true, none⟩, .masked, false, false, false, true⟩ 25 = none := by decide +kernel
/-- masked without a data type: accepted, not type aware, the database's description stands -/
example : describeAll ⟨⟨none, none, none, true, none⟩, .masked, false, false, false, true⟩ 25 = some (false, 17, 17, 25, 253) := by decide +kernel
/-- tokenized int64: accepted, not type aware (PostgreSQL leaves the description alone), MySQL announces LONGLONG;
a data type of its own is rejected -/
example : describeAll ⟨⟨some .int64, none, none, true, none⟩, .tokenized, false, false, false, true⟩ 20 = some (false, 17, 17, 20, 8) := by decide +kernel
example : describeAll ⟨⟨some .int64, none, none, true, none⟩, .tokenized, false, true, false, true⟩ 20 = none := by decide +kernel
/-- searchable + default without `response_on_fail` is rejected, with it accepted (an encryption-only column accepts both) -/
example : describeAll ⟨⟨some .int32, none, some [55], true, none⟩, .searchable, false, false, false, true⟩ 23 = none := by decide +kernel
example : (describeAll ⟨⟨some .int32, some .defaultValue, some [55], true, none⟩, .searchable, false, false, false, true⟩ 23).isSome = true := by decide +kernel
example : (describeAll ⟨⟨some .int32, none, some [55], true, none⟩, .plain, false, false, false, true⟩ 23).isSome = true := by decide +kernel

end AcraModel.Props.C19
