import AcraModel.Sql.LiteralLemmas
import AcraModel.Sql.Ident
/-!
# C13 — re-serialised statements mean the same as the statements received

Property theorems only. Part 1: the literal codec – what `SQLVal.Format` prints for a string value is
read back by the tokenizer as the same bytes, for every byte string, whatever follows the literal.
(The escape table and the `\x` prefix rule are regenerated from `sqltypes/value.go`.)
-/
namespace AcraModel.Props.C13
open AcraModel AcraModel.Sql.Literal Generated.SqlLiterals

/-! ## facts about the regenerated tables -/

/-- the escape table of `sqltypes`: NUL, BS, TAB, LF, CR, ctrl-Z, `"`, `'`, `\` -/
theorem fact_encodeRef :
    encodeRef = [(0, 48), (8, 98), (9, 116), (10, 110), (13, 114), (26, 90), (34, 34), (39, 39), (92, 92)] := by decide

/-- the table is a bijection onto letters that are not `x`/`X`, both quote characters and the backslash
are escaped, and the unescaped prefix is `\x` – what the round trip needs -/
theorem codecFacts : CodecFacts where
  inverse := by decide
  specials := by decide
  prefix_eq := by decide

/-! ## property theorems -/

/-- **String literals round-trip, for all byte strings.** The text printed for a `StrVal` with value `b`
(`'…'` with backslash escapes; a value starting with `\x` keeps that prefix) is scanned by the tokenizer
back to exactly `b`, consuming exactly the literal, whatever follows it (anything but another quote,
which no printer output puts there). -/
theorem literal_roundtrip (b rest : Bytes) (h : rest.head? ≠ some quote) :
    scanString quote true ((encodeBytesSQL b).tail ++ rest) = some (b, rest) := by
  have F := codecFacts
  unfold encodeBytesSQL
  simp only [List.cons_append, List.tail_cons, List.append_assoc, List.singleton_append]
  unfold encodeBody
  rw [F.prefix_eq]
  by_cases hp : ([backslash, 120].isPrefixOf b && decide (b.length ≥ [backslash, 120].length)) = true
  · simp only [hp, if_true]
    match b, hp with
    | c :: d :: cs, hp =>
      simp only [List.isPrefixOf, Bool.and_true, Bool.and_eq_true, beq_iff_eq] at hp
      obtain ⟨⟨hc, hd⟩, _⟩ := hp
      subst hc; subst hd
      simp only [List.length_cons, List.length_nil, List.drop_succ_cons, List.drop_zero, List.cons_append, List.nil_append]
      rw [scan_escape]
      simp only [show isX 120 = true by decide, Bool.and_self, if_true]
      rw [scan_escape_body F quote (Or.inl rfl) cs false rest h]; rfl
    | [], hp => simp [List.isPrefixOf] at hp
    | [_], hp => simp [List.isPrefixOf] at hp
  · simp only [hp, Bool.false_eq_true, if_false]
    exact scan_escape_body F quote (Or.inl rfl) b true rest h

/-- **PostgreSQL escape strings round-trip**: `E'` + escaped value + `'` is scanned back to the value. -/
theorem escape_string_roundtrip (b rest : Bytes) (h : rest.head? ≠ some quote) (f : Bool) :
    scanString quote f ((encodeEscapeString b).tail ++ rest) = some (b, rest) := by
  unfold encodeEscapeString
  simp only [List.cons_append, List.tail_cons, List.append_assoc, List.singleton_append]
  exact scan_escape_body codecFacts quote (Or.inl rfl) b f rest h

open AcraModel.Sql.Ident in
/-- **Quoted identifiers round-trip.** Any non-empty name, printed in quotes with its quote characters doubled
(`formatIDForDialect` for names that need escaping, `writeQuotedID` for names written in quotes), is read back by
`scanLiteralIdentifier` as exactly that name, consuming exactly the quoted text (dialects with one identifier quote
character: MySQL default mode and PostgreSQL). -/
theorem ident_roundtrip (q : UInt8) (name rest : Bytes) (hne : name ≠ []) (h : rest.head? ≠ some q) :
    scanQuotedIdent q ((quoteIdent q name).tail ++ rest) = some (name, rest) := by
  unfold quoteIdent scanQuotedIdent
  simp only [List.cons_append, List.tail_cons, List.append_assoc, List.nil_append]
  rw [scanBody_quoted q name rest h]
  cases name with
  | nil => exact absurd rfl hne
  | cons c cs => simp

/-- non-vacuity: a value with every special byte, starting with the `\x` prefix -/
example : scanString quote true ((encodeBytesSQL [92, 120, 0, 39, 34, 92, 10, 255, 120]).tail ++ [32, 97]) =
    some ([92, 120, 0, 39, 34, 92, 10, 255, 120], [32, 97]) := literal_roundtrip _ _ (by decide)

open AcraModel.Sql.Ident in
/-- non-vacuity: the name a"b"" in PostgreSQL quotes, followed by a dot -/
example : scanQuotedIdent 34 ((quoteIdent 34 [97, 34, 98, 34, 34]).tail ++ [46, 120]) = some ([97, 34, 98, 34, 34], [46, 120]) :=
  ident_roundtrip _ _ _ (by decide) (by decide)

end AcraModel.Props.C13
