import AcraModel.Sql.LiteralLemmas
import AcraModel.Sql.Ident
import AcraModel.Sql.ExprRoundTrip
import AcraModel.Sql.ExprSound
import AcraModel.Sql.ExprSubst
import AcraModel.Sql.ExprConverse
import AcraModel.Sql.Forms
import AcraModel.Sql.Grammar
import AcraModel.Sql.ExprTokens
import AcraModel.Sql.SelectRoundTrip
import AcraModel.Sql.SelectTokens
/-!
# C13 — re-serialised statements mean the same as the statements received

Property theorems only. Part 1: the literal codec – what `SQLVal.Format` prints for a string value is
read back by the tokenizer as the same bytes, for every byte string, whatever follows the literal.
(The escape table and the `\x` prefix rule are regenerated from `sqltypes/value.go`.)
Part 2: the expression fragment (`Sql/Expr.lean`) – the printer `format` (no parentheses of its own, only `ParenExpr`
nodes print them) and the precedence-climbing parser `parseExpr` over the regenerated `%left/%right` table of `sql.y`:
every tree in the image of the parser (`Producible`) is read back from its printed form, also after any substitution of
`SQLVal` leaves; a tree that is not producible (an operand of too low a level without its `ParenExpr`) is not.
Part 3: statement forms (`Sql/Forms.lean`) – for every statement node the print paths of its `Format` method and the
grammar alternatives that build it are regenerated from `ast.go` / `ast_methods.go` / `sql.y`; on every print path every
field the grammar can fill on that path is printed (`fact_format_prints_all_fields`, `format_keeps_clauses`).
Part 4: what the grammar actions keep (`Sql/Grammar.lean`) – for every alternative of `sql.y` reachable from the DML
statements the positions whose value flows into `$$` are regenerated; every symbol with a semantic value is used
(`grammar_uses_every_operand`), hence no derivation loses a lexeme it reads (`derivation_keeps_lexemes`); the generated
parser `sql.go` is in step with `sql.y` (`fact_generated_parser_matches_grammar`). For the expression fragment the
token conservation is proved on the parser itself (`parse_keeps_lexemes`).
Part 5: the SELECT core (`Sql/Select.lean`) – select list with aliases and `*`, FROM with join chains, WHERE, GROUP BY,
HAVING, ORDER BY, LIMIT around the expression fragment: `select_roundtrip`.
-/
namespace AcraModel.Props.C13
open AcraModel AcraModel.Sql.Literal Generated.SqlLiterals

/-! ## facts about the regenerated tables -/

/-- the escape table of `sqltypes`: NUL, BS, TAB, LF, CR, ctrl-Z, `"`, `'`, `\` -/
theorem fact_encodeRef :
    encodeRef = [(0, 48), (8, 98), (9, 116), (10, 110), (13, 114), (26, 90), (34, 34), (39, 39), (92, 92)] := by decide

/-- the table is a bijection onto letters that are not `x`/`X`, both quote characters and the backslash
are escaped, and the unescaped prefix is `\x` – what the round trip needs -/
theorem codecFacts : CodecFacts where
  inverse := by decide
  specials := by decide
  prefix_eq := by decide

/-! ## property theorems -/

/-- **String literals round-trip, for all byte strings.** The text printed for a `StrVal` with value `b`
(`'…'` with backslash escapes; a value starting with `\x` keeps that prefix) is scanned by the tokenizer
back to exactly `b`, consuming exactly the literal, whatever follows it (anything but another quote,
which no printer output puts there). -/
theorem literal_roundtrip (b rest : Bytes) (h : rest.head? ≠ some quote) :
    scanString quote true ((encodeBytesSQL b).tail ++ rest) = some (b, rest) := by
  have F := codecFacts
  unfold encodeBytesSQL
  simp only [List.cons_append, List.tail_cons, List.append_assoc, List.singleton_append]
  unfold encodeBody
  rw [F.prefix_eq]
  by_cases hp : ([backslash, 120].isPrefixOf b && decide (b.length ≥ [backslash, 120].length)) = true
  · simp only [hp, if_true]
    match b, hp with
    | c :: d :: cs, hp =>
      simp only [List.isPrefixOf, Bool.and_true, Bool.and_eq_true, beq_iff_eq] at hp
      obtain ⟨⟨hc, hd⟩, _⟩ := hp
      subst hc; subst hd
      simp only [List.length_cons, List.length_nil, List.drop_succ_cons, List.drop_zero, List.cons_append, List.nil_append]
      rw [scan_escape]
      simp only [show isX 120 = true by decide, Bool.and_self, if_true]
      rw [scan_escape_body F quote (Or.inl rfl) cs false rest h]; rfl
    | [], hp => simp [List.isPrefixOf] at hp
    | [_], hp => simp [List.isPrefixOf] at hp
  · simp only [hp, Bool.false_eq_true, if_false]
    exact scan_escape_body F quote (Or.inl rfl) b true rest h

/-- **PostgreSQL escape strings round-trip**: `E'` + escaped value + `'` is scanned back to the value. -/
theorem escape_string_roundtrip (b rest : Bytes) (h : rest.head? ≠ some quote) (f : Bool) :
    scanString quote f ((encodeEscapeString b).tail ++ rest) = some (b, rest) := by
  unfold encodeEscapeString
  simp only [List.cons_append, List.tail_cons, List.append_assoc, List.singleton_append]
  exact scan_escape_body codecFacts quote (Or.inl rfl) b f rest h

open AcraModel.Sql.Ident in
/-- **Quoted identifiers round-trip.** Any non-empty name, printed in quotes with its quote characters doubled
(`formatIDForDialect` for names that need escaping, `writeQuotedID` for names written in quotes), is read back by
`scanLiteralIdentifier` as exactly that name, consuming exactly the quoted text (dialects with one identifier quote
character: MySQL default mode and PostgreSQL). -/
theorem ident_roundtrip (q : UInt8) (name rest : Bytes) (hne : name ≠ []) (h : rest.head? ≠ some q) :
    scanQuotedIdent q ((quoteIdent q name).tail ++ rest) = some (name, rest) := by
  unfold quoteIdent scanQuotedIdent
  simp only [List.cons_append, List.tail_cons, List.append_assoc, List.nil_append]
  rw [scanBody_quoted q name rest h]
  cases name with
  | nil => exact absurd rfl hne
  | cons c cs => simp

/-- non-vacuity: a value with every special byte, starting with the `\x` prefix -/
example : scanString quote true ((encodeBytesSQL [92, 120, 0, 39, 34, 92, 10, 255, 120]).tail ++ [32, 97]) =
    some ([92, 120, 0, 39, 34, 92, 10, 255, 120], [32, 97]) := literal_roundtrip _ _ (by decide)

open AcraModel.Sql.Ident in
/-- non-vacuity: the name a"b"" in PostgreSQL quotes, followed by a dot -/
example : scanQuotedIdent 34 ((quoteIdent 34 [97, 34, 98, 34, 34]).tail ++ [46, 120]) = some ([97, 34, 98, 34, 34], [46, 120]) :=
  ident_roundtrip _ _ _ (by decide) (by decide)

/-! # Part 2: the expression fragment -/

section Expr
open AcraModel.Sql.Expr Generated.SqlPrec

/-! ## facts about the regenerated precedence table and rule tables -/

/-- **strict order of the levels**: in the `%left/%right` block of `sql.y`, OR < AND < NOT < (BETWEEN) < comparison <
`|` < `&` < shifts < `+ -` < `* / DIV % MOD` < `^` < unary – the positions the model's parser and the proofs use -/
theorem fact_levels_strict :
    ["OR", "AND", "NOT", "BETWEEN", "'='", "'|'", "'&'", "SHIFT_LEFT", "'+'", "'*'", "'^'", "UNARY"].map lvlTok =
      [3, 4, 5, 6, 7, 8, 9, 10, 11, 12, 13, 14] := by decide

/-- the tokens that share a level: all comparison operators with IS, LIKE, REGEXP; `+` with `-`; `*` with `/`, DIV, `%`,
MOD; `<<` with `>>`; `~` with UNARY (the `%prec` of the other prefix operators) -/
theorem fact_levels_shared :
    ["'='", "'<'", "'>'", "LE", "GE", "NE", "NULL_SAFE_EQUAL", "IS", "LIKE", "REGEXP"].map lvlTok = List.replicate 10 lCmp ∧
    ["'+'", "'-'"].map lvlTok = [11, 11] ∧ ["'*'", "'/'", "DIV", "'%'", "MOD"].map lvlTok = List.replicate 5 12 ∧
    ["SHIFT_LEFT", "SHIFT_RIGHT"].map lvlTok = [10, 10] ∧ ["'~'", "UNARY"].map lvlTok = [lUnary, lUnary] := by decide

/-- **associativity per level**: every binary level of the fragment is `%left`, the two prefix levels are `%right` -/
theorem fact_assoc :
    [lOr, lAnd, lCmp, 8, 9, 10, 11, 12, 13].map assocAt = List.replicate 9 "left" ∧
    [lNot, lUnary].map assocAt = ["right", "right"] := by decide

/-- every `value_expression TOK value_expression` rule of the grammar is a binary operator of the model, with the
operator constant the rule's action uses and the text `ast.go` gives it (and the model has no other) -/
theorem fact_binary_rules :
    binaryExprRules.map (fun r => (r.1, r.2.1)) =
      [("'&'", "BitAndStr"), ("'|'", "BitOrStr"), ("'^'", "BitXorStr"), ("'+'", "PlusStr"), ("'-'", "MinusStr"),
       ("'*'", "MultStr"), ("'/'", "DivStr"), ("DIV", "IntDivStr"), ("'%'", "ModStr"), ("MOD", "ModStr"),
       ("SHIFT_LEFT", "ShiftLeftStr"), ("SHIFT_RIGHT", "ShiftRightStr")] ∧
    binaryExprRules.all (fun r => Sym.all.any (fun s => s.yacc == r.1 && (s.binop.map BinOp.const) == some r.2.1)) = true ∧
    BinOp.all.all (fun o => o.sym.binop == some o && o.sym.text == o.text) = true := by decide

/-- the prefix operator rules: token, precedence (`%prec UNARY`, `'~'` its own, same level), constant, text; exactly the
rules for `+` and `-` fold an `IntVal` operand into a signed literal -/
theorem fact_unary_rules :
    unaryExprRules.map (fun r => (r.1, r.2.1, r.2.2.1)) =
      [("BINARY", "UNARY", "BinaryStr"), ("UNDERSCORE_BINARY", "UNARY", "UBinaryStr"), ("'+'", "UNARY", "UPlusStr"),
       ("'-'", "UNARY", "UMinusStr"), ("'~'", "'~'", "TildaStr"), ("'!'", "UNARY", "BangStr")] ∧
    unaryExprRules.all (fun r => lvlTok r.2.1 == lUnary) = true ∧
    UnOp.all.all (fun o => o.sym.unop == some o) = true ∧
    UnOp.all.map UnOp.folds = [true, true, false, false, false, false] ∧
    UnOp.all.map UnOp.text = ["+", "-", "~", "!", "binary ", "_binary "] := by decide

/-- rule `compare`, the alternatives of `condition`, `expression` and `is_suffix` are the ones the model's parser
implements (IN, ILIKE, EXISTS and DEFAULT are outside the fragment); no alternative has a `%prec` (factgen fails on one) -/
theorem fact_condition_rules :
    compareRules.map (·.1) = ["'='", "'<'", "'>'", "LE", "GE", "NE", "NULL_SAFE_EQUAL"] ∧
    conditionRules.map (fun r => (r.1, r.2.1)) =
      [("value_expression compare value_expression", "ComparisonExpr"),
       ("value_expression IN col_tuple", "ComparisonExpr"),
       ("value_expression NOT IN col_tuple", "ComparisonExpr"),
       ("value_expression LIKE value_expression like_escape_opt", "ComparisonExpr"),
       ("value_expression ILIKE value_expression like_escape_opt", "ComparisonExpr"),
       ("value_expression NOT LIKE value_expression like_escape_opt", "ComparisonExpr"),
       ("value_expression NOT ILIKE value_expression like_escape_opt", "ComparisonExpr"),
       ("value_expression REGEXP value_expression", "ComparisonExpr"),
       ("value_expression NOT REGEXP value_expression", "ComparisonExpr"),
       ("value_expression BETWEEN value_expression AND value_expression", "RangeCond"),
       ("value_expression NOT BETWEEN value_expression AND value_expression", "RangeCond"),
       ("EXISTS subquery", "ExistsExpr")] ∧
    expressionRules =
      [("condition", ""), ("expression AND expression", "AndExpr"), ("expression OR expression", "OrExpr"),
       ("NOT expression", "NotExpr"), ("expression IS is_suffix", "IsExpr"), ("value_expression", ""),
       ("DEFAULT default_opt", "Default")] ∧
    isSuffixRules.map (·.1) = ["NULL", "NOT NULL", "TRUE", "NOT TRUE", "FALSE", "NOT FALSE"] := by decide

def symsStr (ss : List Sym) : String := " ".intercalate (ss.map Sym.text)

/-- operator text of a constant of `ast.go` as the regenerated rule tables give it -/
def genText (c : String) : Option String :=
  match compareRules.find? (fun r => r.2.1 == c) with
  | some r => some r.2.2
  | none =>
    match conditionRules.find? (fun r => r.2.2.1 == c) with
    | some r => some r.2.2.2
    | none => (isSuffixRules.find? (fun r => r.2.1 == c)).map (·.2.2)

/-- the operator texts the model's printer writes are the constants of `ast.go` (`"not like"`, `"is not null"`, …) -/
theorem fact_operator_texts :
    CmpOp.all.all (fun o => genText o.const == some (symsStr o.syms)) = true ∧
    IsOp.all.all (fun o => genText o.const == some ("is " ++ symsStr o.syms)) = true ∧
    Sym.all.all (fun s => match s.cmpop with
      | some o => o.syms == [s]
      | none => true) = true := by decide

/-- **the printer's format strings**: blanks around infix operators, none inside parentheses, `ParenExpr` is the only
node that prints parentheses, a nested prefix operator is separated by a blank (`- -a`, never `--a`) -/
theorem fact_format_strings :
    formatStrings =
      [("AndExpr", ["%v and %v"]), ("OrExpr", ["%v or %v"]), ("NotExpr", ["not %v"]), ("ParenExpr", ["(%v)"]),
       ("ComparisonExpr", ["%v %s %v", " escape %v"]), ("RangeCond", ["%v %s %v and %v"]), ("IsExpr", ["%v %s"]),
       ("BinaryExpr", ["%v %s %v"]), ("UnaryExpr", ["%s %v", "%s%v"]), ("FuncExpr", ["%v.", "%s(%s%v)"]),
       ("Exprs", ["%s%v"]), ("NullVal", ["null"]), ("BoolVal", ["true", "false"])] := by decide

/-- a one-element parenthesised list is a `ParenExpr`; a generic call is `name(expression list)` -/
theorem fact_paren_func_rules : parenRule = true ∧ funcRule = true := by decide

/-- the `ValType` numbers of the model and the value types printed as they are (IntVal, FloatVal, HexNum; PgPlaceholder `$1` is outside the fragment) -/
theorem fact_val_types :
    [tyStr, tyInt, tyFloat, tyHexNum, tyHexVal, tyBitVal, tyPgEsc] = [0, 1, 2, 3, 4, 6, 7] ∧
    (List.range 10).filter rawTy = [1, 2, 3, 8] := by decide

/-! ## property theorems -/

/-- **Producible trees round-trip.** For every tree in the image of Acra's expression parser – children of an operator
node have the precedence level the grammar requires, or are leaves, calls or explicit `ParenExpr` nodes – the printed
form (Acra's `Format`: no parentheses of its own) is read back by the parser as exactly that tree: no operand,
operator, precedence relation or literal is lost, added or altered. -/
theorem expr_roundtrip (t : Expr) (h : Producible t) : parseExpr (tokens (format t)) = some t := by
  unfold parseExpr fuelFor
  exact roundtrip_fuel t h _ (by unfold tlen toks; omega)

/-- **Replacing values keeps a tree producible.** Substituting `SQLVal` leaves by other well-formed `SQLVal` leaves
(a non-`IntVal` never becoming an `IntVal`: the grammar folds the sign of an `IntVal` under unary `+`/`-`) preserves
producibility – the structure of the tree, which is all that producibility depends on besides the leaves, is untouched. -/
theorem producible_subst {σ : Nat → Bytes → Nat × Bytes} (hσ : SubstOk σ) (t : Expr) (h : Producible t) :
    Producible (subst σ t) := producible_subst_aux hσ t h

/-- **Same structure apart from exactly the substituted values**: the printed form of the substituted tree parses back
to the substituted tree. -/
theorem subst_roundtrip {σ : Nat → Bytes → Nat × Bytes} (hσ : SubstOk σ) (t : Expr) (h : Producible t) :
    parseExpr (tokens (format (subst σ t))) = some (subst σ t) :=
  expr_roundtrip _ (producible_subst hσ t h)

/-- **Nothing but the values changes in the text**: the printed form of the substituted tree is the printed form of the
original with exactly the literal lexemes replaced – every keyword, operator, identifier, parenthesis and blank stays. -/
theorem format_subst_exact (σ : Nat → Bytes → Nat × Bytes) (t : Expr) :
    format (subst σ t) = (format t).map (substLex σ) := format_subst σ t

/-- **Different producible trees never print alike**: the printer is injective on the image of the parser (so no two
statements with different precedence relations, operands or operators share a printed form). -/
theorem format_injective (t₁ t₂ : Expr) (h₁ : Producible t₁) (h₂ : Producible t₂)
    (h : tokens (format t₁) = tokens (format t₂)) : t₁ = t₂ := by
  have a := expr_roundtrip t₁ h₁
  rw [h, expr_roundtrip t₂ h₂] at a
  injection a with a
  exact a.symm

/-- **Everything the parser returns is producible** (for token lists as the tokenizer yields them: number tokens are
unsigned and not empty). -/
theorem parse_producible (ts : List Tok) (t : Expr) (hok : AllOk ts) (h : parseExpr ts = some t) : Producible t :=
  parseExprFuel_producible hok h

/-- Hence a parsed statement's expression, printed and parsed again, is the same tree – also after its values have been
replaced. This is the statement the round-trip oracle checks on the real parser. -/
theorem parse_print_parse (ts : List Tok) (t : Expr) (hok : AllOk ts) (h : parseExpr ts = some t)
    {σ : Nat → Bytes → Nat × Bytes} (hσ : SubstOk σ) :
    parseExpr (tokens (format t)) = some t ∧ parseExpr (tokens (format (subst σ t))) = some (subst σ t) :=
  ⟨expr_roundtrip t (parse_producible ts t hok h), subst_roundtrip hσ t (parse_producible ts t hok h)⟩

/-- **Exactly the producible trees round-trip.** For a tree whose `SQLVal` leaves are well-formed literals, the printed
form parses back to the tree if *and only if* the tree is producible: every operand of too low a level that is not
wrapped in a `ParenExpr`, and every `IntVal` directly under unary `+`/`-`, changes the statement that is read back. -/
theorem roundtrip_iff_producible (t : Expr) (hl : LeavesOk t) :
    parseExpr (tokens (format t)) = some t ↔ Producible t :=
  ⟨fun h => parse_producible _ t (allOk_toks t hl) h, expr_roundtrip t⟩

/-- **Nothing is lost between the text received and the text sent on** (expression fragment). Whatever token list
the parser accepts (tokens as the tokenizer yields them), the printed form of the tree it returns holds exactly the
value-carrying tokens of the input – every literal and every identifier, in the same order, nothing dropped,
duplicated or invented. Keywords, operators and parentheses are what the tree's node kinds record (`expr_roundtrip`). -/
theorem parse_keeps_lexemes (ts : List Tok) (t : Expr) (hok : AllOk ts) (h : parseExpr ts = some t) :
    lexemes (tokens (format t)) = lexemes ts :=
  parseExprFuel_keeps hok h

/-- non-vacuity: `a = -1 and f('x', b) is not null` keeps `a 1 f 'x' b`; the sign is an operator token -/
example :
    let ts : List Tok := [.id [97], .sym .eq, .sym .minus, .lit tyInt [49], .sym .and_, .id [102], .sym .lp, .lit tyStr [120],
      .sym .comma, .id [98], .sym .rp, .sym .is_, .sym .not_, .sym .null]
    (parseExpr ts).isSome = true ∧ lexemes ts = [.id [97], .lit tyInt [49], .id [102], .lit tyStr [120], .id [98]] := by
  decide +kernel

private def ca : Expr := .col [97]
private def cb : Expr := .col [98]
private def cc : Expr := .col [99]

/-- **A tree that is not producible does not round-trip**: `(a or b) and c` built *without* its `ParenExpr` – an
`OrExpr` directly under an `AndExpr` – is printed as `a or b and c` and read back as `a or (b and c)`, a different
statement. A rewrite of the tree must therefore keep the `ParenExpr` nodes the parser put there. -/
theorem nonproducible_counterexample :
    ¬ Producible (.and (.or ca cb) cc) ∧
    parseExpr (tokens (format (.and (.or ca cb) cc))) = some (.or ca (.and cb cc)) ∧
    parseExpr (tokens (format (.and (.or ca cb) cc))) ≠ some (.and (.or ca cb) cc) := by
  have h2 : parseExpr (tokens (format (.and (.or ca cb) cc))) = some (.or ca (.and cb cc)) := by rfl
  refine ⟨?_, h2, ?_⟩
  · intro h
    cases h with
    | and _ _ hl _ => exact absurd hl (by decide)
  · rw [h2]; intro h; injection h with h; cases h

/-- … whereas with the `ParenExpr` node the same expression is producible and is read back unchanged. -/
theorem paren_counterpart :
    Producible (.and (.paren (.or ca cb)) cc) ∧
    parseExpr (tokens (format (.and (.paren (.or ca cb)) cc))) = some (.and (.paren (.or ca cb)) cc) := by
  have hp : Producible (.and (.paren (.or ca cb)) cc) :=
    .and (.paren (.or .col .col (by decide) (by decide))) .col (by decide) (by decide)
  exact ⟨hp, expr_roundtrip _ hp⟩

/-- a substitution that satisfies `SubstOk`: every string value becomes the hex value `X'00'`, everything else stays -/
private def σEx : Nat → Bytes → Nat × Bytes := fun ty v => if ty = tyStr then (tyHexVal, [48, 48]) else (ty, v)

/-- non-vacuity of `SubstOk` -/
theorem substOk_example : SubstOk σEx := by
  constructor
  · intro ty v h
    unfold σEx
    by_cases hs : ty = tyStr
    · simp only [hs, if_true]; intro hr; exact absurd hr (by decide)
    · simp only [hs, if_false]; exact h
  · intro ty v h
    unfold σEx at h
    by_cases hs : ty = tyStr
    · simp only [hs, if_true] at h; exact absurd h (by decide)
    · simp only [hs, if_false] at h; exact h

/-- non-vacuity: `not a between -1 and f('x', b) * (c + 2) or ~d is not null` – every node kind, a signed literal, a call,
explicit parentheses – is producible, round-trips, and so does its substituted form -/
example :
    let t : Expr := .or (.not (.range false ca (.val tyInt [45, 49])
        (.bin .mult (.func [102] [.val tyStr [120], cb]) (.paren (.bin .plus cc (.val tyInt [50]))))))
      (.is .isNotNull (.un .tilda (.col [100])))
    Producible t ∧ parseExpr (tokens (format t)) = some t ∧
      parseExpr (tokens (format (subst σEx t))) = some (subst σEx t) := by
  intro t
  have hp : Producible t := by
    refine .or (.not (.range .col (.val (by decide)) (.bin (.func ?_) (.paren (.bin .col (.val (by decide)) (by decide)
      (by decide))) (by decide) (by decide)) (by decide) (by decide) (by decide)) (by decide))
      (.is (.un .col (by decide) (by decide)) (by decide)) (by decide) (by decide)
    intro a ha
    simp only [List.mem_cons, List.mem_nil_iff, or_false] at ha
    rcases ha with rfl | rfl
    · exact .val (by decide)
    · exact .col
  exact ⟨hp, expr_roundtrip t hp, subst_roundtrip substOk_example t hp⟩

end Expr

/-! ## Part 3: statement forms – no print path of a statement or clause node drops what the grammar can fill -/
section Forms
open AcraModel.Sql.Forms Generated.SqlForms

/-- the node kinds of data-manipulation statements exist in `ast.go` (types with an `iStatement` method) -/
theorem fact_dml_kinds_exist : ∀ k ∈ dmlKinds, k ∈ stmtKinds := by decide

/-- the clause, table and expression nodes of DML statements exist in `ast.go` and the path analysis of factgen
understands their `Format` methods -/
theorem fact_clause_kinds_analysed : ∀ k ∈ dmlClauseKinds, k ∈ clauseKinds := by decide

/-- **Every print path prints every field the grammar can fill on it** (regenerated tables). For every grammar
alternative of `sql.y` that builds a SELECT / UNION / parenthesised SELECT / INSERT / UPDATE / DELETE node or one of
their clause, table and expression nodes (`Limit`, `AliasedTableExpr`, `JoinTableExpr`, `ConvertType`, `CaseExpr` …)
and every print path of the node's `Format` method that a node built by the alternative can take, each field the
alternative may fill is printed on that path, or is a flag the path's own condition fixes (`Insert.Default` ⇒
`default values`, `Limit.Type` ⇒ the spelling), or the path is only taken when the field is empty, or is one of the
two documented by-design omissions (`exempt`). A `Format` that stops printing a clause on one of its paths (the
multi-table `DELETE … USING … RETURNING …` tail printing only `WHERE`), or a grammar alternative that starts filling a
field its print path ignores, makes this false. -/
theorem fact_format_prints_all_fields : tableOK = true := by decide +kernel

/-- every grammar alternative of these nodes has a print path it is compatible with – `Format` prints something for
whatever the grammar builds -/
theorem fact_every_production_has_a_path : coveredFor prods paths = true := by decide +kernel

/-- the regenerated list of omissions (fields a compatible alternative may fill that the path does not represent)
holds no DML node – what remains are the reduced forms of DDL / SHOW / PREPARE, outside the property -/
theorem fact_no_dml_omissions : (omissions prods paths).all (fun o => !strictKinds.contains o.1) = true := by
  decide +kernel

/-- **The grammar reads no literal it then drops** (outside DDL): every token that carries a lexeme – identifier,
number, string, placeholder – on the right-hand side of an alternative is used by the alternative's action. (The
pinned tree had `convert_type: VARCHAR ( INTEGRAL )` dropping the length: `cast(a as varchar(10))` was re-serialised
as `convert(a, varchar)` – repaired, repo-patches/70.) -/
theorem fact_grammar_keeps_literals : ∀ e ∈ unusedLiteralTokens, e.1 ∈ ddlRules := by decide

/-- the DELETE node has its two spellings as separate print paths, and both print RETURNING and WHERE -/
theorem fact_delete_paths :
    (paths.filter (·.kind == "Delete")).length ≥ 2 ∧
    (paths.filter (·.kind == "Delete")).all (fun π => π.printed.contains "Returning" && π.printed.contains "Where") = true := by
  decide +kernel

/-- **`Format` keeps the clauses** – lifted from the finite table to all statements of the model. Let `s` be any
DML statement or clause node (node kind + the set of its filled fields, of any size and in any order, + the constants
some of its fields hold) that some grammar alternative `p` of the regenerated table can build, and `π` the print path
`Format` takes for it. Then every filled field of `s` is kept on `π`: printed, or a flag fixed by the path – or it is
one of the two documented by-design omissions. No clause is lost by the choice of the print path. -/
theorem format_keeps_clauses (s : Stmt) (p : Prod) (π : Path) (hp : p ∈ prods) (hd : s.kind ∈ strictKinds)
    (hb : builtBy p s = true) (hf : formatPath s = some π) :
    ∀ f ∈ s.present, keeps π f = true ∨ exempt.contains (π.kind, f) = true :=
  have h := formatPath_spec hf
  keeps_of_tableOK fact_format_prints_all_fields hp h.1 hd hb h.2

/-- the same for *any* path whose conditions hold (the model leaves the dialect switch and opaque conditions open,
so several paths may apply) -/
theorem format_keeps_clauses_any_path (s : Stmt) (p : Prod) (π : Path) (hp : p ∈ prods) (hπ : π ∈ paths)
    (hd : s.kind ∈ strictKinds) (hb : builtBy p s = true) (ha : pathApplies π s = true) :
    ∀ f ∈ s.present, keeps π f = true ∨ exempt.contains (π.kind, f) = true :=
  keeps_of_tableOK fact_format_prints_all_fields hp hπ hd hb ha

/-- the print paths with RETURNING removed from the printed fields of the multi-table DELETE paths -/
private def seededPaths : List Path :=
  paths.map fun π => if π.kind == "Delete" && π.printed.contains "Targets" then
    { π with printed := π.printed.filter (· != "Returning") } else π

/-- **The check is not vacuous**: with RETURNING dropped from the multi-table DELETE paths the finite check fails,
and the model exhibits the statement: `DELETE FROM t USING u WHERE … RETURNING …` takes a path that no longer keeps
its RETURNING clause. -/
theorem seeded_change_counterexample :
    tableOKFor prods seededPaths = false ∧
    (let s : Stmt := ⟨"Delete", ["Targets", "TableExprs", "Where", "Returning"], []⟩
     (prods.any fun p => builtBy p s) = true ∧
     (seededPaths.any fun π => pathApplies π s && !keeps π "Returning") = true) := by decide +kernel

/-- non-vacuity of `format_keeps_clauses`: the multi-table DELETE with WHERE and RETURNING is built by a grammar
alternative of the table, `Format` takes the multi-table path, and that path prints all four clauses -/
example :
    let s : Stmt := ⟨"Delete", ["Targets", "TableExprs", "Where", "Returning"], []⟩
    (prods.any fun p => builtBy p s) = true ∧
    (formatPath s).map (·.idx) = some 1 ∧
    ((formatPath s).map fun π => s.present.all (keeps π)) = some true := by decide +kernel

/-- … an INSERT … DEFAULT VALUES takes the second path of `Insert.Format`, which keeps the `Default` flag -/
example :
    let s : Stmt := ⟨"Insert", ["Action", "Table", "Default"], [("Action", "InsertStr")]⟩
    (prods.any fun p => builtBy p s) = true ∧
    (formatPath s).map (·.idx) = some 1 ∧
    ((formatPath s).map fun π => s.present.all (keeps π)) = some true := by decide +kernel

/-- … and `LIMIT ALL OFFSET n` (a `Limit` with `Type = LimitTypeLimitAllAndOffset` and only `Offset` filled) takes
the fifth path of `Limit.Format`, which prints the offset and fixes the type -/
example :
    let s : Stmt := ⟨"Limit", ["Offset", "Type"], [("Type", "LimitTypeLimitAllAndOffset")]⟩
    (prods.any fun p => builtBy p s) = true ∧
    (formatPath s).map (·.idx) = some 4 ∧
    ((formatPath s).map fun π => s.present.all (keeps π)) = some true := by decide +kernel

end Forms

/-! ## Part 4: what the grammar actions keep of what the parser reads -/
section Grammar
open AcraModel.Sql.Grammar Generated.SqlGrammar

/-- **The pinned exemptions**: the only right-hand-side symbols with a semantic value (a lexeme-carrying token, or a
non-terminal with a `%type`) on alternatives reachable from SELECT / INSERT / UPDATE / DELETE whose value does not
flow into `$$` are the noise word FOR|FROM of `NEXT n VALUES FOR t` and the table qualifier of a column in an INSERT
column list (`Sql/Grammar.lean: exempt` gives the reasons) – and the model's own reading of the table agrees with the
extractor's list. An action that stops using `$5` (the ESCAPE operand of NOT ILIKE) or `$8` (ON DUPLICATE KEY UPDATE
after INSERT … SET; `len($8)` does not count – a length carries no content) adds an entry and breaks this. -/
theorem fact_grammar_exemptions :
    unusedSemantic = [("select_statement", 3, 6, "for_from"), ("ins_column_list", 2, 1, "column_id"),
      ("ins_column_list", 4, 3, "column_id")] ∧
    unusedOf alts = unusedSemantic ∧
    (unusedSemantic.map fun e => (e.1, e.2.1, e.2.2.1)) = exempt := by decide +kernel

/-- the finite check over the regenerated table: every lexeme-carrying token and every non-terminal with a semantic
value of every reachable alternative flows into `$$` or is exempt; non-terminals without a value derive keywords and
punctuation only (the list of such rules is closed under the grammar) -/
theorem fact_grammar_uses_every_operand : tableOK = true ∧ lexFreeClosed = true := by decide +kernel

/-- the table is the whole reachable grammar: the statement rules, the expression rules and the clause rules are in it -/
theorem fact_grammar_table_covers :
    (["select_statement", "base_select", "insert_statement", "update_statement", "delete_statement", "expression",
      "condition", "value_expression", "like_escape_opt", "on_dup_opt", "update_list", "limit_opt", "order_by_opt",
      "table_reference", "join_table", "subquery", "convert_type", "function_call_keyword"].all
        fun r => alts.any (·.rule == r)) = true ∧ 500 ≤ alts.length := by decide +kernel

/-- **The grammar uses every operand.** In every alternative of `sql.y` that is reachable from the DML statements,
every right-hand-side symbol that carries meaning – an identifier / literal / placeholder token, or a non-terminal
with a semantic value – flows into the value the action builds, unless it is one of the pinned exemptions. -/
theorem grammar_uses_every_operand (A : GAlt) (hA : A ∈ alts) (k : Nat) (s : GSym) (hs : A.rhs[k]? = some s)
    (hc : s.cls = .lex ∨ s.cls = .sem) :
    A.flow.contains (k + 1) = true ∨ exempt.contains (A.rule, A.idx, k + 1) = true := by
  have h := fact_grammar_uses_every_operand.1
  simp only [tableOK, tableOKFor, List.all_eq_true] at h
  have := symsOK_spec 1 A.rhs (h A hA) k s hs hc
  rwa [Nat.add_comm 1 k] at this

/-- **No derivation loses a lexeme.** For every derivation tree of the reachable grammar (any statement the parser
accepts, of any size) in which nothing with a lexeme stands at an exempt position, the lexemes kept in the semantic
value the actions build are exactly the identifier / literal / placeholder / comment lexemes of the text, in order.
(Model level: an action whose `$$` depends on `$n` keeps all of `$n`; the token-conservation oracle checks the real
parser and printer against that.) -/
theorem derivation_keeps_lexemes (d : Deriv) (hw : d.wf alts = true) (he : d.exemptEmpty exempt = true) :
    d.kept alts = d.read :=
  kept_eq_read fact_grammar_uses_every_operand.1 fact_grammar_uses_every_operand.2 d hw he

/-- **The generated parser is in step with the grammar.** `sql.go` is what the build compiles (`make sql.go` runs
goyacc on `sql.y`; nothing regenerates it at build time): for every production number the `case N:` block of its
action switch pops as many symbols as the alternative of `sql.y` has and mentions exactly the positions the action in
`sql.y` mentions. An edit of `sql.go` alone – or of `sql.y` alone – breaks this. -/
theorem fact_generated_parser_matches_grammar :
    sqlGoMismatches = [] ∧ 600 ≤ sqlGoCompared ∧ sqlGoCompared ≤ sqlGoProductions := by decide +kernel

private def veStr (s : Bytes) : Deriv :=
  .node "value_expression" 1 [.node "column_name_value_expr" 3 [.node "value" 1 [.tok "SINGLE_QUOTE_STRING" s]]]

/-- `a not ilike 'x' escape '!'` (operands as string tokens) as a derivation of rule `condition`, alternative 7 -/
private def notIlikeEscape : Deriv :=
  .node "condition" 7 [veStr [97], .tok "NOT" [], .tok "ILIKE" [], veStr [120],
    .node "like_escape_opt" 2 [.tok "ESCAPE" [], veStr [33]]]

/-- **The check is not vacuous**: with position 5 (the ESCAPE operand) taken out of the flow of the NOT ILIKE
alternative – what dropping `Escape: $5` from its action does – the finite check fails, and the model exhibits the
statement: the derivation of `… not ilike … escape '!'` reads three literals and keeps two. On the regenerated table
the same derivation keeps all three. -/
theorem seeded_grammar_counterexample :
    tableOKFor exempt (withoutFlow "condition" 7 5 alts) = false ∧
    notIlikeEscape.wf alts = true ∧ notIlikeEscape.exemptEmpty exempt = true ∧
    notIlikeEscape.read = [("SINGLE_QUOTE_STRING", [97]), ("SINGLE_QUOTE_STRING", [120]), ("SINGLE_QUOTE_STRING", [33])] ∧
    notIlikeEscape.kept alts = notIlikeEscape.read ∧
    notIlikeEscape.kept (withoutFlow "condition" 7 5 alts) =
      [("SINGLE_QUOTE_STRING", [97]), ("SINGLE_QUOTE_STRING", [120])] := by decide +kernel

end Grammar

/-! ## Part 5: the SELECT core -/
section SelectCore
open AcraModel.Sql.Expr AcraModel.Sql.Select

/-- **Well-formed SELECT statements round-trip.** For every statement of the modelled core –
`SELECT [DISTINCT] items FROM table references [WHERE] [GROUP BY] [HAVING] [ORDER BY] [LIMIT]`, items `*` or an expression
with an optional alias, table references with chains of inner / straight / left / right / natural joins with their ON
conditions, the three LIMIT spellings – whose expressions are producible (`Sel.Ok`: in the image of the parser), the
token sequence of the printed statement (`Select.Format` and the `Format` methods of its clause nodes) is read back as
exactly that statement: no clause, list element, alias, join, condition, direction or literal is lost, added, moved to
another clause or altered. (The join chain is kept as the flat list `JoinTableExpr.Format` prints; ORDER BY NULL /
rand(), which Acra prints without a direction, USING, sub-queries, hints, locks and comments are outside the core.) -/
theorem select_roundtrip (s : Sel) (h : s.Ok) : parseSel (stoks s) = some s := parseSel_stoks s h

/-- … in the executable form the harness uses (`C13.sel.ok` / `C13.sel.roundtrip`) -/
theorem select_roundtrip_checked (s : Sel) (h : s.okB = true) : parseSel (stoks s) = some s :=
  parseSel_stoks s (Sel.ok_of_okB h)

/-- **Different well-formed statements never print alike**: the printer is injective on the core. -/
theorem select_format_injective (s₁ s₂ : Sel) (h₁ : s₁.Ok) (h₂ : s₂.Ok) (h : stoks s₁ = stoks s₂) : s₁ = s₂ := by
  have a := select_roundtrip s₁ h₁
  rw [h, select_roundtrip s₂ h₂] at a
  injection a with a
  exact a.symm

/-- **Nothing is lost between the statement received and the statement sent on** (SELECT core). Whatever token sequence
the statement parser accepts (tokens as the tokenizer yields them), the printed form of the statement it returns holds
exactly the value-carrying tokens of the input – every literal, column, function and table name and alias, in the same
order – in whatever clause they stand. (The converse direction of `select_roundtrip`: that one starts from a tree, this
one from the text.) -/
theorem select_keeps_lexemes (ts : List STok) (s : Sel) (hok : AllOkS ts) (h : parseSel ts = some s) :
    lexS (stoks s) = lexS ts := parseSel_keeps hok h

private def exSel : Sel :=
  { distinct := true
    items := [.expr (.col [97]) (some [120]), .star, .expr (.func [102] [.col [98], .val tyInt [49]]) none]
    from_ := [⟨⟨[116], none⟩, [⟨.left, ⟨[117], some [118]⟩, some (.cmp .eq (.col [97]) (.col [98]))⟩, ⟨.natural, ⟨[119], none⟩, none⟩]⟩,
      ⟨⟨[122], some [121]⟩, []⟩]
    where_ := some (.and (.cmp .eq (.col [97]) (.val tyInt [49])) (.paren (.or (.col [98]) (.is .isNull (.col [99])))))
    groupBy := [.col [97], .bin .plus (.col [98]) (.val tyInt [49])]
    having := some (.cmp .gt (.func [99] [.col [97]]) (.val tyInt [50]))
    orderBy := [⟨.col [97], true⟩, ⟨.col [98], false⟩]
    limit := .countOffset (.val tyInt [53]) (.val tyInt [50]) }

/-- non-vacuity: `select distinct a as x, *, f(b, 1) from t left join u as v on a = b natural join w, z as y where a = 1
and (b or c is null) group by a, b + 1 having c(a) > 2 order by a desc, b asc limit 5 offset 2` is well-formed and
round-trips -/
example : exSel.okB = true ∧ parseSel (stoks exSel) = some exSel :=
  have h : exSel.okB = true := by decide +kernel
  ⟨h, select_roundtrip_checked exSel h⟩

private def badSel : Sel :=
  { distinct := false
    items := [.star]
    from_ := [⟨⟨[116], none⟩, [⟨.natural, ⟨[117], none⟩, some (.cmp .eq (.col [97]) (.col [98]))⟩]⟩]
    where_ := none
    groupBy := []
    having := none
    orderBy := []
    limit := .none }

/-- **A statement outside the image of the parser does not round-trip**: a NATURAL JOIN carrying an ON condition (a tree a
rewrite could build, the grammar never does) is printed `select * from t natural join u on a = b`, which the parser
rejects. -/
theorem select_not_ok_counterexample : badSel.okB = false ∧ parseSel (stoks badSel) = none := by decide +kernel

end SelectCore

end AcraModel.Props.C13
