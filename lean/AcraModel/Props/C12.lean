import AcraModel.Wire.LenEncProofs
import AcraModel.Wire.PgLemmas
import AcraModel.Wire.MysqlLemmas
import AcraModel.Wire.ByteaLemmas
import AcraModel.Wire.PgExtLemmas
import AcraModel.Wire.PgDescribeLemmas
import AcraModel.Wire.MysqlColDefLemmas
import AcraModel.Wire.MysqlExecuteLemmas
import AcraModel.Typed.RowLemmas
/-!
# C12 — relayed messages stay byte-identical; rewritten ones stay well-formed

Property theorems only; the proofs live next to the models (`Wire/*Lemmas.lean`, `Wire/LenEncProofs.lean`)
and are restated here under the property's names.

* part 1 – MySQL length-encoded integer/string codec (`decryptor/mysql/base/utils.go`)
* part 2 – PostgreSQL framing, DataRow parsing/rewriting, Query replacement (`decryptor/postgresql/packet_handler.go`)
* part 3 – MySQL packet framing, text and binary rows (`decryptor/mysql/{packet.go,response_proxy.go}`)
* part 4 – bytea text codecs (`utils/dbByteArrayEncoders.go`)
* part 5 – MySQL column definitions (`decryptor/mysql/column_field.go`, `type_conversion.go`)
* part 6 – MySQL COM_STMT_EXECUTE parameters (`decryptor/mysql/{packet.go,prepared_statements.go}`)
* part 7 – PostgreSQL RowDescription / ParameterDescription (`decryptor/postgresql/pg_decryptor.go` over pgproto3)
* part 8 – the decoder → encoder subscribers on columns without a setting (`decryptor/{postgresql,mysql}/data_encoder.go`)
-/
namespace AcraModel.Props.C12
open AcraModel AcraModel.Wire.LenEnc Generated.LenEnc

/-! ## part 1 — length-encoded codec: facts the proofs need from the regenerated tables -/

/-- The reader's switch has exactly the protocol's four markers, each guarded by the length it reads. -/
theorem fact_readCases :
    readCases = [(251, 0, 1, true, []), (252, 3, 3, false, pairsFrom 1 0 2),
      (253, 4, 4, false, pairsFrom 1 0 3), (254, 9, 9, false, pairsFrom 1 0 8)] := Proofs.fact_readCases

/-- The fall-through path reads one byte; an empty input is an error. -/
theorem fact_readDefault : readDefault = (1, pairsFrom 0 0 1) ∧ emptyIsError = true := Proofs.fact_readDefault

/-- The writer's thresholds are the protocol's: 250, 2^16-1, 2^24-1, 2^64-1 with markers fc, fd, fe. -/
theorem fact_putCases :
    putCases = [(250, -1, (List.range 1).map (fun j => 0 + 8 * j)), (65535, 252, (List.range 2).map (fun j => 0 + 8 * j)),
      (16777215, 253, (List.range 3).map (fun j => 0 + 8 * j)), (2^64 - 1, 254, (List.range 8).map (fun j => 0 + 8 * j))] :=
  Proofs.fact_putCases

/-- `LengthEncodedString` looks at the error of `LengthEncodedInt` before using the length. -/
theorem fact_strChecksErr : strChecksErrFirst = true := Proofs.fact_strChecksErr

/-- Values up to 250 are written as the single byte. -/
theorem put_small (n : Nat) (h : n ≤ 250) : putLengthEncodedInt n = [UInt8.ofNat n] := Proofs.put_small n h

/-- Closed form of the writer: marker byte and little-endian body by threshold. -/
theorem put_marker (n : Nat) :
    putLengthEncodedInt n =
      if n ≤ 250 then leBytes 1 n
      else if n ≤ 65535 then 252 :: leBytes 2 n
      else if n ≤ 16777215 then 253 :: leBytes 3 n
      else if n ≤ 2^64 - 1 then 254 :: leBytes 8 n
      else [] := Proofs.put_marker n

/-- The reader on a marker-prefixed input returns the little-endian value of the body. -/
theorem read_marker (m : UInt8) (k : Nat) (body r : Bytes) (hk : body.length = k)
    (hm : (m.toNat = 252 ∧ k = 2) ∨ (m.toNat = 253 ∧ k = 3) ∨ (m.toNat = 254 ∧ k = 8)) :
    lengthEncodedInt (m :: body ++ r) = .ok ⟨leVal body, false, k + 1⟩ := Proofs.read_marker m k body r hk hm

/-- The reader on a first byte ≤ 250 returns that byte. -/
theorem read_small (x : UInt8) (r : Bytes) (h : x.toNat ≤ 250) :
    lengthEncodedInt (x :: r) = .ok ⟨x.toNat, false, 1⟩ := Proofs.read_small x r h

/-- **Integer round trip.** Every 64-bit value written by `PutLengthEncodedInt`, followed by any
bytes, is read back by `LengthEncodedInt` as the same value, not NULL, consuming exactly the bytes
written. Covers every threshold (250/251, 2^16, 2^24) at once. -/
theorem lenenc_int_roundtrip (n : Nat) (r : Bytes) (h : n < 2^64) :
    lengthEncodedInt (putLengthEncodedInt n ++ r) = .ok ⟨n, false, (putLengthEncodedInt n).length⟩ :=
  Proofs.lenenc_int_roundtrip n r h

/-- **String round trip, NULL ≠ empty.** A value (or SQL NULL) written by `PutLengthEncodedString`
followed by any bytes is read back identically, consuming exactly what was written; NULL comes back
as NULL and the empty string as the empty string. -/
theorem lenenc_str_roundtrip (v : Option Bytes) (r : Bytes) (h : ∀ b, v = some b → b.length < 2^64) :
    lengthEncodedString (putLengthEncodedString v ++ r) = .ok (v, (putLengthEncodedString v).length) :=
  Proofs.lenenc_str_roundtrip v r h

/-- **Closed form of the reader** (the independent specification decoder): on a non-empty input the
reader's result is determined by the first byte exactly as the MySQL protocol says. -/
theorem lenenc_int_spec (x : UInt8) (r : Bytes) :
    lengthEncodedInt (x :: r) =
      if x.toNat = 251 then .ok ⟨0, true, 1⟩
      else if x.toNat = 252 then (if r.length < 2 then .err else .ok ⟨leVal (r.take 2), false, 3⟩)
      else if x.toNat = 253 then (if r.length < 3 then .err else .ok ⟨leVal (r.take 3), false, 4⟩)
      else if x.toNat = 254 then (if r.length < 8 then .err else .ok ⟨leVal (r.take 8), false, 9⟩)
      else .ok ⟨x.toNat, false, 1⟩ := Proofs.lenenc_int_spec x r

/-- An empty input is an error, not a value. -/
theorem lenenc_int_empty : lengthEncodedInt [] = .err := Proofs.lenenc_int_empty

/-- **No panic.** `LengthEncodedInt` never panics, whatever the input. -/
theorem lenenc_int_no_panic (data : Bytes) : lengthEncodedInt data ≠ .panic := Proofs.lenenc_int_no_panic data

/-- A successful integer read consumes between 1 and `|data|` bytes. -/
theorem lenenc_int_progress (data : Bytes) (res : IntRes) (h : lengthEncodedInt data = .ok res) :
    0 < res.n ∧ res.n ≤ data.length := Proofs.lenenc_int_progress data res h

/-- `LengthEncodedString` never panics, whatever the input. -/
theorem lenenc_str_no_panic (data : Bytes) : lengthEncodedString data ≠ .panic := Proofs.lenenc_str_no_panic data

/-- **Progress.** A successful string read consumes at least one byte and never more than the input
holds – so a caller's loop over a row terminates inside the buffer. -/
theorem lenenc_str_progress (data : Bytes) (v : Option Bytes) (n : Nat)
    (h : lengthEncodedString data = .ok (v, n)) : 0 < n ∧ n ≤ data.length := Proofs.lenenc_str_progress data v n h

/-- `SkipLengthEncodedString` never panics. -/
theorem lenenc_skip_no_panic (data : Bytes) : skipLengthEncodedString data ≠ .panic := Proofs.lenenc_skip_no_panic data

/-! ## part 2 — PostgreSQL -/

open AcraModel.Wire.Pg in
/-- Facts from the regenerated constants the PostgreSQL model relies on: the length field is 4 bytes
and counts itself, start-up packets carry no type byte (marker 0), a NULL column is length -1
(0xffffffff on the wire), Terminate is `X 0 0 0 4`, formats are 0 = text / 1 = binary. -/
theorem fact_pg_constants :
    Generated.Wire.pgDataRowLengthBufSize = 4 ∧ Generated.Wire.pgWithoutMessageType = 0 ∧
    Generated.Wire.pgNullColumnValue = -1 ∧ nullLen = 2^32 - 1 ∧
    Generated.Wire.pgTerminatePacket = [88, 0, 0, 0, 4] ∧ Generated.Wire.pgTerminateTag = [88] ∧
    Generated.Wire.pgBindFormatText = 0 ∧ Generated.Wire.pgBindFormatBinary = 1 ∧
    Generated.Wire.pgStartupRequest = [0, 3, 0, 0] ∧
    Generated.Wire.pgSSLRequestHeader = [0, 0, 0, 8, 4, 210, 22, 47] ∧
    Generated.Wire.pgCancelRequestHeader = [0, 0, 0, 16, 4, 210, 22, 46] ∧
    Generated.Wire.pgGSSENCRequestHeader = [0, 0, 0, 8, 4, 210, 22, 48] := by decide

open AcraModel.Wire.Pg in
/-- **Relay identity, PostgreSQL (database side).** Reading any well-framed message (any type byte, any
body) followed by any further bytes with `ReadPacket` and marshalling it again gives exactly the bytes
received, and the following bytes are left untouched on the stream. -/
theorem relay_identity_pg_db (t : UInt8) (body rest : Bytes) (ht : t.toNat ≠ 0) (h : body.length + 4 < 2^32) :
    ∃ p, readDb (encodeMsg t body ++ rest) = .ok (p, rest) ∧ marshal p = encodeMsg t body :=
  marshal_readDb_encodeMsg t body rest ht h

open AcraModel.Wire.Pg in
/-- **Relay identity, PostgreSQL (client side, after start-up).** Same for `readGeneralPacket`,
including the Terminate special case. -/
theorem relay_identity_pg_client (t : UInt8) (body rest : Bytes) (ht : t.toNat ≠ 0) (h : body.length + 4 < 2^32) :
    ∃ p, readGeneral (encodeMsg t body ++ rest) = .ok (p, rest) ∧ marshal p = encodeMsg t body :=
  ⟨_, readGeneral_encodeMsg t body rest h, marshal_encodeMsg t body ht⟩

open AcraModel.Wire.Pg in
/-- The specification decoder inverts the specification encoder of a message (so `encodeMsg` is a
faithful description of "well-framed": declared length = actual length). -/
theorem pg_msg_spec_roundtrip (t : UInt8) (body rest : Bytes) (h : body.length + 4 < 2^32) :
    decodeMsg (encodeMsg t body ++ rest) = some (t, body, rest) := decodeMsg_encodeMsg t body rest h

open AcraModel.Wire.Pg in
/-- **DataRow round trip** of the specification codec: every row (NULLs, empty values, any lengths
below the protocol's limits) decodes to itself, with every byte consumed. -/
theorem pg_row_roundtrip (r : Row) (hr : r.length < 2^16) (hb : ∀ b, some b ∈ r → b.length < 2^32 - 1) :
    decodeRow (encodeRow r) = some r := decodeRow_encodeRow r hr hb

open AcraModel.Wire.Pg in
/-- **Rewritten DataRow stays well-formed (PostgreSQL).** For ANY per-column transformation `f`
(shrinking, growing, keeping the length) Acra's parse → transform → `updateDataFromColumns` pipeline
turns the DataRow of row `r` into exactly the specification encoding of the transformed row: the field
count and the NULL markers are preserved, every declared column length equals the actual length, the
packet length field equals the body length + 4, and columns whose transformation is the identity keep
their bytes. -/
theorem rewrite_wellformed_pg (f : Nat → Bytes → Bytes) (fmts : List Nat) (t : UInt8) (lb : Bytes)
    (r : Row) (hne : r ≠ []) (hr : r.length < 2^16)
    (hb : ∀ b, some b ∈ r → b.length < 2^32 - 1)
    (hb' : ∀ b, some b ∈ mapRow f 0 r → b.length < 2^32 - 1)
    (hsz : (encodeRow (mapRow f 0 r)).length + 4 < 2^32)
    (hf : ∀ i, i < r.length → ∃ b, formatByIndex i fmts = .ok b)
    (hck : checkFormats fmts = .ok ())
    (hnn : ∃ b, some b ∈ r) :
    rewriteRow (fun i d => .ok (f i d)) fmts ⟨t, lb, encodeRow r⟩ =
      .ok ⟨t, beBytes 4 ((encodeRow (mapRow f 0 r)).length + 4), encodeRow (mapRow f 0 r)⟩ :=
  rewriteRow_encodeRow f fmts t lb r hne hr hb hb' hsz hf hck hnn

open AcraModel.Wire.Pg in
/-- A DataRow whose columns are all NULL (or that has no columns) is left byte-identical, whatever the
subscribers would do. -/
theorem rewrite_allnull_identity_pg (g : Nat → Bytes → Out Bytes) (fmts : List Nat) (t : UInt8)
    (lb : Bytes) (r : Row) (hr : r.length < 2^16)
    (hf : ∀ i, i < r.length → ∃ b, formatByIndex i fmts = .ok b)
    (hck : checkFormats fmts = .ok ())
    (hn : ∀ v, v ∈ r → v = none) :
    rewriteRow g fmts ⟨t, lb, encodeRow r⟩ = .ok ⟨t, lb, encodeRow r⟩ :=
  rewriteRow_encodeRow_allNull g fmts t lb r hr hf hck hn

open AcraModel.Wire.Pg in
/-- A failing column transformation fails the whole row: no partly rewritten DataRow is produced. -/
theorem rewrite_fail_pg (g : Nat → Bytes → Out Bytes) (fmts : List Nat) (t : UInt8) (lb : Bytes)
    (pre post : Row) (b : Bytes) (hr : (pre ++ some b :: post).length < 2^16)
    (hb : ∀ x, some x ∈ pre ++ some b :: post → x.length < 2^32 - 1)
    (hf : ∀ i, i < (pre ++ some b :: post).length → ∃ fb, formatByIndex i fmts = .ok fb)
    (hck : checkFormats fmts = .ok ())
    (hpre : ∀ j d, pre[j]? = some (some d) → ∃ d', g j d = .ok d')
    (hg : g pre.length b = .err) :
    rewriteRow g fmts ⟨t, lb, encodeRow (pre ++ some b :: post)⟩ = .err :=
  rewriteRow_fail g fmts t lb pre post b hr hb hf hck hpre hg

open AcraModel.Wire.Pg in
/-- **Rewritten Query stays well-formed.** `ReplaceQuery` on a simple Query message yields exactly the
well-framed Query message carrying the new text and its terminator. -/
theorem rewrite_wellformed_pg_query (lb old q : Bytes) (h : q.length + 5 < 2^32) :
    marshal (replaceSimpleQuery ⟨81, lb, old⟩ q) = encodeMsg 81 (q ++ [0]) :=
  replaceSimpleQuery_wellformed lb old q h

open AcraModel.Wire.Pg in
/-- **Relay identity and specification round trip, Parse.** A well-formed Parse body (names without zero
bytes, any parameter type OIDs) is parsed into its fields and marshalled back to exactly its bytes, and
the specification decoder recovers name, query and OIDs. -/
theorem relay_identity_pg_parse (name query : Bytes) (oids : List Nat) (hn : NoZero name)
    (hq : NoZero query) (hl : oids.length < 2^16) (ho : ∀ o ∈ oids, o < 2^32) :
    (∃ p, newParsePacket (encodeParse name query oids) = .ok p ∧
      p.marshal = encodeParse name query oids ∧ p.length = (encodeParse name query oids).length) ∧
    decodeParse (encodeParse name query oids) = some (name, query, oids) :=
  ⟨marshal_newParsePacket name query oids hn hq hl ho, decodeParse_encodeParse name query oids hn hq hl ho⟩

open AcraModel.Wire.Pg in
/-- Facts from the regenerated sources the Parse/Bind models rely on: every big-endian integer read of
`decryptor/postgresql/utils.go` with the Go conversions applied to it. The counts of the extended protocol (number of
parameter type OIDs of Parse – `paramsNum.ToInt` –, number of format codes, parameters and result formats of Bind) and
the parameter lengths are converted with `int(…)` only: they are read as UNSIGNED 16-bit (32-bit) values, never through
`int16`/`int32`. The OID loop of `NewParsePacket` runs `numParams.ToInt()` times and takes 4 bytes each time. -/
theorem fact_pg_int_reads :
    Generated.Wire.pgIntReads = [("paramsNum.ToInt", 16, ["int"]), ("NewExecutePacket", 32, []),
      ("readUint16Array", 16, ["int"]), ("readUint16Array", 16, []),
      ("readParameterArray", 16, ["int"]), ("readParameterArray", 32, ["int"])] ∧
    Generated.Wire.pgParamsNumToInt = ["int"] ∧ Generated.Wire.pgU16ArrayCountConv = ["int"] ∧
    Generated.Wire.pgParamArrayCountConv = ["int"] ∧ Generated.Wire.pgParamArrayLenConv = ["int"] ∧
    Generated.Wire.pgParseLoopBound = "numParams.ToInt()" ∧ Generated.Wire.pgParseOidWidth = 4 := by decide

open AcraModel.Wire.Pg in
/-- **The count of a Parse message is an unsigned 16-bit integer**: for every two bytes `b`, the number of parameter
type OIDs `NewParsePacket` collects is the big-endian value of `b` (0 … 65535) – in particular 32768 … 65535 are counts,
not negative numbers. -/
theorem pg_parse_count_unsigned (b : Bytes) (h : b.length = 2) : paramsCount b = beVal b ∧ beVal b < 2^16 := by
  have := beVal_lt b
  rw [h] at this
  exact ⟨paramsCount_eq b (by omega), by omega⟩

open AcraModel.Wire.Pg in
/-- **pg_parse_roundtrip.** `Marshal ∘ NewParsePacket = id` on every well-formed Parse body – statement name and query
without zero bytes, ANY number 0 … 65535 of parameter type OIDs: the packet holds name and query with their terminators,
the two count bytes as received, exactly as many 4-byte OIDs as the count declares, `Marshal` gives back the body byte for
byte and `Length` its length; and the specification decoder recovers name, query and OIDs. -/
theorem pg_parse_roundtrip (name query : Bytes) (oids : List Nat) (hn : NoZero name)
    (hq : NoZero query) (hl : oids.length ≤ 65535) (ho : ∀ o ∈ oids, o < 2^32) :
    (∃ p, newParsePacket (encodeParse name query oids) = .ok p ∧
      p.name = name ++ [0] ∧ p.query = query ++ [0] ∧ p.paramsNum = beBytes 2 oids.length ∧
      p.params = oids.map (beBytes 4) ∧ p.params.length = oids.length ∧ paramsCount p.paramsNum = oids.length ∧
      p.marshal = encodeParse name query oids ∧ p.length = (encodeParse name query oids).length) ∧
    decodeParse (encodeParse name query oids) = some (name, query, oids) := by
  have hl' : oids.length < 2^16 := by omega
  obtain ⟨p, h1, h2, h3⟩ := marshal_newParsePacket name query oids hn hq hl' ho
  have h0 := newParsePacket_encodeParse name query oids hn hq hl' ho
  rw [h0] at h1
  cases h1
  refine ⟨⟨_, h0, rfl, rfl, rfl, rfl, by simp, ?_, h2, h3⟩, decodeParse_encodeParse name query oids hn hq hl' ho⟩
  rw [paramsCount_eq _ (by rw [beVal_beBytes2 _ hl']; omega), beVal_beBytes2 _ hl']

open AcraModel.Wire.Pg in
/-- **Rewritten Parse stays well-formed.** Whatever the proxy does to a well-formed Parse message with 0 … 65535
parameter types – the query observers replace the query text (`q = some text`), `replaceOIDsInParsePackets` re-types the
parameters selected by `sel` to `b` (bytea), both, or neither – the message it forwards is the well-framed Parse message
with the same statement name, the new (or same) query text and the re-typed (or same) parameter types: the declared
count equals the number of OIDs that follow and equals the count received, every parameter that is not selected keeps
its OID, the packet length is the length of the body + 4, and the specification decoder reads all of this back. When
nothing is replaced the packet is exactly the one received. -/
theorem rewrite_wellformed_pg_parse (name query lb : Bytes) (oids : List Nat) (q : Option Bytes) (sel : Nat → Bool)
    (b : Nat) (hn : NoZero name) (hq : NoZero query) (hl : oids.length ≤ 65535) (ho : ∀ o ∈ oids, o < 2^32)
    (hb : b < 2^32) (hq' : ∀ x, q = some x → NoZero x)
    (hsz : (encodeParse name (q.getD query) oids).length + 4 < 2^32) :
    ∃ p, handleParse ⟨80, lb, encodeParse name query oids⟩ q sel b = .ok p ∧
      ((q.isSome || (List.range oids.length).any sel) = true →
        marshal p = encodeMsg 80 (encodeParse name (q.getD query) (setParseOids oids sel b))) ∧
      ((q.isSome || (List.range oids.length).any sel) = false → p = ⟨80, lb, encodeParse name query oids⟩) ∧
      decodeParse p.body = some (name, q.getD query, setParseOids oids sel b) ∧
      (setParseOids oids sel b).length = oids.length ∧
      (∀ i o, oids[i]? = some o → (setParseOids oids sel b)[i]? = some (if sel i then b else o)) := by
  have hl' : oids.length < 2^16 := by omega
  have hqq : NoZero (q.getD query) := by
    cases q with
    | none => exact hq
    | some t => exact hq' t rfl
  have hdec := decodeParse_encodeParse name (q.getD query) (setParseOids oids sel b) hn hqq
    (by rw [setParseOids_length]; exact hl') (setParseOids_lt oids sel b ho hb)
  refine ⟨_, handleParse_wellformed name query lb oids q sel b hn hq hl' ho hq' hsz, ?_, ?_, ?_,
    setParseOids_length oids sel b, fun i o h => setParseOids_getElem? oids sel b i o h⟩
  · intro hc
    rw [if_pos hc]
    exact marshal_encodeMsg 80 _ (by decide)
  · intro hc
    rw [hc]
    rfl
  · cases hc : (q.isSome || (List.range oids.length).any sel) with
    | true => rw [if_pos rfl]; exact hdec
    | false =>
      rw [if_neg (by simp)]
      have h1 : q = none := by cases q <;> simp_all
      have h2 : (List.range oids.length).any sel = false := by cases q <;> simp_all
      subst h1
      rw [setParseOids_none oids sel b h2] at hdec ⊢
      exact hdec

open AcraModel.Wire.Pg in
/-- **Relay identity, Bind.** A well-formed Bind body is parsed into portal, statement, parameter formats,
parameter values (NULL ≠ empty) and result formats, and marshalled back to exactly its bytes. -/
theorem relay_identity_pg_bind (portal stmt : Bytes) (pf : List Nat) (pv : List (Option Bytes))
    (rf : List Nat) (hp : NoZero portal) (hs : NoZero stmt)
    (hpf : pf.length < 2^16 ∧ ∀ f ∈ pf, f < 2^16) (hrf : rf.length < 2^16 ∧ ∀ f ∈ rf, f < 2^16)
    (hpv : pv.length < 2^16 ∧ ∀ b, some b ∈ pv → b.length < 2^32 - 1) :
    ∃ p, newBindPacket (encodeBind portal stmt pf pv rf) = .ok p ∧
      BindPacket.marshal p = .ok (encodeBind portal stmt pf pv rf) :=
  marshal_newBindPacket_relay portal stmt pf pv rf hp hs hpf hrf hpv

open AcraModel.Wire.Pg in
/-- **Rewritten Bind stays well-formed.** For ANY per-parameter transformation `f` (NULL parameters stay
NULL) `GetParameters → SetParameters → ReplaceBind` yields exactly the well-framed Bind message with the
transformed parameters: portal, statement and result formats untouched, parameter count and NULL markers
preserved, every declared parameter length equal to the actual one, the packet length equal to the body
length + 4, and parameter formats that denote the same format for every parameter
(`formatByIndex i (canonFormats pf n) = formatByIndex i pf`). -/
theorem rewrite_wellformed_pg_bind (f : Nat → Bytes → Bytes)
    (g : Nat → Bool → Option Bytes → Out (Option Bytes))
    (hg : ∀ i b v, g i b v = .ok (v.map (f i)))
    (portal stmt lb : Bytes) (pf : List Nat) (pv : List (Option Bytes)) (rf : List Nat)
    (hp : NoZero portal) (hs : NoZero stmt)
    (hpf : pf.length < 2^16 ∧ ∀ f ∈ pf, f < 2^16) (hrf : rf.length < 2^16 ∧ ∀ f ∈ rf, f < 2^16)
    (hpv : pv.length < 2^16 ∧ ∀ b, some b ∈ pv → b.length < 2^32 - 1)
    (hpv' : ∀ b, some b ∈ mapRow f 0 pv → b.length < 2^32 - 1)
    (hne : pv ≠ [])
    (hfmt : ∀ i, i < pv.length → ∃ b, formatByIndex i pf = .ok b)
    (hsz : (encodeBind portal stmt (canonFormats pf pv.length) (mapRow f 0 pv) rf).length + 4 < 2^32) :
    (∃ p, rewriteBind g ⟨66, lb, encodeBind portal stmt pf pv rf⟩ = .ok p ∧
      marshal p = encodeMsg 66 (encodeBind portal stmt (canonFormats pf pv.length) (mapRow f 0 pv) rf)) ∧
    (∀ i, i < pv.length → formatByIndex i (canonFormats pf pv.length) = formatByIndex i pf) :=
  ⟨rewriteBind_marshal f g hg portal stmt lb pf pv rf hp hs hpf hrf hpv hpv' hne hfmt hsz,
   formatByIndex_canonFormats pf pv.length hfmt⟩

/-! ## part 3 — MySQL -/

open AcraModel.Wire.My in
/-- Facts from the regenerated constants the MySQL model relies on, and agreement of the two tables of
fixed-width types (`extractData` reads exactly the widths `NumericTypesStorageBytes` declares), and
presence of the bounds checks in front of every read of `extractData` (the model's `.err` branches). -/
theorem fact_my_constants :
    Generated.Wire.myPacketHeaderSize = 4 ∧ Generated.Wire.mySequenceIDIndex = 3 ∧
    Generated.Wire.myMaxPayloadLen = 2^24 - 1 ∧
    Generated.Wire.myOkPacket = 0 ∧ Generated.Wire.myEOFPacket = 254 ∧ Generated.Wire.myErrPacket = 255 ∧
    Generated.Wire.myExtractFixed = Generated.Wire.myNumericStorageBytes ∧
    (∀ t, t ∈ Generated.Wire.myExtractLenEnc → Generated.Wire.myExtractFixed.find? (·.1 = t) = none) ∧
    Generated.Wire.myExtractFixedGuarded = true ∧ Generated.Wire.myExtractLenEncGuarded = true := by decide

open AcraModel.Wire.My in
/-- **Relay identity, MySQL – partial.** A packet whose payload has 1 … 2^24-2 bytes, followed by any
bytes, is read and dumped byte-identically and the following bytes stay on the stream.

The full statement (every payload, including those of 2^24-1 bytes or more that travel as several
packets, and zero-length packets) is FALSE for the code as it is – see
`relay_identity_mysql_multi_counterexample` and `relay_identity_mysql_exact_counterexample`; the extra
hypotheses here are exactly the input classes of the known findings `my-multipacket-relay` and
`my-zero-length-packet`. -/
theorem relay_identity_mysql_partial (seq : Nat) (payload rest : Bytes)
    (h1 : 1 ≤ payload.length) (h2 : payload.length < maxPayloadLen) :
    ∃ p, read (frame seq payload ++ rest) = .ok (p, rest) ∧ dump p = frame seq payload :=
  dump_read_frame seq payload rest h1 h2

open AcraModel.Wire.My in
/-- **Counterexample (known finding `my-multipacket-relay`).** A payload of more than 2^24-1 bytes is
received as two packets; `readPacket` keeps only the last header and `Dump` writes that one header in
front of the whole payload: the relayed bytes are 4 bytes shorter than, and different from, the received ones. -/
theorem relay_identity_mysql_multi_counterexample (seq : Nat) (p1 p2 : Bytes) (hp1 : p1.length = maxPayloadLen)
    (h1 : 1 ≤ p2.length) (h2 : p2.length < maxPayloadLen) :
    encodePayload seq (p1 ++ p2) = frame seq p1 ++ frame (seq + 1) p2 ∧
    read (encodePayload seq (p1 ++ p2)) =
      .ok (⟨leBytes 3 p2.length ++ [UInt8.ofNat ((seq + 1) % 256)], p1 ++ p2⟩, []) ∧
    (dump ⟨leBytes 3 p2.length ++ [UInt8.ofNat ((seq + 1) % 256)], p1 ++ p2⟩).length + 4
      = (encodePayload seq (p1 ++ p2)).length ∧
    dump ⟨leBytes 3 p2.length ++ [UInt8.ofNat ((seq + 1) % 256)], p1 ++ p2⟩ ≠ encodePayload seq (p1 ++ p2) :=
  read_multi_not_identity seq p1 p2 hp1 h1 h2

open AcraModel.Wire.My in
/-- **Counterexample (known finding `my-multipacket-relay`, exact multiple).** A payload of exactly
2^24-1 bytes is followed by an empty packet on the wire; that packet is rejected, so the message is not relayed at all. -/
theorem relay_identity_mysql_exact_counterexample (seq : Nat) (p1 : Bytes) (hp1 : p1.length = maxPayloadLen) :
    read (encodePayload seq p1) = .err := read_multi_exact_err seq p1 hp1

open AcraModel.Wire.My in
/-- **`SetData` keeps the packet well-formed – partial** (payloads below 2^24-1 bytes): the dumped
packet is the 3-byte little-endian length, the unchanged sequence id and the new payload, and the
declared length equals the actual one. The full statement is false for larger payloads
(`setdata_mysql_counterexample`, known finding `my-setdata-16m`). -/
theorem rewrite_wellformed_mysql_setdata_partial (h old d : Bytes) (hd : d.length < maxPayloadLen) (hh : h.length = 4) :
    dump (setData ⟨h, old⟩ d) = leBytes 3 d.length ++ h.drop 3 ++ d ∧
    (h.drop 3).length = 1 ∧
    payloadLength (setData ⟨h, old⟩ d).header = d.length := setData_wellformed h old d hd hh

open AcraModel.Wire.My in
/-- **Counterexample (known finding `my-setdata-16m`).** For a rewritten payload of 2^24 bytes
`updatePacketSize` declares length 0. -/
theorem setdata_mysql_counterexample (h old d : Bytes) (hd : d.length = 16777216) (hh : h.length = 4) :
    payloadLength (setData ⟨h, old⟩ d).header = 0 := setData_truncates h old d hd hh

open AcraModel.Wire.My in
/-- **Rewritten COM_QUERY / COM_STMT_PREPARE stays well-formed.** `replaceQuery` keeps the command byte,
carries the new text and declares its length. -/
theorem rewrite_wellformed_mysql_query (h old q : Bytes) (c : UInt8) (hq : q.length + 1 < maxPayloadLen) (hh : h.length = 4) :
    replaceQuery ⟨h, c :: old⟩ q = .ok ⟨leBytes 3 (q.length + 1) ++ h.drop 3, c :: q⟩ ∧
    (h.drop 3).length = 1 ∧
    payloadLength (leBytes 3 (q.length + 1) ++ h.drop 3) = (c :: q).length := replaceQuery_wellformed h old q c hq hh

open AcraModel.Wire.My in
/-- **Text row round trip** of the specification codec (NULL = 0xfb, empty = 0x00, all length classes). -/
theorem mysql_text_row_roundtrip (r : Row) (h : ∀ b, some b ∈ r → b.length < 2^64) :
    decodeTextRow r.length (encodeTextRow r) = some r := decodeTextRow_encodeTextRow r h

open AcraModel.Wire.My in
/-- **Binary row round trip** of the specification codec (NULL bitmap with offset 2, fixed-width and
length-encoded values). -/
theorem mysql_bin_row_roundtrip (types : List Nat) (r : Row)
    (hlen : types.length = r.length)
    (hT : ∀ t, t ∈ types → widthOf t ≠ .unknown)
    (hV : ∀ t v, (t, some v) ∈ types.zip r →
      (∀ k, widthOf t = .fixed k → v.length = k) ∧ (widthOf t = .lenenc → v.length < 2^64)) :
    decodeBinRow types (encodeBinRow types r) = some r := decodeBinRow_encodeBinRow types r hlen hT hV

open AcraModel.Wire.My in
/-- **Rewritten text row stays well-formed (MySQL).** For ANY per-column transformation `f`, when the
subscribers return the length-encoded form of `f i v` (what `DataEncoderProcessor` does in the text
protocol), `processTextDataRow` yields a row that decodes to the transformed row: field count and NULL
markers preserved, declared lengths = actual lengths, untouched fields byte-identical. -/
theorem rewrite_wellformed_mysql_text (f : Nat → Bytes → Bytes) (r : Row)
    (h : ∀ b, some b ∈ r → b.length < 2^64) (hf : ∀ j b, some b ∈ r → (f j b).length < 2^64) :
    ∃ out, textRow (fun i v => .ok (putLengthEncodedString (some (f i v)))) r.length (encodeTextRow r) = .ok out
      ∧ out = encodeTextRow (mapRowMy f 0 r) ∧ decodeTextRow r.length out = some (mapRowMy f 0 r) := by
  obtain ⟨out, h1, h2⟩ := textRow_decodable f r h hf
  refine ⟨out, h1, ?_, h2⟩
  have := textRow_encodeTextRow f r h
  rw [h1] at this
  cases this
  rfl

open AcraModel.Wire.My in
/-- **Rewritten binary row stays well-formed (MySQL).** Same for `processBinaryDataRow`, for
transformations that keep the width of fixed-width columns: header byte, NULL bitmap and field order are
preserved and every value is in the wire form of its type. -/
theorem rewrite_wellformed_mysql_bin (types : List Nat) (f : Nat → Bytes → Bytes) (r : Row)
    (hlen : types.length = r.length)
    (hT : ∀ t, t ∈ types → widthOf t ≠ .unknown)
    (hV : ∀ t v, (t, some v) ∈ types.zip r →
      (∀ k, widthOf t = .fixed k → v.length = k) ∧ (widthOf t = .lenenc → v.length < 2^64))
    (hF : ∀ t v j, (t, some v) ∈ types.zip r →
      (∀ k, widthOf t = .fixed k → (f j v).length = k) ∧ (widthOf t = .lenenc → (f j v).length < 2^64)) :
    ∃ out, binRow (fun i v => .ok (encodeBinVal (types[i]!) (f i v))) types (encodeBinRow types r) = .ok out
      ∧ out = encodeBinRow types (mapRowMy f 0 r) ∧ decodeBinRow types out = some (mapRowMy f 0 r) := by
  obtain ⟨out, h1, h2⟩ := binRow_decodable types f r hlen hT hV hF
  refine ⟨out, h1, ?_, h2⟩
  have := binRow_encodeBinRow types f r hlen hT hV
  rw [h1] at this
  cases this
  rfl

/-! ## part 5 — MySQL column definitions -/

open AcraModel.Wire.My in
/-- Facts from the regenerated layout of `ParseResultField` / `Dump` the column-definition model relies on: the catalog
is skipped first, then the five strings in protocol order; the fixed block is guarded by a length check of exactly
its size (13 = marker + charset 2 + length 4 + type 1 + flags 2 + decimals 1 + filler 2, `fix:` 09) and read in that
order; `Dump` writes the same parts in the same order with the catalog `def`, the marker 0x0C and the default-value
length as a length-encoded integer (`fix:` 10); the extended-type-info and default-value lengths are bounds-checked. -/
theorem fact_coldef_layout :
    Generated.Wire.myColDefCatalogSkipped = true ∧
    Generated.Wire.myColDefStrings = ["Schema", "Table", "OrgTable", "Name", "OrgName"] ∧
    Generated.Wire.myColDefFixedParse = [("skip", 1), ("Charset", 2), ("ColumnLength", 4), ("Type", 1), ("Flag", 2), ("Decimal", 1), ("skip", 2)] ∧
    Generated.Wire.myColDefFixedGuard = (Generated.Wire.myColDefFixedParse.map (·.2)).sum ∧ fixedBlockLen = 13 ∧
    Generated.Wire.myColDefExtOffsetUsesN = true ∧ Generated.Wire.myColDefExtGuarded = true ∧
    Generated.Wire.myColDefDefaultGuardUint64 = true ∧
    Generated.Wire.myColDefCatalog = [100, 101, 102] ∧ Generated.Wire.myColDefMarker = 12 ∧
    Generated.Wire.myColDefDump = [("catalog", 0), ("Schema", 0), ("Table", 0), ("OrgTable", 0), ("Name", 0), ("OrgName", 0),
      ("extRaw", 0), ("extEmpty", 0), ("marker", 1), ("Charset", 2), ("ColumnLength", 4), ("Type", 1), ("Flag", 2), ("Decimal", 1),
      ("filler", 2), ("DefaultValueLength", 0), ("DefaultValue", 0)] := by decide

open AcraModel.Wire.My in
/-- The type configurations Acra writes into a re-typed column definition and the types for which it clears BlobFlag
(regenerated from `TypeConfigurations` / `specificTypes`). -/
theorem fact_coldef_types :
    Generated.Wire.myTypeConfigurations = [(3, 63, 9, 0), (8, 63, 20, 0), (252, 63, 65535, 0), (254, 8, 255, 0)] ∧
    Generated.Wire.mySpecificTypes = [254, 3, 8] ∧ Generated.Wire.myBlobFlag = 16 := by decide

open AcraModel.Wire.My in
/-- **coldef_no_panic.** `ParseResultField` never panics, whatever the packet (truncated anywhere, any declared
lengths, with or without the MariaDB extended-type-info capability): it returns a description or an error.
(True since `fix:` 09; before it a truncated definition panicked.) -/
theorem coldef_no_panic (p : Packet) (maria : Bool) : parseResultField p maria ≠ .panic :=
  parseResultField_no_panic p maria

open AcraModel.Wire.My in
/-- **coldef_roundtrip.** On every well-formed column definition (`encodeColDef s`: catalog `def`, canonical length
prefixes, NULL or present strings, with or without MariaDB extended type info – empty or not –, with or without a default
value) `ParseResultField` extracts exactly the fields of the definition, and `Dump` gives back the packet byte for
byte – both on the unchanged path (`Dump` of the description as parsed) and on the rebuild path (`changed = true`
with no field modified): `Dump ∘ Parse = id`. -/
theorem coldef_roundtrip (s : ColSpec) (h : Bytes) (hs : s.Ok) :
    parseResultField ⟨h, encodeColDef s⟩ s.ext.isSome = .ok (s.toColDef h) ∧
    (s.toColDef h).dump = h ++ encodeColDef s ∧
    ({ s.toColDef h with changed := true } : ColDef).dump = h ++ encodeColDef s :=
  ⟨parseResultField_encodeColDef s h hs, dump_unchanged s h, dump_changed s h⟩

open AcraModel.Wire.My in
/-- **Rewritten column definition stays well-formed (MySQL).** When `updateFieldEncodedType` re-types a well-formed
column definition to a type `nt` with a type configuration, the packet Acra sends is the header as received followed by
exactly the well-formed definition in which type, charset, column length and decimals are the configured ones and
BlobFlag is cleared for the "specific" types – every string, the extended type info, the other flags and the default
value byte-identical – and the payload has the SAME LENGTH as the one received, so the declared packet length
(which `Dump` does not recompute) is still the actual one. A column without a typed setting is relayed unchanged. -/
theorem rewrite_wellformed_mysql_coldef (s : ColSpec) (h : Bytes) (hs : s.Ok) (nt cs len dec : Nat)
    (hcfg : Generated.Wire.myTypeConfigurations.find? (·.1 = nt) = some (nt, cs, len, dec)) :
    (∃ f, parseResultField ⟨h, encodeColDef s⟩ s.ext.isSome = .ok f ∧
      (retype f (some nt)).dump = h ++ encodeColDef (retypeSpec s nt cs len dec) ∧
      (retype f (some nt)).originType = s.typ ∧
      (retype f none).dump = h ++ encodeColDef s) ∧
    (encodeColDef (retypeSpec s nt cs len dec)).length = (encodeColDef s).length :=
  ⟨⟨_, parseResultField_encodeColDef s h hs, (retype_dump s h nt cs len dec hcfg).2.2,
    (retype_dump s h nt cs len dec hcfg).2.1, dump_unchanged s h⟩,
   encodeColDef_length_retypeSpec s nt cs len dec⟩

open AcraModel.Wire.My in
/-- A parameter definition re-typed by `ParamsTrackHandler` differs from the received one in the type byte only. -/
theorem rewrite_wellformed_mysql_paramdef (s : ColSpec) (h : Bytes) (nt : Nat) :
    (retypeParam (s.toColDef h) (some nt)).dump = h ++ encodeColDef { s with typ := nt } ∧
    (encodeColDef { s with typ := nt }).length = (encodeColDef s).length :=
  ⟨retypeParam_dump s h nt, by simp [encodeColDef, List.length_append]⟩

open AcraModel.Wire.My in
/-- **Counterexample (known finding `my-coldef-stale-header`).** The hypothesis "canonical length prefixes" of
`rewrite_wellformed_mysql_coldef` cannot be dropped: a definition whose (empty) schema is sent with a 3-byte length prefix
parses, and after re-typing `Dump` rebuilds it two bytes shorter behind the unchanged header, which still declares 28. -/
theorem coldef_stale_header_counterexample :
    ∃ f, parseResultField ⟨[28, 0, 0, 1], [3, 100, 101, 102, 0xfc, 0, 0, 1, 116, 1, 116, 1, 99, 1, 99, 0x0c, 63, 0, 9, 0, 0, 0, 0xfc, 0, 0, 0, 0, 0]⟩ false = .ok f ∧
      payloadLength (retype f (some 3)).header = 28 ∧ (retype f (some 3)).dump.length = 4 + 26 := ⟨_, by rfl, by rfl, by rfl⟩

/-! ## part 6 — MySQL COM_STMT_EXECUTE parameters -/

open AcraModel.Wire.My in
/-- Facts from the regenerated sources the COM_STMT_EXECUTE model relies on: the parameter block starts at offset 10,
`GetBindParameters` has its two bounds checks (`fix:` 11), a changed value becomes a BLOB (252), the unsigned flag is
recomputed for LONG and LONGLONG only, and the three tables of numeric types agree (the Go type a value is read into,
the bit size it is parsed back with, and `NumericTypesStorageBytes`). -/
theorem fact_execute_tables :
    hdrLen = 10 ∧ Generated.Wire.myExecuteGuards = 2 ∧ changedType = 252 ∧ Generated.Wire.mySignFlagTypes = [3, 8] ∧
    Generated.Wire.myUnsignedBinaryValue = 128 ∧ Generated.Wire.mySignedBinaryValue = 0 ∧
    Generated.Wire.myBoundDecode = [(1, "int8"), (2, "int16"), (3, "int32"), (4, "float32"), (5, "float64"), (6, "null"),
      (8, "int64"), (9, "int32"), (13, "int16")] ∧
    Generated.Wire.myBoundEncode = [(1, "int", 8), (2, "int", 16), (3, "int", 32), (4, "float", 32), (5, "float", 64), (6, "null", 0),
      (8, "int", 64), (9, "int", 32), (13, "int", 16)] ∧
    (∀ t sb, storageBytes t = some sb →
      (decodeKind t = some (.int sb) ∧ encodeKind t = some (.int sb)) ∨
      (decodeKind t = some (.float sb) ∧ encodeKind t = some (.float sb)) ∨
      (decodeKind t = some .null ∧ encodeKind t = some .null ∧ sb = 0)) :=
  ⟨rfl, rfl, rfl, rfl, rfl, rfl, by decide, by decide, tables_agree⟩

open AcraModel.Wire.My in
/-- **Integer text round trip.** `strconv.ParseInt(strconv.FormatInt(i, 10), 10, bits) = i` for every `i` of the signed
`bits`-bit range, and writing back the integer read from `w` little-endian bytes gives those bytes: an integer
parameter Acra only looks at (as decimal text) comes back bit-identical. -/
theorem execute_int_text_roundtrip :
    (∀ (bits : Nat) (i : Int), -((2^(bits-1) : Nat) : Int) ≤ i → i < ((2^(bits-1) : Nat) : Int) → parseInt bits (fmtInt i) = some i) ∧
    (∀ (w : Nat) (b : Bytes), b.length = w → intBytes w (toSigned (8*w) (leVal b)) = b) :=
  ⟨parseInt_fmtInt, intBytes_toSigned⟩

open AcraModel.Wire.My in
/-- **One parameter through `NewMysqlBoundValue → SetData → Encode`.** (i) a fixed-width integer parameter (TINY, SHORT,
YEAR, LONG, INT24, LONGLONG) that is not changed is consumed with its storage width and re-encoded to exactly its
bytes; (ii) the same for FLOAT/DOUBLE whenever strconv's shortest-text round trip holds for the value (hypothesis
`fo.parse w (fo.fmt w raw) = some raw`: all finite values and infinities; NaN payloads are canonicalised – excluded);
(iii) a string-like parameter is consumed with exactly its length-encoded size, re-encoded identically when
unchanged, and – the rule of the code – travels as a BLOB (type 252) holding the length-encoded new value when changed. -/
theorem rewrite_wellformed_mysql_execute_value (fo : FloatOps) :
    (∀ t w raw rest, storageBytes t = some w → decodeKind t = some (.int w) → encodeKind t = some (.int w) → 0 < w →
      raw.length = w →
      ∃ v, newBoundValue fo (raw ++ rest) t = .ok (v, w) ∧ v.paramType = t ∧ (v.setData (v.data.getD [])) = v ∧ v.encode fo = .ok raw) ∧
    (∀ t w raw rest, storageBytes t = some w → decodeKind t = some (.float w) → encodeKind t = some (.float w) →
      raw.length = w → fo.parse w (fo.fmt w raw) = some raw →
      ∃ v, newBoundValue fo (raw ++ rest) t = .ok (v, w) ∧ v.paramType = t ∧ v.encode fo = .ok raw) ∧
    (∀ t b b' rest, storageBytes t = none → b.length < 2^64 →
      newBoundValue fo (putLengthEncodedString (some b) ++ rest) t = .ok (⟨t, some b⟩, (putLengthEncodedString (some b)).length) ∧
      ((⟨t, some b⟩ : BoundValue).setData b).encode fo = .ok (putLengthEncodedString (some b)) ∧
      (b' ≠ b → ((⟨t, some b⟩ : BoundValue).setData b').paramType = changedType ∧
        ((⟨t, some b⟩ : BoundValue).setData b').encode fo = .ok (putLengthEncodedString (some b')))) := by
  refine ⟨?_, ?_, ?_⟩
  · intro t w raw rest hs hd he hw hr
    obtain ⟨h1, h2⟩ := value_roundtrip_int fo t w raw rest hs hd he hw hr
    exact ⟨_, h1, rfl, by simp [BoundValue.setData], h2⟩
  · intro t w raw rest hs hd he hr hlaw
    obtain ⟨h1, h2⟩ := value_roundtrip_float fo t w raw rest hs hd he hr hlaw
    exact ⟨_, h1, rfl, h2⟩
  · intro t b b' rest hs hb
    obtain ⟨h1, _, h3, h4⟩ := value_roundtrip_str fo t b b' rest hs hb
    exact ⟨h1, h3, h4⟩

open AcraModel.Wire.My in
/-- **Rewritten COM_STMT_EXECUTE stays well-formed – partial (frame).** When `SetParameters` succeeds the new payload
begins with the first `10 + (n+7)/8 + 1` bytes of the received one (command, statement id, flags, iteration count, NULL
bitmap – so the NULL markers – and the new-params-bound flag are byte-identical), followed by exactly two bytes per
parameter (same parameter count) and the encodings of the non-NULL values; the header gets the new payload length
and keeps the sequence id.

The full statement (`rewriteExecute` of a specification-encoded packet = the specification encoding of the transformed
parameter list) is `rewrite_wellformed_mysql_execute` below; it needs the hypothesis `SignFlagsCanonical` because it is
FALSE for the unsigned flag of LONG/LONGLONG parameters – see `execute_sign_flag_counterexample` (known finding
`my-execute-sign-flag`). This frame statement holds for ANY packet and value list `SetParameters` accepts. -/
theorem rewrite_wellformed_mysql_execute_partial (fo : FloatOps) (p p' : Packet) (vs : List BoundValue) (hne : vs ≠ [])
    (h : setParameters fo p vs = .ok p') :
    ∃ types vals, p'.data = p.data.take (hdrLen + ((vs.length + 7) >>> 3) + 1) ++ types ++ vals ∧
      hdrLen + ((vs.length + 7) >>> 3) + 1 ≤ p.data.length ∧ types.length = 2 * vs.length ∧
      encodeVals fo vs = .ok vals ∧ p'.header = updatePacketSize p.header p'.data.length := by
  obtain ⟨types, vals, h1, h2, h3, h4, h5⟩ := setParameters_frame fo p p' vs hne h
  exact ⟨types, vals, h3, h4, setTypes_length _ _ _ _ h1, h2, h5⟩

open AcraModel.Wire.My in
/-- **execute_params_roundtrip (whole packet, read side).** On every COM_STMT_EXECUTE payload the specification encoder
writes – 10-byte head, NULL bitmap, new-params-bound flag, `n ≥ 1` (type, unsigned-flag) pairs, then the wire values of
the non-NULL parameters, each well-formed for its type (fixed-width numerics with their storage width, everything else a
length-encoded string) – `GetBindParameters` returns exactly the specification's parameter list: parameter `i` is NULL iff
bit `i` of the bitmap is set, every other parameter is read at the right offset with exactly its wire length, integers as
their signed decimal text, strings as their bytes. (The value loop is assembled by induction over the parameter list with
the bitmap; this was covered by correspondence only before.) -/
theorem execute_params_roundtrip (fo : FloatOps) (head : Bytes) (types : List (Nat × Nat)) (vals : List (Option Bytes))
    (hh : head.length = 10) (hl : types.length = vals.length) (hn : 0 < vals.length)
    (hty : ∀ tf ∈ types, tf.1 < 256)
    (hw : ∀ (j t f : Nat) (v : Bytes), types[j]? = some (t, f) → vals[j]? = some (some v) → WireOk t v) :
    getBindParameters fo (encodeExecute head types vals) vals.length = .ok (some (boundAll fo types vals)) ∧
    (boundAll fo types vals).length = vals.length ∧
    (∀ (j t f : Nat), types[j]? = some (t, f) → vals[j]? = some none → (boundAll fo types vals)[j]? = some ⟨t, none⟩) ∧
    (∀ (j t f : Nat) (v : Bytes), types[j]? = some (t, f) → vals[j]? = some (some v) →
      (boundAll fo types vals)[j]? = some (boundOf fo t (some v))) := by
  refine ⟨getBindParameters_encodeExecute fo head types vals hh hl hn hty hw, ?_, ?_, ?_⟩
  · clear hw hty hn hh
    induction vals generalizing types with
    | nil => cases types <;> rfl
    | cons v vs ih =>
      match types, hl with
      | tf :: ts, hl => simp [boundAll, ih ts (by simpa using hl)]
  · clear hw hty hn hh
    induction vals generalizing types with
    | nil => intro j t f _ h; simp at h
    | cons v vs ih =>
      match types, hl with
      | tf :: ts, hl =>
        intro j t f h1 h2
        cases j with
        | zero =>
          simp only [List.getElem?_cons_zero, Option.some.injEq] at h1 h2
          subst h1; subst h2
          rfl
        | succ j => simpa [boundAll] using ih ts (by simpa using hl) j t f (by simpa using h1) (by simpa using h2)
  · clear hw hty hn hh
    induction vals generalizing types with
    | nil => intro j t f v _ h; simp at h
    | cons v vs ih =>
      match types, hl with
      | tf :: ts, hl =>
        intro j t f x h1 h2
        cases j with
        | zero =>
          simp only [List.getElem?_cons_zero, Option.some.injEq] at h1 h2
          subst h1; subst h2
          rfl
        | succ j => simpa [boundAll] using ih ts (by simpa using hl) j t f x (by simpa using h1) (by simpa using h2)

open AcraModel.Wire.My in
/-- **Rewritten COM_STMT_EXECUTE stays well-formed – whole packet.** For every COM_STMT_EXECUTE payload the specification
encoder writes (`encodeExecute head types vals`: `n ≥ 1` parameters, every wire value well-formed for its type) and every
observer that maps the TEXT value of parameter `i` to `f i text`, `GetBindParameters → OnBind → SetParameters` yields the
packet whose payload is EXACTLY the specification encoding of the rewritten parameter list, with the new payload length
in the header and the sequence id kept:
* the 10-byte head, the parameter count, the NULL bitmap and the new-params-bound flag are the ones received (NULL
  parameters stay NULL, no other parameter becomes NULL);
* a parameter the observer does not change keeps its type, its unsigned flag and its value bytes – integers and floats
  bit-identical after the round trip through decimal text;
* a parameter the observer changes travels as a BLOB (type 252, flag kept) holding the length-encoded new text.
Hypotheses beyond well-formedness: `FloatLaw` (strconv's shortest-text round trip for the FLOAT/DOUBLE values present:
all finite values and infinities) and `SignFlagsCanonical` – the complement of the input class of the known finding
`my-execute-sign-flag`, for which the statement is false (`execute_sign_flag_counterexample`). -/
theorem rewrite_wellformed_mysql_execute (fo : FloatOps) (f : Nat → Bytes → Bytes) (g : Nat → Bytes → Out Bytes)
    (hg : ∀ i d, g i d = .ok (f i d)) (h head : Bytes) (types : List (Nat × Nat)) (vals : List (Option Bytes))
    (hh : head.length = 10) (hl : types.length = vals.length) (hn : 0 < vals.length)
    (hty : ∀ tf ∈ types, tf.1 < 256 ∧ tf.2 < 256)
    (hw : ∀ (j t fl : Nat) (v : Bytes), types[j]? = some (t, fl) → vals[j]? = some (some v) → WireOk t v)
    (hlaw : FloatLaw fo types vals) (hsf : SignFlagsCanonical types vals) :
    ∃ p', rewriteExecute fo g ⟨h, encodeExecute head types vals⟩ vals.length = .ok (some p') ∧
      p'.data = encodeExecute head (outTypes fo f 0 types vals) (outVals fo f 0 types vals) ∧
      p'.header = updatePacketSize h p'.data.length ∧
      (outTypes fo f 0 types vals).length = vals.length ∧ (outVals fo f 0 types vals).length = vals.length ∧
      (∀ j : Nat, (outVals fo f 0 types vals)[j]? = some none ↔ vals[j]? = some none) ∧
      (∀ (j t fl : Nat) (v : Option Bytes), types[j]? = some (t, fl) → vals[j]? = some v →
        (changedAt fo f j t v = false →
          (outTypes fo f 0 types vals)[j]? = some (t, fl) ∧ (outVals fo f 0 types vals)[j]? = some v) ∧
        (changedAt fo f j t v = true →
          (outTypes fo f 0 types vals)[j]? = some (changedType, fl) ∧
          (outVals fo f 0 types vals)[j]? = some ((boundOf fo t v).data.map (f j)))) := by
  refine ⟨_, rewriteExecute_encodeExecute fo f g hg h head types vals hh hl hn hty hw hlaw hsf, rfl, rfl,
    outTypes_length fo f 0 types vals hl, outVals_length fo f 0 types vals hl,
    fun j => outVals_none_iff fo f 0 types vals hl j, ?_⟩
  intro j t fl v h1 h2
  have ht := outTypes_getElem? fo f 0 types vals j t fl v h1 h2
  have hv := outVals_getElem? fo f 0 types vals j t fl v h1 h2
  rw [Nat.zero_add] at ht hv
  constructor
  · intro hc
    rw [hc] at ht hv
    exact ⟨ht, hv⟩
  · intro hc
    rw [hc] at ht hv
    exact ⟨ht, hv⟩

open AcraModel.Wire.My in
/-- **Counterexample (known finding `my-execute-sign-flag`).** "Fields that were not transformed keep their exact
bytes" fails for the unsigned flag: in an execute whose second (string) parameter is changed, the untouched first
parameter – LONG, flagged unsigned (0x80), bytes ff ff ff ff = 4294967295 – is sent on with the flag 0x00 (signed):
the database receives -1. First conjunct: the value is read as the text "-1"; second: `SetParameters` on the values
after the observer changed parameter 1 (for every float codec: no float parameter is involved). -/
theorem execute_sign_flag_counterexample (fo : FloatOps) :
    newBoundValue fo [0xff, 0xff, 0xff, 0xff, 1, 65] 3 = .ok (⟨3, some [45, 49]⟩, 4) ∧
    setParameters fo ⟨[23, 0, 0, 5], [0x17, 1, 0, 0, 0, 0, 1, 0, 0, 0, 0, 1, 3, 0x80, 0xfd, 0, 0xff, 0xff, 0xff, 0xff, 1, 65]⟩
        [⟨3, some [45, 49]⟩, (⟨0xfd, some [65]⟩ : BoundValue).setData [90]]
      = .ok ⟨[22, 0, 0, 5], [0x17, 1, 0, 0, 0, 0, 1, 0, 0, 0, 0, 1, 3, 0x00, 0xfc, 0, 0xff, 0xff, 0xff, 0xff, 1, 90]⟩ := by
  constructor
  · have h := (value_roundtrip_int fo 3 4 [0xff, 0xff, 0xff, 0xff] [1, 65] (by decide) (by decide) (by decide) (by decide) rfl).1
    have ht : toSigned (8 * 4) (leVal [0xff, 0xff, 0xff, 0xff]) = -1 := by decide
    have hf : fmtInt (-1) = [45, 49] := by
      unfold fmtInt
      rw [if_pos (by decide), natDec]
      rfl
    rw [ht, hf] at h
    exact h
  · rfl

open AcraModel.Wire.My in
/-- **COM_STMT_EXECUTE handling never panics**: `GetBindParameters` on any packet with any parameter count, and the whole
`GetBindParameters → OnBind → SetParameters` rewrite with any (non-panicking) observer. (True since `fix:` 11.) -/
theorem mysql_execute_no_panic (fo : FloatOps) (g : Nat → Bytes → Out Bytes) (hg : ∀ i d, g i d ≠ .panic) (p : Packet) (n : Nat) :
    getBindParameters fo p.data n ≠ .panic ∧ rewriteExecute fo g p n ≠ .panic :=
  ⟨getBindParameters_no_panic fo p.data n, rewriteExecute_no_panic fo g hg p n⟩

/-! ## part 7 — PostgreSQL RowDescription / ParameterDescription -/

open AcraModel.Wire.Pg in
/-- Facts from the regenerated sources the description model relies on: the pgproto3 member layout of a field
description (18 bytes after the zero-terminated name, the data type OID at member 2), the only members Acra assigns
(`Fields[i].DataTypeOID`, `ParameterOIDs[i]`), and that it replaces the body behind the 5-byte prefix of the re-encoded
message without recomputing the packet's length buffer. -/
theorem fact_pg_describe :
    fdLayout = [("TableOID", 4), ("TableAttributeNumber", 2), ("DataTypeOID", 4), ("DataTypeSize", 2), ("TypeModifier", 4), ("Format", 2)] ∧
    layoutLen fdLayout = fdFixedLen ∧ fdFixedLen = 18 ∧ oidIndex = 2 ∧
    Generated.Wire.pgRowDescAssigned = ["Fields[i].DataTypeOID"] ∧ Generated.Wire.pgParamDescAssigned = ["ParameterOIDs[i]"] ∧
    Generated.Wire.pgHandleRowDescriptionSkip = 5 ∧ Generated.Wire.pgHandleParameterDescriptionSkip = 5 ∧
    Generated.Wire.pgHandleRowDescriptionUpdatesLength = false ∧ Generated.Wire.pgHandleParameterDescriptionUpdatesLength = false ∧
    Generated.Wire.pgMessageTypes.lookup "RowDescriptionType" = some 84 ∧
    Generated.Wire.pgMessageTypes.lookup "ParameterDescriptionType" = some 116 := by decide

open AcraModel.Wire.Pg in
/-- **RowDescription / ParameterDescription round trip** of the pgproto3 codec Acra uses, on protocol-conformant
messages (names without zero bytes, members within their widths, at most 65535 entries). -/
theorem pg_describe_roundtrip :
    (∀ (fs : List FieldDesc) (b : Bytes), (∀ f ∈ fs, FieldOk f) → encodeRowDesc fs = some b → decodeRowDesc b = some fs) ∧
    (∀ (oids : List Nat) (b : Bytes), (∀ o ∈ oids, o < 2^32) → encodeParamDesc oids = some b → decodeParamDesc b = some oids) :=
  ⟨decodeRowDesc_encodeRowDesc, decodeParamDesc_encodeParamDesc⟩

open AcraModel.Wire.Pg in
/-- **rowdescription_rewrite_frame.** On a protocol-conformant RowDescription whose query items match its columns,
`handleRowDescription` keeps the type byte and the length buffer, and the new body is the encoding of the SAME field
list in which only the data type OID of the selected columns is replaced: the field count and the body length are
unchanged (so the untouched length buffer still declares the actual length), every column keeps its name and all
other members, and a column that is not selected is identical. -/
theorem rowdescription_rewrite_frame (t : UInt8) (lb b : Bytes) (fs : List FieldDesc) (its : List (Option Nat))
    (h : ∀ f ∈ fs, FieldOk f) (he : encodeRowDesc fs = some b) (hl : its.length = fs.length) :
    ∃ b', handleRowDescription ⟨t, lb, b⟩ (some its) = ⟨t, lb, b'⟩ ∧
      encodeRowDesc (setOids fs its) = some b' ∧ b'.length = b.length ∧
      (setOids fs its).length = fs.length ∧
      (∀ (i : Nat) (f : FieldDesc), fs[i]? = some f → (setOids fs its)[i]? = some (match (its[i]?).join with
          | some oid => { f with members := f.members.set oidIndex oid }
          | none => f)) ∧
      ((∀ o, some o ∈ its → o < 2^32) → decodeRowDesc b' = some (setOids fs its)) := by
  obtain ⟨b', h1, h2, h3⟩ := handleRowDescription_encode t lb b fs its h he hl
  exact ⟨b', h3, h1, h2, setOids_length fs its, fun i f hi => setOids_getElem fs its i f hi,
    fun ho => decodeRowDesc_encodeRowDesc _ _ (setOids_fieldOk fs its h ho) h1⟩

open AcraModel.Wire.Pg in
/-- **ParameterDescription rewrite frame.** Same for `handleParameterDescription`: type byte and length buffer kept, the
parameter count and the body length unchanged, parameter `i` gets the OID of its typed setting and every other
parameter keeps its OID. -/
theorem parameterdescription_rewrite_frame (t : UInt8) (lb b : Bytes) (oids : List Nat) (its : List (Option Nat))
    (ho : ∀ o ∈ oids, o < 2^32) (he : encodeParamDesc oids = some b) :
    ∃ b', handleParameterDescription ⟨t, lb, b⟩ (some its) = ⟨t, lb, b'⟩ ∧
      encodeParamDesc (setParamOids oids its) = some b' ∧ b'.length = b.length ∧
      (setParamOids oids its).length = oids.length ∧
      (∀ (i : Nat) (o : Nat), oids[i]? = some o → (setParamOids oids its)[i]? = some (((its[i]?).join).getD o)) := by
  obtain ⟨b', h1, h2, h3⟩ := handleParameterDescription_encode t lb b oids its ho he
  refine ⟨b', h3, h1, h2, setParamOids_length oids its, ?_⟩
  intro i o hi
  simp [setParamOids, List.getElem?_mapIdx, hi]

open AcraModel.Wire.Pg in
/-- **Relay identity of descriptions.** Without registered settings, with a column count that does not match, with a
body pgproto3 rejects, or when no column/parameter has a typed setting, the packet is left exactly as received. -/
theorem describe_relay_identity (p : Packet) (its : List (Option Nat)) :
    handleRowDescription p none = p ∧ handleParameterDescription p none = p ∧
    (decodeRowDesc p.body = none → handleRowDescription p (some its) = p) ∧
    (decodeParamDesc p.body = none → handleParameterDescription p (some its) = p) ∧
    (∀ fs, decodeRowDesc p.body = some fs → its.length ≠ fs.length → handleRowDescription p (some its) = p) ∧
    (∀ fs, decodeRowDesc p.body = some fs → its.any (·.isSome) = false → handleRowDescription p (some its) = p) := by
  refine ⟨rfl, rfl, ?_, ?_, ?_, ?_⟩
  · intro h; simp [handleRowDescription, h]
  · intro h; simp [handleParameterDescription, h]
  · intro fs h hn; simp [handleRowDescription, h, hn]
  · intro fs h hn; simp [handleRowDescription, h, hn]

/-! ## part 8 — columns without any setting through the decoder → encoder subscribers -/

/-- **Relay identity of the PostgreSQL subscriber chain – partial.** A column value for which no setting is matched and
that nobody decrypts leaves `PgSQLDataDecoderProcessor → PgSQLDataEncoderProcessor` exactly as it arrived – in either
result format, whether or not it looks like bytea hex / escape text (the decoder's decoded form is dropped and the saved
original is given back) – EXCEPT a text that starts with `\x` and is not valid hex, which makes the decoder fail and
the row is refused (known finding `pg-chain-hex-lookalike`; the second disjunct is exactly that input class). -/
theorem relay_identity_pg_chain_partial (binary : Bool) (d : Bytes) :
    Typed.pgChainNoSetting binary d = .ok d ∨
      (Wire.Bytea.decodeEscaped d = .error .hex ∧ Typed.pgChainNoSetting binary d = .err) :=
  Typed.pgChainNoSetting_identity binary d

/-- **Counterexample (known finding `pg-chain-hex-lookalike`).** The text `\xZZ` of a column without any setting is
not relayed: the row is refused. -/
theorem relay_identity_pg_chain_counterexample : Typed.pgChainNoSetting false [92, 120, 90, 90] = .err := by decide

/-- **Relay identity of the MySQL subscriber chain.** A column value without a setting leaves
`DataDecoderProcessor → DataEncoderProcessor` in the wire form it arrived in: text protocol – the length-encoded value,
for every column type; binary protocol – the length-encoded value for string/blob-like types, and for the fixed-width
integer types (TINY, SHORT, YEAR, INT24, LONG, LONGLONG) the very `k` bytes received (binary → decimal text → binary is
the identity on every `k`-byte pattern). FLOAT / DOUBLE columns are outside the model (strconv float formatting;
covered by the direct oracle `my-chain-identity-bin`). -/
theorem relay_identity_my_chain (t : Nat) (v : Bytes) :
    Typed.myChainNoSetting false t v = .ok (Typed.lenenc v) ∧
    (Typed.blobLike t → Typed.myChainNoSetting true t v = .ok (Typed.lenenc v)) ∧
    (∀ k, Typed.intWidth t = some k → v.length = k → Typed.myChainNoSetting true t v = .ok v) :=
  ⟨Typed.myChainNoSetting_text t v, fun hb => Typed.myChainNoSetting_blob t v hb,
   fun k hk hv => Typed.myChainNoSetting_int t k v hk hv⟩

/-! ## no panics (the modelled readers and rewriters, whatever the input; collected into C14 by the lead) -/

open AcraModel.Wire.Pg in
/-- **PostgreSQL framing never panics.** Whatever bytes arrive (any length field, also smaller than the
field itself; truncated streams), `readGeneralPacket`, `ReadPacket`, `readStartupPacket` return a packet
or an error. (True since the `fix:` that rejects negative data lengths; before it `Grow` panicked.) -/
theorem pg_read_no_panic (started : Bool) (s : Bytes) :
    readClient started s ≠ .panic ∧ readGeneral s ≠ .panic ∧ readStartup s ≠ .panic ∧ readDb s ≠ .panic :=
  ⟨readClient_no_panic started s, readGeneral_no_panic s, readStartup_no_panic s, readDb_no_panic s⟩

open AcraModel.Wire.Pg in
/-- **DataRow parsing and rewriting never panic**, whatever the body, the result formats and the
(non-panicking) subscribers. -/
theorem pg_row_no_panic (g : Nat → Bytes → Out Bytes) (hg : ∀ i d, g i d ≠ .panic) (fmts : List Nat) (p : Packet) :
    parseColumns p.body fmts ≠ .panic ∧ rewriteRow g fmts p ≠ .panic :=
  ⟨parseColumns_no_panic p.body fmts, rewriteRow_no_panic g fmts p hg⟩

open AcraModel.Wire.Pg in
/-- **Parse and Bind handling never panics**, whatever the packet body (truncated parameter counts, parameter
lists shorter than announced, missing terminators …) and the (non-panicking) observers. -/
theorem pg_parse_bind_no_panic (g : Nat → Bool → Option Bytes → Out (Option Bytes)) (hg : ∀ i b v, g i b v ≠ .panic)
    (data q : Bytes) (p : Packet) (oq : Option Bytes) (sel : Nat → Bool) (b : Nat) :
    newParsePacket data ≠ .panic ∧ replaceParseQuery p q ≠ .panic ∧ handleParse p oq sel b ≠ .panic ∧
    newBindPacket data ≠ .panic ∧ rewriteBind g p ≠ .panic :=
  ⟨newParsePacket_no_panic data, replaceParseQuery_no_panic p q, handleParse_no_panic p oq sel b,
   newBindPacket_no_panic data, rewriteBind_no_panic g hg p⟩

open AcraModel.Wire.My in
/-- **MySQL framing never panics** (`readPacket` over any stream, `replaceQuery` on any payload), and
`readPacket` terminates: it is defined by well-founded recursion on the bytes left. -/
theorem mysql_read_no_panic (s q : Bytes) (p : Packet) :
    readPacket s ≠ .panic ∧ read s ≠ .panic ∧ replaceQuery p q ≠ .panic :=
  ⟨readPacket_no_panic s, read_no_panic s, replaceQuery_no_panic p q⟩

open AcraModel.Wire.My in
/-- **MySQL row processing never panics**, for any row bytes (truncated values, short NULL bitmaps, declared
lengths beyond the row), any field list and any (non-panicking) subscribers. -/
theorem mysql_row_no_panic (g : Nat → Bytes → Out Bytes) (hg : ∀ i v, g i v ≠ .panic) (n : Nat) (types : List Nat) (row : Bytes) :
    textRow g n row ≠ .panic ∧ binRow g types row ≠ .panic :=
  ⟨textRow_no_panic g hg n row, binRow_no_panic g hg types row⟩

/-! ## part 4 — bytea text codecs -/

open AcraModel.Wire.Bytea in
/-- **bytea_hex_roundtrip.** `DecodeEscaped (PgEncodeToHex b) = b` for every byte string. -/
theorem bytea_hex_roundtrip (b : Bytes) : decodeEscaped (pgEncodeToHex b) = .ok b := decodeEscaped_pgEncodeToHex b

open AcraModel.Wire.Bytea in
/-- **bytea_octal_roundtrip.** `DecodeOctal (EncodeToOctal b) = b` for every byte string (backslashes
doubled, non-printable bytes as three octal digits), and `DecodeEscaped` takes the octal branch on it
(the escape form never starts with `\x`). -/
theorem bytea_octal_roundtrip (b : Bytes) :
    decodeOctal (encodeToOctal b) = some b ∧ decodeEscaped (encodeToOctal b) = .ok b :=
  ⟨decodeOctal_encodeToOctal b, decodeEscaped_encodeToOctal b⟩

open AcraModel.Wire.Bytea in
/-- The escape form consists of printable ASCII only, and hex decoding accepts exactly twice as many
digits as it returns bytes. -/
theorem bytea_forms (b : Bytes) :
    (∀ c ∈ encodeToOctal b, isPrintable c = true) ∧ (∀ s r, hexDecode s = some r → s.length = 2 * r.length) :=
  ⟨encodeToOctal_printable b, hexDecode_length⟩

/-! ## non-vacuity -/

/-- non-vacuity: the hypotheses are met by a concrete 300-byte value (0xfc branch) with a suffix -/
example : lengthEncodedString (putLengthEncodedString (some (List.replicate 300 7)) ++ [1, 2, 3])
    = .ok (some (List.replicate 300 7), (putLengthEncodedString (some (List.replicate 300 7))).length) :=
  lenenc_str_roundtrip _ _ (by intro b hb; cases hb; rw [List.length_replicate]; decide)

open AcraModel.Wire.Pg in
/-- non-vacuity of `rewrite_wellformed_pg`: a row with a value, a NULL and an empty value; the
transformation grows column 0 and empties column 2 -/
example : ∃ p, rewriteRow (fun i d => .ok (if i = 0 then d ++ [9, 9] else [])) [] ⟨68, [0, 0, 0, 21], encodeRow [some [1], none, some []]⟩ = .ok p
    ∧ decodeRow p.body = some [some [1, 9, 9], none, some []] := ⟨_, by rfl, by rfl⟩

open AcraModel.Wire.Pg in
/-- non-vacuity of `pg_parse_roundtrip` / `rewrite_wellformed_pg_parse`: the two count bytes `80 00` are the count 32768, and
a Parse message `("s", "select $1,$2", [23, 25])` whose query is replaced and whose first parameter is re-typed to bytea (17) -/
example : paramsCount [0x80, 0x00] = 32768 ∧
    (∃ p, handleParse ⟨80, [0, 0, 0, 0], encodeParse [115] [115, 101, 108] [23, 25]⟩ (some [113]) (fun i => i == 0) 17 = .ok p ∧
      decodeParse p.body = some ([115], [113], [17, 25]) ∧ p.lenBuf = [0, 0, 0, 18]) := ⟨by decide, _, by rfl, by rfl, by rfl⟩

open AcraModel.Wire.My in
/-- non-vacuity of the MySQL row theorems on a row with a NULL, an empty string and a value -/
example : decodeTextRow [none, some [], some [65]].length (encodeTextRow [none, some [], some [65]]) = some [none, some [], some [65]] :=
  mysql_text_row_roundtrip [none, some [], some [65]] (by
    intro b hb
    simp only [List.mem_cons, Option.some.injEq, List.not_mem_nil, or_false, reduceCtorEq, false_or] at hb
    rcases hb with rfl | rfl <;> decide)


open AcraModel.Wire.My in
/-- non-vacuity of `coldef_roundtrip` / `rewrite_wellformed_mysql_coldef`: a BLOB column `c` of table `t` with MariaDB
extended type info "json" and a default value, re-typed to LONG -/
example : ∃ s : ColSpec, s.Ok ∧ s.ext = some [0, 4, 106, 115, 111, 110] ∧ s.default = some [1, 2, 3] ∧
    Generated.Wire.myTypeConfigurations.find? (·.1 = 3) = some (3, 63, 9, 0) :=
  ⟨⟨some [], some [116], some [116], some [99], none, some [0, 4, 106, 115, 111, 110], 63, 65535, 252, 144, 0, some [1, 2, 3]⟩,
   ⟨by intro b hb; simp only [List.mem_cons, Option.some.injEq, List.not_mem_nil, or_false, reduceCtorEq] at hb
       rcases hb with rfl | rfl | rfl | rfl | hb <;> first | decide | exact absurd hb (by simp),
    by intro e he; cases he; decide, by decide, by decide, by decide, by decide, by decide,
    by intro d hd; cases hd; decide⟩, rfl, rfl, by decide⟩

open AcraModel.Wire.My in
/-- non-vacuity of `execute_params_roundtrip`: three parameters – the string "A", NULL, the blob "BC" -/
example : getBindParameters ⟨fun _ b => b, fun _ b => some b⟩
      ([0x17, 1, 0, 0, 0, 0, 1, 0, 0, 0] ++ [2] ++ [1] ++ [0xfd, 0, 6, 0, 0xfc, 0] ++ [1, 65, 2, 66, 67]) 3
    = .ok (some [⟨0xfd, some [65]⟩, ⟨6, none⟩, ⟨0xfc, some [66, 67]⟩]) ∧
    encodeExecute [0x17, 1, 0, 0, 0, 0, 1, 0, 0, 0] [(0xfd, 0), (6, 0), (0xfc, 0)] [some [65], none, some [66, 67]]
      = [0x17, 1, 0, 0, 0, 0, 1, 0, 0, 0] ++ [2] ++ [1] ++ [0xfd, 0, 6, 0, 0xfc, 0] ++ [1, 65, 2, 66, 67] := by
  constructor <;> rfl

open AcraModel.Wire.My in
/-- non-vacuity of `rewrite_wellformed_mysql_execute`: the string "A" is changed to "Z", the NULL and the blob "BC" are
kept – the first parameter becomes a BLOB (252), everything else is byte-identical; the hypotheses hold for this
execute (no float, no LONG/LONGLONG parameter) -/
example : rewriteExecute ⟨fun _ b => b, fun _ b => some b⟩ (fun i d => .ok (if i = 0 then [90] else d))
      ⟨[23, 0, 0, 1], encodeExecute [0x17, 1, 0, 0, 0, 0, 1, 0, 0, 0] [(0xfd, 0), (6, 0), (0xfc, 0)] [some [65], none, some [66, 67]]⟩ 3
    = .ok (some ⟨[23, 0, 0, 1], encodeExecute [0x17, 1, 0, 0, 0, 0, 1, 0, 0, 0] [(0xfc, 0), (6, 0), (0xfc, 0)] [some [90], none, some [66, 67]]⟩) ∧
    FloatLaw ⟨fun _ b => b, fun _ b => some b⟩ [(0xfd, 0), (6, 0), (0xfc, 0)] [some [65], none, some [66, 67]] ∧
    SignFlagsCanonical [(0xfd, 0), (6, 0), (0xfc, 0)] [some [65], none, some [66, 67]] := by
  refine ⟨by rfl, fun j t fl w v _ _ _ => rfl, ?_⟩
  intro j t fl sb v h1 _ h3 _
  exfalso
  have : j = 0 ∨ j = 1 ∨ j = 2 ∨ 3 ≤ j := by omega
  rcases this with rfl | rfl | rfl | hj
  · simp at h1; obtain ⟨rfl, _⟩ := h1; revert h3; decide
  · simp at h1; obtain ⟨rfl, _⟩ := h1; revert h3; decide
  · simp at h1; obtain ⟨rfl, _⟩ := h1; revert h3; decide
  · rw [List.getElem?_eq_none (by simpa using hj)] at h1; cases h1

open AcraModel.Wire.Pg in
/-- non-vacuity of `rowdescription_rewrite_frame`: two columns, the second re-typed to int4 (OID 23) -/
example : ∃ b', handleRowDescription ⟨84, [0, 0, 0, 50], (encodeRowDesc [⟨[105, 100], [1, 1, 23, 4, 0xffffffff, 0]⟩, ⟨[99], [1, 2, 17, 0xffff, 0xffffffff, 0]⟩]).getD []⟩ (some [none, some 23])
      = ⟨84, [0, 0, 0, 50], b'⟩ ∧ decodeRowDesc b' = some [⟨[105, 100], [1, 1, 23, 4, 0xffffffff, 0]⟩, ⟨[99], [1, 2, 23, 0xffff, 0xffffffff, 0]⟩] :=
  ⟨_, by rfl, by rfl⟩

end AcraModel.Props.C12
