import AcraModel.Envelope.Detector
import AcraModel.Envelope.ContainerLemmas
import AcraModel.Envelope.BlockLemmas
/-!
# C01 — protect-then-reveal returns the original bytes for the owning client

Property theorems only. Models: `AcraModel/Envelope/{AcraBlock,AcraStruct,Container,Detector}.lean`.
-/
namespace AcraModel.Props.C01
open AcraModel AcraModel.Envelope Generated

/-! ## facts the proofs need from the regenerated layout -/

/-- Sizes add up: the AcraStruct header is 8+45+84+8 = 145 bytes, the AcraBlock header 18, the
container header 12, and the field positions of the AcraBlock are consecutive. -/
theorem fact_layout_sizes :
    structMin = 145 ∧ structTagLen = 8 ∧ structPubLen = 45 ∧ structKeyBlockLen = 129 ∧ structDataLenSize = 8 ∧
    blockMin = 18 ∧ blockKeyPos = 18 ∧ containerMin = 12 ∧
    Layout.blockTagBeginSize = 4 ∧ Layout.blockRestAcraBlockLengthPosition = 4 ∧ Layout.blockRestAcraBlockLengthSize = 8 ∧
    Layout.blockKeyEncryptionKeyTypePosition = 12 ∧ Layout.blockKeyEncryptionKeyIDPosition = 13 ∧
    Layout.blockKeyEncryptionKeyIDSize = 2 ∧ Layout.blockDataEncryptionTypePosition = 15 ∧
    Layout.blockDataEncryptionKeyLengthPosition = 16 ∧ Layout.blockDataEncryptionKeyLengthSize = 2 ∧
    Layout.containerTagBeginSize = 3 ∧ Layout.containerLengthSize = 8 := by decide

/-- Tags and ids: eight `"` for the AcraStruct, its first four for the AcraBlock, `%%%` for the
container; envelope ids 0xF0 (AcraBlock) and 0xF1 (AcraStruct); only backend 0 is registered. -/
theorem fact_layout_tags :
    structTag = List.replicate 8 34 ∧ blockTag = List.replicate 4 34 ∧ containerTag = List.replicate 3 37 ∧
    idBlock = 240 ∧ idStruct = 241 ∧ Layout.blockKeyBackends = [0] ∧ Layout.blockDataBackends = [0] ∧
    Layout.blockKeyEncryptionBackendTypeSecureCell = 0 ∧ Layout.blockDataEncryptionBackendTypeSecureCell = 0 := by decide

/-! ## the serialized container -/

/-- Container round trip. Wrapping a non-empty envelope `e` of a registered kind into the serialized
container `%%% | length | id | e` succeeds, `deserialize` gives back exactly `e` and the id – also when
arbitrary bytes follow the container (it takes exactly the declared length) – and
`ExtractSerializedContainer` on the container followed by arbitrary bytes reports exactly the
container's length as the number of bytes to consume (the container handed to the callbacks is the
whole rest of the buffer, as in the code). `e.length + 12 < 2^63` keeps the Go `int` conversion of the
length field positive. -/
theorem container_roundtrip (e : Bytes) (id : UInt8) (he : e ≠ []) (hlen : e.length + 12 < 2^63)
    (hid : id = idBlock ∨ id = idStruct) :
    ∃ p, serialize e id = .ok p ∧ deserialize p = .ok (e, id) ∧ p.length = e.length + 12 ∧
      (∀ suffix, deserialize (p ++ suffix) = .ok (e, id)) ∧
      (∀ suffix, extractContainer (p ++ suffix) = .ok ((p.length : Int), p ++ suffix)) := by
  obtain ⟨k, hk⟩ := c01_kindOfId_some hid
  refine ⟨serBytes e id, c01_serialize_eq id he, ?_, ?_, ?_, ?_⟩
  · have := c01_deserialize_ser [] he hk (by omega)
    simpa using this
  · rw [c01_serBytes_length]; omega
  · intro suffix
    exact c01_deserialize_ser suffix he hk (by omega)
  · intro suffix
    exact c01_extractContainer_ser suffix he hk hlen

/-! ## AcraBlock (symmetric envelope), library calls -/

/-- With 32-byte hashes the key id stored in an AcraBlock really is 2 bytes. -/
theorem keyId_length (c : CryptoOps) (hh : HashLen c) (key ctx : Bytes) : (keyId c key ctx).length = 2 := by
  unfold keyId
  rw [List.length_take, hh.sha_len]
  decide

/-- `CreateAcraBlock` succeeds for every non-empty message below the 4 GiB limit of the AEAD, every
non-empty key and every context, as soon as the random source delivers its 56 bytes. -/
theorem block_create_total (c : CryptoOps) (hs : SealLaws c) (key ctx m rnd : Bytes)
    (hkey : key ≠ []) (hm : m ≠ []) (hml : m.length < maxMsgLen) (hr : 56 ≤ rnd.length) :
    ∃ b, createBlock c key ctx m rnd = .ok b := by
  have hn : nonceLen = 12 := rfl
  have hmax : maxMsgLen = 2^32 := rfl
  have h1 : c.enc (rnd.take 32) ctx m ((rnd.drop 32).take 12) ≠ none := by
    intro h
    rcases (hs.enc_none _ _ _ _).mp h with h | h | h | h
    · exact hm h
    · have := congrArg List.length h
      rw [List.length_take, List.length_nil] at this
      omega
    · simp [hn] at h; omega
    · omega
  have h2 : c.enc key ctx (rnd.take 32) ((rnd.drop 44).take 12) ≠ none := by
    intro h
    rcases (hs.enc_none _ _ _ _).mp h with h | h | h | h
    · have := congrArg List.length h
      rw [List.length_take, List.length_nil] at this
      omega
    · exact hkey h
    · simp [hn] at h; omega
    · simp [hmax] at h; omega
  cases h1' : c.enc (rnd.take 32) ctx m ((rnd.drop 32).take 12) with
  | none => exact absurd h1' h1
  | some encData =>
    cases h2' : c.enc key ctx (rnd.take 32) ((rnd.drop 44).take 12) with
    | none => exact absurd h2' h2
    | some encKey =>
      refine ⟨buildBlock (keyId c key ctx) encKey encData, ?_⟩
      unfold createBlock
      simp only [h1', h2']

/-- AcraBlock round trip through the library calls. If `CreateAcraBlock` produced `b` for message `m`
under `key` and context `ctx` (by `block_create_total` it does for every non-empty `m` below 4 GiB),
then (1) `ExtractAcraBlockFromData` finds exactly `b` at the start of `b` followed by arbitrary bytes,
and (2) `AcraBlock.Decrypt` with ANY key list that contains `key` returns exactly `m`, provided every
key listed before it either has a different 2-byte key id or does not unseal the wrapped data key.
Without key commitment nothing more can be said about earlier keys (an AEAD may accept a ciphertext
under two keys); this hypothesis is exactly the "id collides: try, and on failure go on to the next
key" logic of the code. `hkid` follows from `HashLen c` (`keyId_length`); the two length hypotheses
follow from `SealLen c` and are explicit so that the theorem also applies to instances with key
commitment. They are needed: an instance whose ciphertexts have 2^64 bytes or whose wrapped key has
65536 bytes satisfies `SealLaws`, but the 8-byte resp. 2-byte length fields would wrap around.
(`key ≠ []`, `m ≠ []`, `m.length < maxMsgLen`, `56 ≤ rnd.length` are implied by `hc`.) -/
theorem block_roundtrip (c : CryptoOps) (hs : SealLaws c) (key ctx m rnd b : Bytes) (pre post : List Bytes)
    (hkid : (keyId c key ctx).length = 2)
    (hEncKey : ∀ encKey, c.enc key ctx (rnd.take 32) ((rnd.drop 44).take 12) = some encKey → encKey.length < 65536)
    (hblen : b.length < 2^64)
    (hc : createBlock c key ctx m rnd = .ok b)
    (hpre : ∀ k' ∈ pre, ∀ encKey, c.enc key ctx (rnd.take 32) ((rnd.drop 44).take 12) = some encKey →
      keyId c k' ctx = keyId c key ctx → c.dec k' ctx encKey = none) :
    (∀ suffix, extractBlock (b ++ suffix) = .ok (b.length, b)) ∧
    decryptBlock c (pre ++ key :: post) ctx b = .ok m := by
  obtain ⟨encData, encKey, h1, h2, rfl⟩ := c01_createBlock_ok hc
  refine ⟨fun suffix => c01_extractBlock_build _ _ _ suffix hkid hblen, ?_⟩
  exact c01_decryptBlock_build c hs key ctx _ m encKey encData _ _ pre post hkid (hEncKey _ h2) h1 h2
    (fun k' hk' hid => Or.inl (hpre k' hk' encKey h2 hid))

/-- AcraBlock round trip under key commitment (`SealCommit`; deliberately no length law, see
`Crypto/Ops.lean`): a ciphertext is accepted under one key only, so nothing has to be assumed about
the other keys – ANY key list that contains the writer's key, at any position and with any other
keys (colliding 2-byte ids included) before it, decrypts the block to exactly `m`. -/
theorem block_roundtrip_commit (c : CryptoOps) (hs : SealLaws c) (hcm : SealCommit c)
    (key ctx m rnd b : Bytes) (keys : List Bytes)
    (hkid : (keyId c key ctx).length = 2)
    (hEncKey : ∀ encKey, c.enc key ctx (rnd.take 32) ((rnd.drop 44).take 12) = some encKey → encKey.length < 65536)
    (hblen : b.length < 2^64)
    (hc : createBlock c key ctx m rnd = .ok b) (hmem : key ∈ keys) :
    (∀ suffix, extractBlock (b ++ suffix) = .ok (b.length, b)) ∧
    decryptBlock c keys ctx b = .ok m := by
  obtain ⟨encData, encKey, h1, h2, rfl⟩ := c01_createBlock_ok hc
  refine ⟨fun suffix => c01_extractBlock_build _ _ _ suffix hkid hblen, ?_⟩
  obtain ⟨pre, post, rfl⟩ := List.append_of_mem hmem
  refine c01_decryptBlock_build c hs key ctx _ m encKey encData _ _ pre post hkid (hEncKey _ h2) h1 h2 ?_
  intro k' _ _
  cases hd : c.dec k' ctx encKey with
  | none => exact Or.inl rfl
  | some d =>
    obtain ⟨n, _, hn⟩ := hs.enc_of_dec _ _ _ _ hd
    obtain ⟨_, _, hdd⟩ := hcm.enc_inj _ _ _ _ _ _ _ _ _ hn h2
    exact Or.inr (by rw [hdd])

end AcraModel.Props.C01
