import AcraModel.Envelope.Detector
/-!
# C01 — protect-then-reveal returns the original bytes for the owning client

Property theorems only. Models: `AcraModel/Envelope/{AcraBlock,AcraStruct,Container,Detector}.lean`.
-/
namespace AcraModel.Props.C01
open AcraModel AcraModel.Envelope Generated

/-! ## facts the proofs need from the regenerated layout -/

/-- Sizes add up: the AcraStruct header is 8+45+84+8 = 145 bytes, the AcraBlock header 18, the
container header 12, and the field positions of the AcraBlock are consecutive. -/
theorem fact_layout_sizes :
    structMin = 145 ∧ structTagLen = 8 ∧ structPubLen = 45 ∧ structKeyBlockLen = 129 ∧ structDataLenSize = 8 ∧
    blockMin = 18 ∧ blockKeyPos = 18 ∧ containerMin = 12 ∧
    Layout.blockTagBeginSize = 4 ∧ Layout.blockRestAcraBlockLengthPosition = 4 ∧ Layout.blockRestAcraBlockLengthSize = 8 ∧
    Layout.blockKeyEncryptionKeyTypePosition = 12 ∧ Layout.blockKeyEncryptionKeyIDPosition = 13 ∧
    Layout.blockKeyEncryptionKeyIDSize = 2 ∧ Layout.blockDataEncryptionTypePosition = 15 ∧
    Layout.blockDataEncryptionKeyLengthPosition = 16 ∧ Layout.blockDataEncryptionKeyLengthSize = 2 ∧
    Layout.containerTagBeginSize = 3 ∧ Layout.containerLengthSize = 8 := by decide

/-- Tags and ids: eight `"` for the AcraStruct, its first four for the AcraBlock, `%%%` for the
container; envelope ids 0xF0 (AcraBlock) and 0xF1 (AcraStruct); only backend 0 is registered. -/
theorem fact_layout_tags :
    structTag = List.replicate 8 34 ∧ blockTag = List.replicate 4 34 ∧ containerTag = List.replicate 3 37 ∧
    idBlock = 240 ∧ idStruct = 241 ∧ Layout.blockKeyBackends = [0] ∧ Layout.blockDataBackends = [0] ∧
    Layout.blockKeyEncryptionBackendTypeSecureCell = 0 ∧ Layout.blockDataEncryptionBackendTypeSecureCell = 0 := by decide

end AcraModel.Props.C01
