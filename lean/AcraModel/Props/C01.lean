import AcraModel.Envelope.Detector
import AcraModel.Envelope.ContainerLemmas
/-!
# C01 — protect-then-reveal returns the original bytes for the owning client

Property theorems only. Models: `AcraModel/Envelope/{AcraBlock,AcraStruct,Container,Detector}.lean`.
-/
namespace AcraModel.Props.C01
open AcraModel AcraModel.Envelope Generated

/-! ## facts the proofs need from the regenerated layout -/

/-- Sizes add up: the AcraStruct header is 8+45+84+8 = 145 bytes, the AcraBlock header 18, the
container header 12, and the field positions of the AcraBlock are consecutive. -/
theorem fact_layout_sizes :
    structMin = 145 ∧ structTagLen = 8 ∧ structPubLen = 45 ∧ structKeyBlockLen = 129 ∧ structDataLenSize = 8 ∧
    blockMin = 18 ∧ blockKeyPos = 18 ∧ containerMin = 12 ∧
    Layout.blockTagBeginSize = 4 ∧ Layout.blockRestAcraBlockLengthPosition = 4 ∧ Layout.blockRestAcraBlockLengthSize = 8 ∧
    Layout.blockKeyEncryptionKeyTypePosition = 12 ∧ Layout.blockKeyEncryptionKeyIDPosition = 13 ∧
    Layout.blockKeyEncryptionKeyIDSize = 2 ∧ Layout.blockDataEncryptionTypePosition = 15 ∧
    Layout.blockDataEncryptionKeyLengthPosition = 16 ∧ Layout.blockDataEncryptionKeyLengthSize = 2 ∧
    Layout.containerTagBeginSize = 3 ∧ Layout.containerLengthSize = 8 := by decide

/-- Tags and ids: eight `"` for the AcraStruct, its first four for the AcraBlock, `%%%` for the
container; envelope ids 0xF0 (AcraBlock) and 0xF1 (AcraStruct); only backend 0 is registered. -/
theorem fact_layout_tags :
    structTag = List.replicate 8 34 ∧ blockTag = List.replicate 4 34 ∧ containerTag = List.replicate 3 37 ∧
    idBlock = 240 ∧ idStruct = 241 ∧ Layout.blockKeyBackends = [0] ∧ Layout.blockDataBackends = [0] ∧
    Layout.blockKeyEncryptionBackendTypeSecureCell = 0 ∧ Layout.blockDataEncryptionBackendTypeSecureCell = 0 := by decide

/-! ## the serialized container -/

/-- Container round trip. Wrapping a non-empty envelope `e` of a registered kind into the serialized
container `%%% | length | id | e` succeeds, `deserialize` gives back exactly `e` and the id – also when
arbitrary bytes follow the container (it takes exactly the declared length) – and
`ExtractSerializedContainer` on the container followed by arbitrary bytes reports exactly the
container's length as the number of bytes to consume (the container handed to the callbacks is the
whole rest of the buffer, as in the code). `e.length + 12 < 2^63` keeps the Go `int` conversion of the
length field positive. -/
theorem container_roundtrip (e : Bytes) (id : UInt8) (he : e ≠ []) (hlen : e.length + 12 < 2^63)
    (hid : id = idBlock ∨ id = idStruct) :
    ∃ p, serialize e id = .ok p ∧ deserialize p = .ok (e, id) ∧ p.length = e.length + 12 ∧
      (∀ suffix, deserialize (p ++ suffix) = .ok (e, id)) ∧
      (∀ suffix, extractContainer (p ++ suffix) = .ok ((p.length : Int), p ++ suffix)) := by
  obtain ⟨k, hk⟩ := c01_kindOfId_some hid
  refine ⟨serBytes e id, c01_serialize_eq id he, ?_, ?_, ?_, ?_⟩
  · have := c01_deserialize_ser [] he hk (by omega)
    simpa using this
  · rw [c01_serBytes_length]; omega
  · intro suffix
    exact c01_deserialize_ser suffix he hk (by omega)
  · intro suffix
    exact c01_extractContainer_ser suffix he hk hlen

end AcraModel.Props.C01
