import AcraModel.Envelope.Detector
import AcraModel.Envelope.ContainerLemmas
import AcraModel.Envelope.BlockLemmas
import AcraModel.Envelope.ProtectLemmas
import AcraModel.Envelope.ScanLemmas
import AcraModel.Envelope.ExampleOps
import AcraModel.Envelope.TranslatorLemmas
import AcraModel.Envelope.SearchWriteLemmas
import AcraModel.Envelope.SearchWriteBare
import AcraModel.Generated.SearchWrite
import AcraModel.Crypto.Box
/-!
# C01 — protect-then-reveal returns the original bytes for the owning client

Property theorems only. Models: `AcraModel/Envelope/{AcraBlock,AcraStruct,Container,Detector,Translator}.lean`
(the AcraTranslator operations reuse `Envelope/Poison.lean` and `Searchable/Index.lean`).
-/
namespace AcraModel.Props.C01
open AcraModel AcraModel.Envelope Generated

/-! ## facts the proofs need from the regenerated layout -/

/-- Sizes add up: the AcraStruct header is 8+45+84+8 = 145 bytes, the AcraBlock header 18, the
container header 12, and the field positions of the AcraBlock are consecutive. -/
theorem fact_layout_sizes :
    structMin = 145 ∧ structTagLen = 8 ∧ structPubLen = 45 ∧ structKeyBlockLen = 129 ∧ structDataLenSize = 8 ∧
    blockMin = 18 ∧ blockKeyPos = 18 ∧ containerMin = 12 ∧
    Layout.blockTagBeginSize = 4 ∧ Layout.blockRestAcraBlockLengthPosition = 4 ∧ Layout.blockRestAcraBlockLengthSize = 8 ∧
    Layout.blockKeyEncryptionKeyTypePosition = 12 ∧ Layout.blockKeyEncryptionKeyIDPosition = 13 ∧
    Layout.blockKeyEncryptionKeyIDSize = 2 ∧ Layout.blockDataEncryptionTypePosition = 15 ∧
    Layout.blockDataEncryptionKeyLengthPosition = 16 ∧ Layout.blockDataEncryptionKeyLengthSize = 2 ∧
    Layout.containerTagBeginSize = 3 ∧ Layout.containerLengthSize = 8 := by decide

/-- Tags and ids: eight `"` for the AcraStruct, its first four for the AcraBlock, `%%%` for the
container; envelope ids 0xF0 (AcraBlock) and 0xF1 (AcraStruct); only backend 0 is registered. -/
theorem fact_layout_tags :
    structTag = List.replicate 8 34 ∧ blockTag = List.replicate 4 34 ∧ containerTag = List.replicate 3 37 ∧
    idBlock = 240 ∧ idStruct = 241 ∧ Layout.blockKeyBackends = [0] ∧ Layout.blockDataBackends = [0] ∧
    Layout.blockKeyEncryptionBackendTypeSecureCell = 0 ∧ Layout.blockDataEncryptionBackendTypeSecureCell = 0 := by decide

/-! ## the serialized container -/

/-- Container round trip. Wrapping a non-empty envelope `e` of a registered kind into the serialized
container `%%% | length | id | e` succeeds, `deserialize` gives back exactly `e` and the id – also when
arbitrary bytes follow the container (it takes exactly the declared length) – and
`ExtractSerializedContainer` on the container followed by arbitrary bytes reports exactly the
container's length as the number of bytes to consume (the container handed to the callbacks is the
whole rest of the buffer, as in the code). `e.length + 12 < 2^63` keeps the Go `int` conversion of the
length field positive. -/
theorem container_roundtrip (e : Bytes) (id : UInt8) (he : e ≠ []) (hlen : e.length + 12 < 2^63)
    (hid : id = idBlock ∨ id = idStruct) :
    ∃ p, serialize e id = .ok p ∧ deserialize p = .ok (e, id) ∧ p.length = e.length + 12 ∧
      (∀ suffix, deserialize (p ++ suffix) = .ok (e, id)) ∧
      (∀ suffix, extractContainer (p ++ suffix) = .ok ((p.length : Int), p ++ suffix)) := by
  obtain ⟨k, hk⟩ := c01_kindOfId_some hid
  refine ⟨serBytes e id, c01_serialize_eq id he, ?_, ?_, ?_, ?_⟩
  · have := c01_deserialize_ser [] he hk (by omega)
    simpa using this
  · rw [c01_serBytes_length]; omega
  · intro suffix
    exact c01_deserialize_ser suffix he hk (by omega)
  · intro suffix
    exact c01_extractContainer_ser suffix he hk hlen

/-! ## AcraBlock (symmetric envelope), library calls -/

/-- With 32-byte hashes the key id stored in an AcraBlock really is 2 bytes. -/
theorem keyId_length (c : CryptoOps) (hh : HashLen c) (key ctx : Bytes) : (keyId c key ctx).length = 2 := by
  unfold keyId
  rw [List.length_take, hh.sha_len]
  decide

/-- `CreateAcraBlock` succeeds for every non-empty message below the 4 GiB limit of the AEAD, every
non-empty key and every context, as soon as the random source delivers its 56 bytes. -/
theorem block_create_total (c : CryptoOps) (hs : SealLaws c) (key ctx m rnd : Bytes)
    (hkey : key ≠ []) (hm : m ≠ []) (hml : m.length < maxMsgLen) (hr : 56 ≤ rnd.length) :
    ∃ b, createBlock c key ctx m rnd = .ok b := by
  have hn : nonceLen = 12 := rfl
  have hmax : maxMsgLen = 2^32 := rfl
  have h1 : c.enc (rnd.take 32) ctx m ((rnd.drop 32).take 12) ≠ none := by
    intro h
    rcases (hs.enc_none _ _ _ _).mp h with h | h | h | h
    · exact hm h
    · have := congrArg List.length h
      rw [List.length_take, List.length_nil] at this
      omega
    · simp [hn] at h; omega
    · omega
  have h2 : c.enc key ctx (rnd.take 32) ((rnd.drop 44).take 12) ≠ none := by
    intro h
    rcases (hs.enc_none _ _ _ _).mp h with h | h | h | h
    · have := congrArg List.length h
      rw [List.length_take, List.length_nil] at this
      omega
    · exact hkey h
    · simp [hn] at h; omega
    · simp [hmax] at h; omega
  cases h1' : c.enc (rnd.take 32) ctx m ((rnd.drop 32).take 12) with
  | none => exact absurd h1' h1
  | some encData =>
    cases h2' : c.enc key ctx (rnd.take 32) ((rnd.drop 44).take 12) with
    | none => exact absurd h2' h2
    | some encKey =>
      refine ⟨buildBlock (keyId c key ctx) encKey encData, ?_⟩
      unfold createBlock
      simp only [h1', h2']

/-- AcraBlock round trip through the library calls. If `CreateAcraBlock` produced `b` for message `m`
under `key` and context `ctx` (by `block_create_total` it does for every non-empty `m` below 4 GiB),
then (1) `ExtractAcraBlockFromData` finds exactly `b` at the start of `b` followed by arbitrary bytes,
and (2) `AcraBlock.Decrypt` with ANY key list that contains `key` returns exactly `m`, provided every
key listed before it either has a different 2-byte key id or does not unseal the wrapped data key.
Without key commitment nothing more can be said about earlier keys (an AEAD may accept a ciphertext
under two keys); this hypothesis is exactly the "id collides: try, and on failure go on to the next
key" logic of the code. `hkid` follows from `HashLen c` (`keyId_length`); the two length hypotheses
follow from `SealLen c` and are explicit so that the theorem also applies to instances with key
commitment. They are needed: an instance whose ciphertexts have 2^64 bytes or whose wrapped key has
65536 bytes satisfies `SealLaws`, but the 8-byte resp. 2-byte length fields would wrap around.
(`key ≠ []`, `m ≠ []`, `m.length < maxMsgLen`, `56 ≤ rnd.length` are implied by `hc`.) -/
theorem block_roundtrip (c : CryptoOps) (hs : SealLaws c) (key ctx m rnd b : Bytes) (pre post : List Bytes)
    (hkid : (keyId c key ctx).length = 2)
    (hEncKey : ∀ encKey, c.enc key ctx (rnd.take 32) ((rnd.drop 44).take 12) = some encKey → encKey.length < 65536)
    (hblen : b.length < 2^64)
    (hc : createBlock c key ctx m rnd = .ok b)
    (hpre : ∀ k' ∈ pre, ∀ encKey, c.enc key ctx (rnd.take 32) ((rnd.drop 44).take 12) = some encKey →
      keyId c k' ctx = keyId c key ctx → c.dec k' ctx encKey = none) :
    (∀ suffix, extractBlock (b ++ suffix) = .ok (b.length, b)) ∧
    decryptBlock c (pre ++ key :: post) ctx b = .ok m := by
  obtain ⟨encData, encKey, h1, h2, rfl⟩ := c01_createBlock_ok hc
  refine ⟨fun suffix => c01_extractBlock_build _ _ _ suffix hkid hblen, ?_⟩
  exact c01_decryptBlock_build c hs key ctx _ m encKey encData _ _ pre post hkid (hEncKey _ h2) h1 h2
    (fun k' hk' hid => Or.inl (hpre k' hk' encKey h2 hid))

/-- AcraBlock round trip under key commitment (`SealCommit`; deliberately no length law, see
`Crypto/Ops.lean`): a ciphertext is accepted under one key only, so nothing has to be assumed about
the other keys – ANY key list that contains the writer's key, at any position and with any other
keys (colliding 2-byte ids included) before it, decrypts the block to exactly `m`. -/
theorem block_roundtrip_commit (c : CryptoOps) (hs : SealLaws c) (hcm : SealCommit c)
    (key ctx m rnd b : Bytes) (keys : List Bytes)
    (hkid : (keyId c key ctx).length = 2)
    (hEncKey : ∀ encKey, c.enc key ctx (rnd.take 32) ((rnd.drop 44).take 12) = some encKey → encKey.length < 65536)
    (hblen : b.length < 2^64)
    (hc : createBlock c key ctx m rnd = .ok b) (hmem : key ∈ keys) :
    (∀ suffix, extractBlock (b ++ suffix) = .ok (b.length, b)) ∧
    decryptBlock c keys ctx b = .ok m := by
  obtain ⟨encData, encKey, h1, h2, rfl⟩ := c01_createBlock_ok hc
  refine ⟨fun suffix => c01_extractBlock_build _ _ _ suffix hkid hblen, ?_⟩
  obtain ⟨pre, post, rfl⟩ := List.append_of_mem hmem
  refine c01_decryptBlock_build c hs key ctx _ m encKey encData _ _ pre post hkid (hEncKey _ h2) h1 h2 ?_
  intro k' _ _
  cases hd : c.dec k' ctx encKey with
  | none => exact Or.inl rfl
  | some d =>
    obtain ⟨n, _, hn⟩ := hs.enc_of_dec _ _ _ _ hd
    obtain ⟨_, _, hdd⟩ := hcm.enc_inj _ _ _ _ _ _ _ _ _ hn h2
    exact Or.inr (by rw [hdd])

/-! ## the registry handler: `protect` (EncryptWithClientID) and `reveal` (Process) -/

/-- Input that already is a protected value – an envelope of the requested kind or a serialized
container the registry recognises – is returned unchanged by `protect`, whatever the keys and the
random stream: it is never wrapped a second time. -/
theorem protect_passthrough (c : CryptoOps) (kv : KeyView) (k : Kind) (d rnd : Bytes)
    (h : matchKind k d = true ∨ registryMatch d = true) : protect c kv k d rnd = .ok d :=
  c01_protect_of_match c kv k d rnd h

/-- If `protect` returned something different from its input, the input was not recognised as
protected (so the handler of kind `k` really ran). -/
theorem protect_ne_input (c : CryptoOps) (kv : KeyView) (k : Kind) (m rnd p : Bytes)
    (hp : protect c kv k m rnd = .ok p) (hne : p ≠ m) : matchKind k m = false ∧ registryMatch m = false := by
  refine ⟨?_, ?_⟩
  · cases h : matchKind k m with
    | false => rfl
    | true => rw [c01_protect_of_match c kv k m rnd (Or.inl h)] at hp; cases hp; exact absurd rfl hne
  · cases h : registryMatch m with
    | false => rfl
    | true => rw [c01_protect_of_match c kv k m rnd (Or.inr h)] at hp; cases hp; exact absurd rfl hne

/-- A value protected as AcraBlock is never wrapped a second time: whatever `protect` produced for
`m` (if it is not `m` itself, i.e. `m` was not already protected) is passed through unchanged by every
further `protect`, for either envelope kind, any client's keys and any random stream. No crypto law is
needed; the length hypotheses are those of `block_roundtrip` (`p.length < 2^63` is the container's
length, it follows from `SealLen c` and `m.length < 2^32`). -/
theorem protect_idempotent_block (c : CryptoOps) (kv : KeyView) (key m rnd p : Bytes)
    (hW : kv.sym = some key) (hkid : (keyId c key []).length = 2) (hplen : p.length < 2^63)
    (hp : protect c kv .block m rnd = .ok p) (hne : p ≠ m) :
    ∀ (k' : Kind) (kv' : KeyView) (rnd' : Bytes), protect c kv' k' p rnd' = .ok p := by
  obtain ⟨hnm, hnr⟩ := protect_ne_input c kv .block m rnd p hp hne
  obtain ⟨e, he, hne', rfl⟩ := c01_protect_ok hp hnm hnr
  obtain ⟨key', hk', hcb⟩ := c01_encryptKind_block he hnm
  rw [hW] at hk'; cases hk'
  obtain ⟨encData, encKey, _, _, rfl⟩ := c01_createBlock_ok hcb
  rw [c01_serBytes_length] at hplen
  intro k' kv' rnd'
  apply c01_protect_of_match
  right
  have hx := c01_extractBlock_build (keyId c key []) encKey encData [] hkid (by omega)
  rw [List.append_nil] at hx
  have := c01_registryMatch_ser .block _ [] hne' (by omega) (by simp [matchKind, hx, Out.isOk])
  simpa using this

/-- Protect-then-reveal for the AcraBlock kind through the registry handler. The writer's key view
`kvW` and the reader's `kvR` may differ in everything, as long as the reader's list of symmetric keys
contains the writer's current key somewhere – in particular a value written before any number of key
rotations stays readable. Earlier keys in the reader's list must not accidentally unseal the wrapped
data key when their 2-byte id collides (see `block_roundtrip`; `reveal_protect_block_commit` removes
this hypothesis under key commitment). The context is empty, as in the handlers. -/
theorem reveal_protect_block (c : CryptoOps) (hs : SealLaws c) (kvW kvR : KeyView) (key m rnd p : Bytes)
    (pre post : List Bytes)
    (hkid : (keyId c key []).length = 2)
    (hW : kvW.sym = some key) (hR : kvR.syms = some (pre ++ key :: post))
    (hpre : ∀ k' ∈ pre, ∀ encKey, c.enc key [] (rnd.take 32) ((rnd.drop 44).take 12) = some encKey →
      keyId c k' [] = keyId c key [] → c.dec k' [] encKey = none)
    (hEncKey : ∀ encKey, c.enc key [] (rnd.take 32) ((rnd.drop 44).take 12) = some encKey → encKey.length < 65536)
    (hplen : p.length < 2^63)
    (hnm : matchKind .block m = false) (hnr : registryMatch m = false)
    (hp : protect c kvW .block m rnd = .ok p) : reveal c kvR p = .ok m := by
  obtain ⟨e, he, hne', rfl⟩ := c01_protect_ok hp hnm hnr
  obtain ⟨key', hk', hcb⟩ := c01_encryptKind_block he hnm
  rw [hW] at hk'; cases hk'
  rw [c01_serBytes_length] at hplen
  obtain ⟨hx, hd⟩ := block_roundtrip c hs key [] m rnd e pre post hkid hEncKey (by omega) hcb hpre
  have hx0 := hx []
  rw [List.append_nil] at hx0
  have := c01_process_ser c kvR .block e [] hne' (by omega) (by simp [matchKind, hx0, Out.isOk])
  rw [List.append_nil] at this
  unfold reveal
  rw [this]
  exact c01_decryptKind_block c kvR e m _ hx0 hR hd

/-- Protect-then-reveal for AcraBlocks under key commitment: the reader's key list only has to
contain the writer's key; nothing is assumed about the other keys. -/
theorem reveal_protect_block_commit (c : CryptoOps) (hs : SealLaws c) (hcm : SealCommit c) (kvW kvR : KeyView)
    (key m rnd p : Bytes) (keys : List Bytes)
    (hkid : (keyId c key []).length = 2)
    (hW : kvW.sym = some key) (hR : kvR.syms = some keys) (hmem : key ∈ keys)
    (hEncKey : ∀ encKey, c.enc key [] (rnd.take 32) ((rnd.drop 44).take 12) = some encKey → encKey.length < 65536)
    (hplen : p.length < 2^63)
    (hnm : matchKind .block m = false) (hnr : registryMatch m = false)
    (hp : protect c kvW .block m rnd = .ok p) : reveal c kvR p = .ok m := by
  obtain ⟨e, he, hne', rfl⟩ := c01_protect_ok hp hnm hnr
  obtain ⟨key', hk', hcb⟩ := c01_encryptKind_block he hnm
  rw [hW] at hk'; cases hk'
  rw [c01_serBytes_length] at hplen
  obtain ⟨hx, hd⟩ := block_roundtrip_commit c hs hcm key [] m rnd e keys hkid hEncKey (by omega) hcb hmem
  have hx0 := hx []
  rw [List.append_nil] at hx0
  have := c01_process_ser c kvR .block e [] hne' (by omega) (by simp [matchKind, hx0, Out.isOk])
  rw [List.append_nil] at this
  unfold reveal
  rw [this]
  exact c01_decryptKind_block c kvR e m _ hx0 hR hd

/-! ## the transparent column processor (`EnvelopeDetector.OnColumn`)

`headStep cbs rest` (in `Envelope/ScanLemmas.lean`) is the decision one loop iteration takes on
`rest = inBuffer[inIndex:]`: `skip` (copy one byte), `replace p n` (emit `p`, advance `n`), `fatal`,
`panic`. `procAt cbs rest p n` is the condition under which it replaces: `rest` starts with `%%%`,
`ExtractSerializedContainer` succeeds with `0 < n ≤ |rest|`, and the callbacks replace the container
by `p`. -/

/-- Embedded envelope, general form. If no position inside `pre` is processed (each one is skipped:
not replaced, not fatal, no panic) and the loop processes `C` at the head of `C ++ suf` to `m`,
consuming exactly `C.length` bytes, then scanning `pre ++ C ++ suf` gives `pre ++ m` followed by the
result of scanning `suf` (fatal/panic of that rest propagate); the "envelope seen" flag is set. No
byte of `pre` is lost or changed. -/
theorem scan_embedded (cbs : List Callback) (pre C suf m : Bytes)
    (hpre : ∀ i, i < pre.length → ∃ hit, headStep cbs ((pre ++ C ++ suf).drop i) = .skip hit)
    (hC : C ≠ []) (hproc : procAt cbs (C ++ suf) m C.length) :
    scan cbs (pre ++ C ++ suf) = (scan cbs suf).prepend (pre ++ m) true :=
  c01_scan_embedded cbs pre C suf m hpre hC (c01_headStep_of_procAt hproc)

/-- The same through `OnColumn` itself (which only adds the "shorter than a container / no callbacks"
shortcut). -/
theorem onColumn_embedded (cbs : List Callback) (pre C suf m : Bytes) (hcbs : cbs ≠ [])
    (hlen : containerMin ≤ (pre ++ C ++ suf).length)
    (hpre : ∀ i, i < pre.length → ∃ hit, headStep cbs ((pre ++ C ++ suf).drop i) = .skip hit)
    (hC : C ≠ []) (hproc : procAt cbs (C ++ suf) m C.length) :
    onColumn cbs (pre ++ C ++ suf) = (scan cbs suf).prepend (pre ++ m) true := by
  rw [c01_onColumn_scan cbs _ hcbs hlen]
  exact scan_embedded cbs pre C suf m hpre hC hproc

/-- Plain data: if no position of the buffer is processed (every one is skipped), the column value is
returned byte for byte. -/
theorem scan_plain (cbs : List Callback) (buf : Bytes)
    (h : ∀ i, i < buf.length → ∃ hit, headStep cbs (buf.drop i) = .skip hit) :
    ∃ hit, scan cbs buf = .ok buf hit ∧ onColumn cbs buf = .ok buf (hit && decide (containerMin ≤ buf.length) && !cbs.isEmpty) := by
  obtain ⟨hit, hs⟩ := c01_scan_plain cbs buf h
  refine ⟨hit, hs, ?_⟩
  unfold onColumn
  by_cases hc : buf.length < containerMin ∨ cbs.isEmpty = true
  · rw [if_pos hc]
    rcases hc with hc | hc
    · have : decide (containerMin ≤ buf.length) = false := by simp; omega
      simp [this]
    · simp [hc]
  · rw [if_neg hc, hs]
    have h1 : decide (containerMin ≤ buf.length) = true := by simp; omega
    have h2 : cbs.isEmpty = false := by simpa using fun h => hc (Or.inr h)
    simp [h1, h2]

/-- Positions that do not start with a `%` byte are never processed – the concrete, checkable form
of the hypothesis of `scan_embedded` / `scan_plain` for ordinary text around an envelope. -/
theorem skip_of_no_tag_byte (cbs : List Callback) (pre rest : Bytes) (h : ∀ x ∈ pre, x ≠ 37) :
    ∀ i, i < pre.length → ∃ hit, headStep cbs ((pre ++ rest).drop i) = .skip hit :=
  c01_skip_of_no_tag_byte cbs pre rest h

/-- The decrypt callback inside a column value. Let `e` be an envelope of kind `k` that the registry
handler opens to `m` with the reader's keys `kv`, serialized as container `p = serBytes e k.id`. The
callback list is `front ++ decryptCallback c kv :: rest` where the callbacks in `front` leave this
container alone (`OldContainerDetectorWrapper` puts such a callback first). The callback receives the
WHOLE rest of the buffer `p ++ suf`, but `deserialize` takes exactly the declared length, so it opens
`e`; `OnColumn` then consumes exactly `p`. `m ≠ p ++ suf` is needed because the callback reports
"unchanged" when its output equals its input (it follows from `SealLen c`: `p` is longer than `m`). -/
theorem onColumn_reveal_embedded (c : CryptoOps) (kv : KeyView) (k : Kind) (e pre suf m : Bytes)
    (front rest : List Callback)
    (he : e ≠ []) (hlen : e.length + 12 < 2^63) (hmatch : matchKind k e = true)
    (hdec : decryptKind c kv k e = .ok m) (hne : m ≠ serBytes e k.id ++ suf)
    (hfront : ∀ cb ∈ front, cb (serBytes e k.id ++ suf) = .same ∨ cb (serBytes e k.id ++ suf) = .decErr)
    (hpre : ∀ i, i < pre.length → ∃ hit,
      headStep (front ++ decryptCallback c kv :: rest) ((pre ++ serBytes e k.id ++ suf).drop i) = .skip hit) :
    process c kv (serBytes e k.id ++ suf) = .ok m ∧
    onColumn (front ++ decryptCallback c kv :: rest) (pre ++ serBytes e k.id ++ suf) =
      (scan (front ++ decryptCallback c kv :: rest) suf).prepend (pre ++ m) true := by
  have hproc : process c kv (serBytes e k.id ++ suf) = .ok m := by
    rw [c01_process_ser c kv k e suf he (by omega) hmatch, hdec]
  refine ⟨hproc, ?_⟩
  have hrun := c01_runCallbacks_front front rest hfront hproc hne
  have hp := c01_procAt_ser _ k e suf m he hlen hrun
  refine onColumn_embedded _ pre (serBytes e k.id) suf m (by simp) ?_ hpre ?_ hp
  · rw [List.length_append, List.length_append, c01_serBytes_length]
    show 12 ≤ _
    omega
  · intro h
    have := congrArg List.length h
    rw [c01_serBytes_length] at this
    simp at this

/-- Protect, store inside other bytes, read back through the transparent column processor (AcraBlock
kind). `p` is what `protect` produced for `m` under the writer's key view; the column value is
`bpre ++ p ++ suf`; the reader's key list contains the writer's key (hypotheses of
`reveal_protect_block`). If no position inside `bpre` is processed, `OnColumn` returns `bpre ++ m`
followed by the result of scanning `suf`. With `front = [fun _ => .same]` this is the callback list
`OldContainerDetectorWrapper.OnColumn` runs. -/
theorem onColumn_protect_embedded_block (c : CryptoOps) (hs : SealLaws c) (kvW kvR : KeyView)
    (key m rnd p bpre suf : Bytes) (kpre kpost : List Bytes) (front rest : List Callback)
    (hkid : (keyId c key []).length = 2)
    (hW : kvW.sym = some key) (hR : kvR.syms = some (kpre ++ key :: kpost))
    (hkpre : ∀ k' ∈ kpre, ∀ encKey, c.enc key [] (rnd.take 32) ((rnd.drop 44).take 12) = some encKey →
      keyId c k' [] = keyId c key [] → c.dec k' [] encKey = none)
    (hEncKey : ∀ encKey, c.enc key [] (rnd.take 32) ((rnd.drop 44).take 12) = some encKey → encKey.length < 65536)
    (hplen : p.length < 2^63)
    (hnm : matchKind .block m = false) (hnr : registryMatch m = false)
    (hp : protect c kvW .block m rnd = .ok p)
    (hne : m ≠ p ++ suf)
    (hfront : ∀ cb ∈ front, cb (p ++ suf) = .same ∨ cb (p ++ suf) = .decErr)
    (hskip : ∀ i, i < bpre.length → ∃ hit,
      headStep (front ++ decryptCallback c kvR :: rest) ((bpre ++ p ++ suf).drop i) = .skip hit) :
    onColumn (front ++ decryptCallback c kvR :: rest) (bpre ++ p ++ suf) =
      (scan (front ++ decryptCallback c kvR :: rest) suf).prepend (bpre ++ m) true := by
  obtain ⟨e, rfl, he, hlen, hmatch, hdec⟩ := c01_protect_block_facts c hs kvW kvR key m rnd p kpre kpost hkid hW hR
    (fun k' hk' encKey h2 hid => Or.inl (hkpre k' hk' encKey h2 hid)) hEncKey hplen hnm hnr hp
  exact (onColumn_reveal_embedded c kvR .block e bpre suf m front rest he hlen hmatch hdec hne hfront hskip).2

/-- End to end for ordinary text around the value: if the bytes before and after the protected
value contain no `%` (so nothing there can look like a container), `OnColumn` with the decrypt
callback returns exactly `before ++ m ++ after`. -/
theorem onColumn_protect_block_in_text (c : CryptoOps) (hs : SealLaws c) (kvW kvR : KeyView)
    (key m rnd p bpre suf : Bytes) (kpre kpost : List Bytes)
    (hkid : (keyId c key []).length = 2)
    (hW : kvW.sym = some key) (hR : kvR.syms = some (kpre ++ key :: kpost))
    (hkpre : ∀ k' ∈ kpre, ∀ encKey, c.enc key [] (rnd.take 32) ((rnd.drop 44).take 12) = some encKey →
      keyId c k' [] = keyId c key [] → c.dec k' [] encKey = none)
    (hEncKey : ∀ encKey, c.enc key [] (rnd.take 32) ((rnd.drop 44).take 12) = some encKey → encKey.length < 65536)
    (hplen : p.length < 2^63)
    (hnm : matchKind .block m = false) (hnr : registryMatch m = false)
    (hp : protect c kvW .block m rnd = .ok p)
    (hne : m ≠ p ++ suf)
    (hbpre : ∀ x ∈ bpre, x ≠ 37) (hsuf : ∀ x ∈ suf, x ≠ 37) :
    onColumn [decryptCallback c kvR] (bpre ++ p ++ suf) = .ok (bpre ++ m ++ suf) true := by
  have h := onColumn_protect_embedded_block c hs kvW kvR key m rnd p bpre suf kpre kpost [] [] hkid hW hR hkpre
    hEncKey hplen hnm hnr hp hne (by simp)
    (by rw [List.append_assoc]; exact c01_skip_of_no_tag_byte _ bpre (p ++ suf) hbpre)
  rw [List.nil_append] at h
  have hs' := c01_skip_of_no_tag_byte [decryptCallback c kvR] suf [] hsuf
  simp only [List.append_nil] at hs'
  obtain ⟨hit, hsc⟩ := c01_scan_plain _ suf hs'
  rw [h, hsc]
  simp [ScanOut.prepend]

/-! ## AcraStruct (asymmetric envelope) -/

/-- `CreateAcrastruct` succeeds for every non-empty message below 4 GiB and every well-formed
recipient key, as soon as the random source delivers its 88 bytes. -/
theorem struct_create_total (c : CryptoOps) (hs : SealLaws c) (hm : MsgLaws c) (hk : KeygenLaws c)
    (priv ctx m rnd : Bytes) (hpriv : c.validPriv priv = true)
    (hne : m ≠ []) (hml : m.length < maxMsgLen) (hr : 88 ≤ rnd.length) :
    ∃ s, createStruct c (c.pubOf priv) ctx m rnd = .ok s := by
  have hn : nonceLen = 12 := rfl
  have hmax : maxMsgLen = 2^32 := rfl
  have hvalid : c.validPriv (c.privOfSeed (rnd.take 32)) = true :=
    hk.valid_seed _ (by rw [List.length_take]; omega)
  have h1 : c.wrap (c.privOfSeed (rnd.take 32)) (c.pubOf priv) ((rnd.drop 32).take 32) ((rnd.drop 64).take 12) ≠ none := by
    intro h
    rcases (hm.wrap_none _ _ _ _ hvalid hpriv).mp h with h | h | h
    · have := congrArg List.length h
      rw [List.length_take, List.length_drop, List.length_nil] at this
      omega
    · rw [List.length_take, List.length_drop, hn] at h; omega
    · rw [List.length_take, List.length_drop, hmax] at h; omega
  have h2 : c.enc ((rnd.drop 32).take 32) ctx m ((rnd.drop 76).take 12) ≠ none := by
    intro h
    rcases (hs.enc_none _ _ _ _).mp h with h | h | h | h
    · exact hne h
    · have := congrArg List.length h
      rw [List.length_take, List.length_drop, List.length_nil] at this
      omega
    · rw [List.length_take, List.length_drop, hn] at h; omega
    · omega
  cases h1' : c.wrap (c.privOfSeed (rnd.take 32)) (c.pubOf priv) ((rnd.drop 32).take 32) ((rnd.drop 64).take 12) with
  | none => exact absurd h1' h1
  | some encKey =>
    cases h2' : c.enc ((rnd.drop 32).take 32) ctx m ((rnd.drop 76).take 12) with
    | none => exact absurd h2' h2
    | some encData =>
      refine ⟨structTag ++ c.pubOf (c.privOfSeed (rnd.take 32)) ++ encKey ++ leBytes 8 encData.length ++ encData, ?_⟩
      unfold createStruct
      simp only [h1', h2']

/-- AcraStruct round trip through the library calls. If `CreateAcrastruct` produced `s` for message
`m`, the public key of `priv` and context `ctx` (`struct_create_total`: it does for every non-empty
`m` below 4 GiB), then `s` passes `ValidateAcraStructLength`, `ExtractAcraStruct` finds exactly `s`
at the start of `s` followed by arbitrary bytes, and `DecryptRotatedAcrastruct` with ANY list of
private keys that contains `priv` returns exactly `m`, provided every key listed before it fails on
`s` (or happens to give the same answer). Nothing more can be said about earlier keys: the laws of
Secure Message say nothing about unwrapping with a wrong or malformed key. `SealLen`/`MsgLen` give the
byte layout (45-byte public key, 84-byte wrapped key) and keep the 8-byte length field and the Go
`int` conversions exact; no commitment is assumed. (`m ≠ []`, `m.length < maxMsgLen`,
`88 ≤ rnd.length` are implied by `hc`.) -/
theorem struct_roundtrip (c : CryptoOps) (hs : SealLaws c) (hsl : SealLen c) (hm : MsgLaws c) (hml : MsgLen c)
    (hk : KeygenLaws c) (priv ctx m rnd s : Bytes) (pre post : List Bytes)
    (hpriv : c.validPriv priv = true)
    (hc : createStruct c (c.pubOf priv) ctx m rnd = .ok s)
    (hpre : ∀ k' ∈ pre, decryptStruct c k' ctx s = .err ∨ decryptStruct c k' ctx s = .ok m) :
    validateStruct s = .ok () ∧
    (∀ suffix, extractStruct (s ++ suffix) = .ok (s.length, s)) ∧
    decryptStructRotated c ctx s (pre ++ priv :: post) = .ok m := by
  obtain ⟨hval, hx, hd, _, _⟩ := c01_struct_roundtrip c hs hsl hm hml hk priv ctx m rnd s hpriv hc
  exact ⟨hval, hx, c01_decryptStructRotated_found c ctx s priv m pre post hpre hd⟩

/-- A value protected as AcraStruct is never wrapped a second time, by either envelope kind, any
client's keys, any random stream. -/
theorem protect_idempotent_struct (c : CryptoOps) (hs : SealLaws c) (hsl : SealLen c) (hml : MsgLen c)
    (hk : KeygenLaws c) (kv : KeyView) (m rnd p : Bytes)
    (hp : protect c kv .struct m rnd = .ok p) (hne : p ≠ m) :
    ∀ (k' : Kind) (kv' : KeyView) (rnd' : Bytes), protect c kv' k' p rnd' = .ok p := by
  obtain ⟨hnm, hnr⟩ := protect_ne_input c kv .struct m rnd p hp hne
  obtain ⟨e, he, hne', rfl⟩ := c01_protect_ok hp hnm hnr
  obtain ⟨pub, _, hcs⟩ := c01_encryptKind_struct he hnm
  obtain ⟨encKey, encData, h1, h2, rfl⟩ := c01_createStruct_ok hcs
  obtain ⟨_, _, hpub, hek, hed, hmlen, _⟩ := c01_createStruct_sizes hs hsl hml hk h1 h2
  have hv : leVal (leBytes 8 encData.length) = encData.length := c01_leVal_leBytes8 (by omega)
  have hval := c01_validateStruct_fields _ encKey (leBytes 8 encData.length) encData hpub hek (by simp) hv (by omega)
  intro k' kv' rnd'
  apply c01_protect_of_match
  right
  have hmk : matchKind .struct (structTag ++ c.pubOf (c.privOfSeed (rnd.take 32)) ++ encKey ++
      leBytes 8 encData.length ++ encData) = true := by
    unfold matchKind
    simp only [hval]
    rfl
  have := c01_registryMatch_ser .struct _ [] hne'
    (by simp [c01_structTag_length, hpub, hek]; omega) hmk
  rw [List.append_nil] at this
  exact this

/-- Protect-then-reveal for the AcraStruct kind through the registry handler: the writer used the
public key of `priv`; the reader's list of private keys contains `priv` anywhere (written before a
rotation: still readable), earlier keys fail on the value (see `struct_roundtrip`). -/
theorem reveal_protect_struct (c : CryptoOps) (hs : SealLaws c) (hsl : SealLen c) (hm : MsgLaws c) (hml : MsgLen c)
    (hk : KeygenLaws c) (kvW kvR : KeyView) (priv m rnd p : Bytes) (pre post : List Bytes)
    (hpriv : c.validPriv priv = true)
    (hW : kvW.pub = some (c.pubOf priv)) (hR : kvR.privs = some (pre ++ priv :: post))
    (hpre : ∀ k' ∈ pre, ∀ s, createStruct c (c.pubOf priv) [] m rnd = .ok s →
      decryptStruct c k' [] s = .err ∨ decryptStruct c k' [] s = .ok m)
    (hnm : matchKind .struct m = false) (hnr : registryMatch m = false)
    (hp : protect c kvW .struct m rnd = .ok p) : reveal c kvR p = .ok m := by
  obtain ⟨e, rfl, he, hlen, hmlen, hmatch, hdec⟩ := c01_protect_struct_facts c hs hsl hm hml hk kvW kvR priv m rnd p
    pre post hpriv hW hR hpre hnm hnr hp
  have := c01_process_ser c kvR .struct e [] he (by omega) hmatch
  rw [List.append_nil] at this
  unfold reveal
  rw [this, hdec]

/-- Protect as AcraStruct, store inside other bytes, read back through the transparent column
processor (see `onColumn_protect_embedded_block`; here `m ≠ p ++ suf` holds automatically because the
container is 201 bytes longer than `m`). -/
theorem onColumn_protect_embedded_struct (c : CryptoOps) (hs : SealLaws c) (hsl : SealLen c) (hm : MsgLaws c)
    (hml : MsgLen c) (hk : KeygenLaws c) (kvW kvR : KeyView) (priv m rnd p bpre suf : Bytes)
    (kpre kpost : List Bytes) (front rest : List Callback)
    (hpriv : c.validPriv priv = true)
    (hW : kvW.pub = some (c.pubOf priv)) (hR : kvR.privs = some (kpre ++ priv :: kpost))
    (hkpre : ∀ k' ∈ kpre, ∀ s, createStruct c (c.pubOf priv) [] m rnd = .ok s →
      decryptStruct c k' [] s = .err ∨ decryptStruct c k' [] s = .ok m)
    (hnm : matchKind .struct m = false) (hnr : registryMatch m = false)
    (hp : protect c kvW .struct m rnd = .ok p)
    (hfront : ∀ cb ∈ front, cb (p ++ suf) = .same ∨ cb (p ++ suf) = .decErr)
    (hskip : ∀ i, i < bpre.length → ∃ hit,
      headStep (front ++ decryptCallback c kvR :: rest) ((bpre ++ p ++ suf).drop i) = .skip hit) :
    onColumn (front ++ decryptCallback c kvR :: rest) (bpre ++ p ++ suf) =
      (scan (front ++ decryptCallback c kvR :: rest) suf).prepend (bpre ++ m) true := by
  obtain ⟨e, rfl, he, hlen, hmlen, hmatch, hdec⟩ := c01_protect_struct_facts c hs hsl hm hml hk kvW kvR priv m rnd p
    kpre kpost hpriv hW hR hkpre hnm hnr hp
  have hne : m ≠ serBytes e Kind.struct.id ++ suf := by
    intro h
    have := congrArg List.length h
    rw [List.length_append, c01_serBytes_length] at this
    omega
  exact (onColumn_reveal_embedded c kvR .struct e bpre suf m front rest he (by omega) hmatch hdec hne hfront hskip).2

/-- End to end for ordinary text around an AcraStruct-protected value (no `%` before or after):
`OnColumn` with the decrypt callback returns exactly `before ++ m ++ after`. -/
theorem onColumn_protect_struct_in_text (c : CryptoOps) (hs : SealLaws c) (hsl : SealLen c) (hm : MsgLaws c)
    (hml : MsgLen c) (hk : KeygenLaws c) (kvW kvR : KeyView) (priv m rnd p bpre suf : Bytes)
    (kpre kpost : List Bytes)
    (hpriv : c.validPriv priv = true)
    (hW : kvW.pub = some (c.pubOf priv)) (hR : kvR.privs = some (kpre ++ priv :: kpost))
    (hkpre : ∀ k' ∈ kpre, ∀ s, createStruct c (c.pubOf priv) [] m rnd = .ok s →
      decryptStruct c k' [] s = .err ∨ decryptStruct c k' [] s = .ok m)
    (hnm : matchKind .struct m = false) (hnr : registryMatch m = false)
    (hp : protect c kvW .struct m rnd = .ok p)
    (hbpre : ∀ x ∈ bpre, x ≠ 37) (hsuf : ∀ x ∈ suf, x ≠ 37) :
    onColumn [decryptCallback c kvR] (bpre ++ p ++ suf) = .ok (bpre ++ m ++ suf) true := by
  have h := onColumn_protect_embedded_struct c hs hsl hm hml hk kvW kvR priv m rnd p bpre suf kpre kpost [] []
    hpriv hW hR hkpre hnm hnr hp (by simp)
    (by rw [List.append_assoc]; exact c01_skip_of_no_tag_byte _ bpre (p ++ suf) hbpre)
  rw [List.nil_append] at h
  have hs' := c01_skip_of_no_tag_byte [decryptCallback c kvR] suf [] hsuf
  simp only [List.append_nil] at hs'
  obtain ⟨hit, hsc⟩ := c01_scan_plain _ suf hs'
  rw [h, hsc]
  simp [ScanOut.prepend]

/-! ## both kinds at once

`RoundTripHyps c k kvW kvR m rnd p` (in `Envelope/ProtectLemmas.lean`) is the hypothesis bundle of
`reveal_protect_block` for `k = .block` and of `reveal_protect_struct` for `k = .struct`. -/

/-- Protect-then-reveal, either kind: what `protect` produced for an unprotected value `m` under the
writer's key view is opened to exactly `m` by `reveal` under any reader key view whose key list
contains the writer's key (so also after key rotations). -/
theorem reveal_protect (c : CryptoOps) (k : Kind) (kvW kvR : KeyView) (m rnd p : Bytes)
    (h : RoundTripHyps c k kvW kvR m rnd p)
    (hnm : matchKind k m = false) (hnr : registryMatch m = false)
    (hp : protect c kvW k m rnd = .ok p) : reveal c kvR p = .ok m := by
  cases k with
  | block =>
    obtain ⟨hs, key, pre, post, hkid, hW, hR, hpre, hek, hpl⟩ := h
    exact reveal_protect_block c hs kvW kvR key m rnd p pre post hkid hW hR hpre hek hpl hnm hnr hp
  | struct =>
    obtain ⟨hs, hsl, hm, hml, hk, priv, pre, post, hpriv, hW, hR, hpre⟩ := h
    exact reveal_protect_struct c hs hsl hm hml hk kvW kvR priv m rnd p pre post hpriv hW hR hpre hnm hnr hp

/-- A protected value is never wrapped a second time, either kind: if `protect` changed its input,
every further `protect` of the result – by either handler, for any client, with any randomness –
returns it unchanged. -/
theorem protect_idempotent (c : CryptoOps) (k : Kind) (kvW kvR : KeyView) (m rnd p : Bytes)
    (h : RoundTripHyps c k kvW kvR m rnd p)
    (hp : protect c kvW k m rnd = .ok p) (hne : p ≠ m) :
    ∀ (k' : Kind) (kv' : KeyView) (rnd' : Bytes), protect c kv' k' p rnd' = .ok p := by
  cases k with
  | block =>
    obtain ⟨_, key, _, _, hkid, hW, _, _, _, hpl⟩ := h
    exact protect_idempotent_block c kvW key m rnd p hW hkid hpl hp hne
  | struct =>
    obtain ⟨hs, hsl, _, hml, hk, _⟩ := h
    exact protect_idempotent_struct c hs hsl hml hk kvW m rnd p hp hne

/-- Protect, embed in a column value, read through the transparent column processor, either kind:
`OnColumn` returns the bytes before the protected value unchanged, then exactly `m`, then the result
of scanning the bytes after it – provided no position before the value is processed and the
callbacks before the decrypt callback leave the container alone. `m ≠ p ++ suf`: the callback reports
"unchanged" if its output equals its input (automatic under `SealLen`). -/
theorem onColumn_protect_embedded (c : CryptoOps) (k : Kind) (kvW kvR : KeyView) (m rnd p bpre suf : Bytes)
    (front rest : List Callback)
    (h : RoundTripHyps c k kvW kvR m rnd p)
    (hnm : matchKind k m = false) (hnr : registryMatch m = false)
    (hp : protect c kvW k m rnd = .ok p)
    (hne : m ≠ p ++ suf)
    (hfront : ∀ cb ∈ front, cb (p ++ suf) = .same ∨ cb (p ++ suf) = .decErr)
    (hskip : ∀ i, i < bpre.length → ∃ hit,
      headStep (front ++ decryptCallback c kvR :: rest) ((bpre ++ p ++ suf).drop i) = .skip hit) :
    onColumn (front ++ decryptCallback c kvR :: rest) (bpre ++ p ++ suf) =
      (scan (front ++ decryptCallback c kvR :: rest) suf).prepend (bpre ++ m) true := by
  cases k with
  | block =>
    obtain ⟨hs, key, pre, post, hkid, hW, hR, hpre, hek, hpl⟩ := h
    exact onColumn_protect_embedded_block c hs kvW kvR key m rnd p bpre suf pre post front rest hkid hW hR hpre hek
      hpl hnm hnr hp hne hfront hskip
  | struct =>
    obtain ⟨hs, hsl, hm, hml, hk, priv, pre, post, hpriv, hW, hR, hpre⟩ := h
    exact onColumn_protect_embedded_struct c hs hsl hm hml hk kvW kvR priv m rnd p bpre suf pre post front rest
      hpriv hW hR hpre hnm hnr hp hfront hskip

/-! ## totality and sizes (these discharge the explicit length hypotheses above under `SealLen`) -/

/-- Under the length law of the AEAD an AcraBlock is exactly 138 bytes longer than its message
(18 header + 76 wrapped data key + 44 seal overhead), and the wrapped data key has 76 bytes – so the
explicit length hypotheses of `block_roundtrip` hold. -/
theorem block_sizes (c : CryptoOps) (hs : SealLaws c) (hsl : SealLen c) (key ctx m rnd b : Bytes)
    (hkid : (keyId c key ctx).length = 2) (hc : createBlock c key ctx m rnd = .ok b) :
    b.length = m.length + 138 ∧ m.length < 2^32 ∧
    ∀ encKey, c.enc key ctx (rnd.take 32) ((rnd.drop 44).take 12) = some encKey → encKey.length = 76 := by
  obtain ⟨encData, encKey, h1, h2, rfl⟩ := c01_createBlock_ok hc
  have hn : ¬ (rnd.take 32 = [] ∨ key = [] ∨ ((rnd.drop 44).take 12).length ≠ nonceLen ∨ maxMsgLen ≤ (rnd.take 32).length) := by
    intro hcon
    have := (hs.enc_none key ctx (rnd.take 32) ((rnd.drop 44).take 12)).mpr hcon
    rw [h2] at this; cases this
  have hm : ¬ (m = [] ∨ rnd.take 32 = [] ∨ ((rnd.drop 32).take 12).length ≠ nonceLen ∨ maxMsgLen ≤ m.length) := by
    intro hcon
    have := (hs.enc_none (rnd.take 32) ctx m ((rnd.drop 32).take 12)).mpr hcon
    rw [h1] at this; cases this
  simp only [not_or, Decidable.not_not, Nat.not_le] at hn hm
  have hr : 56 ≤ rnd.length := by
    have h := hn.2.2.1
    rw [List.length_take, List.length_drop] at h
    have : nonceLen = 12 := rfl
    omega
  have hso : sealOverhead = 44 := rfl
  have hdek : (rnd.take 32).length = 32 := by rw [List.length_take]; omega
  have hek : ∀ ek, c.enc key ctx (rnd.take 32) ((rnd.drop 44).take 12) = some ek → ek.length = 76 := by
    intro ek h
    rw [hsl.enc_len _ _ _ _ _ h, hdek, hso]
  refine ⟨?_, hm.2.2.2, hek⟩
  rw [c01_buildBlock_length _ _ _ hkid, hek _ h2, hsl.enc_len _ _ _ _ _ h1, hso]
  omega

/-- `protect` with the AcraBlock handler succeeds for every non-empty value below 4 GiB when the
client has a (non-empty) current symmetric key and the random source delivers 56 bytes. -/
theorem protect_block_total (c : CryptoOps) (hs : SealLaws c) (kv : KeyView) (key m rnd : Bytes)
    (hW : kv.sym = some key) (hkey : key ≠ []) (hm : m ≠ []) (hml : m.length < maxMsgLen) (hr : 56 ≤ rnd.length) :
    ∃ p, protect c kv .block m rnd = .ok p := by
  by_cases hmatch : matchKind .block m = true ∨ registryMatch m = true
  · exact ⟨m, c01_protect_of_match c kv .block m rnd hmatch⟩
  · have hnm : matchKind .block m = false := by
      cases h : matchKind .block m with
      | false => rfl
      | true => exact absurd (Or.inl h) hmatch
    have hnr : registryMatch m = false := by
      cases h : registryMatch m with
      | false => rfl
      | true => exact absurd (Or.inr h) hmatch
    obtain ⟨b, hb⟩ := block_create_total c hs key [] m rnd hkey hm hml hr
    obtain ⟨encData, encKey, _, _, hbb⟩ := c01_createBlock_ok hb
    have hbne : b ≠ [] := by
      rw [hbb]; unfold buildBlock
      intro h
      have := congrArg List.length h
      simp [c01_blockTag_length] at this
    refine ⟨serBytes b Kind.block.id, ?_⟩
    unfold protect encryptKind
    simp only [hnm, hnr, hW, hb, Bool.or_self, Bool.false_eq_true, if_false, Out.bind_ok]
    exact c01_serialize_eq _ hbne

/-- Under `SealLen` the container `protect` produces for an unprotected value with the AcraBlock
handler is exactly 150 bytes longer than the value. -/
theorem protect_block_length (c : CryptoOps) (hs : SealLaws c) (hsl : SealLen c) (kv : KeyView) (key m rnd p : Bytes)
    (hW : kv.sym = some key) (hkid : (keyId c key []).length = 2)
    (hnm : matchKind .block m = false) (hnr : registryMatch m = false)
    (hp : protect c kv .block m rnd = .ok p) : p.length = m.length + 150 ∧ m.length < 2^32 := by
  obtain ⟨e, he, _, rfl⟩ := c01_protect_ok hp hnm hnr
  obtain ⟨key', hk', hcb⟩ := c01_encryptKind_block he hnm
  rw [hW] at hk'; cases hk'
  obtain ⟨hl, hm, _⟩ := block_sizes c hs hsl key [] m rnd e hkid hcb
  rw [c01_serBytes_length, hl]
  exact ⟨by omega, hm⟩

/-- `protect` with the AcraStruct handler succeeds for every non-empty value below 4 GiB when the
client has a well-formed public key and the random source delivers 88 bytes. -/
theorem protect_struct_total (c : CryptoOps) (hs : SealLaws c) (hm : MsgLaws c) (hk : KeygenLaws c)
    (kv : KeyView) (priv m rnd : Bytes) (hpriv : c.validPriv priv = true)
    (hW : kv.pub = some (c.pubOf priv)) (hne : m ≠ []) (hml : m.length < maxMsgLen) (hr : 88 ≤ rnd.length) :
    ∃ p, protect c kv .struct m rnd = .ok p := by
  by_cases hmatch : matchKind .struct m = true ∨ registryMatch m = true
  · exact ⟨m, c01_protect_of_match c kv .struct m rnd hmatch⟩
  · have hnm : matchKind .struct m = false := by
      cases h : matchKind .struct m with
      | false => rfl
      | true => exact absurd (Or.inl h) hmatch
    have hnr : registryMatch m = false := by
      cases h : registryMatch m with
      | false => rfl
      | true => exact absurd (Or.inr h) hmatch
    obtain ⟨s, hsc⟩ := struct_create_total c hs hm hk priv [] m rnd hpriv hne hml hr
    obtain ⟨encKey, encData, _, _, hss⟩ := c01_createStruct_ok hsc
    have hsne : s ≠ [] := by
      rw [hss]
      intro h
      have := congrArg List.length h
      simp [c01_structTag_length] at this
    refine ⟨serBytes s Kind.struct.id, ?_⟩
    unfold protect encryptKind
    simp only [hnm, hnr, hW, hsc, Bool.or_self, Bool.false_eq_true, if_false, Out.bind_ok]
    exact c01_serialize_eq _ hsne

/-- Under `SealLen`/`MsgLen` the container `protect` produces for an unprotected value with the
AcraStruct handler is exactly 201 bytes longer than the value (12 container + 145 AcraStruct header +
44 seal overhead). -/
theorem protect_struct_length (c : CryptoOps) (hs : SealLaws c) (hsl : SealLen c) (hml : MsgLen c)
    (hk : KeygenLaws c) (kv : KeyView) (m rnd p : Bytes)
    (hnm : matchKind .struct m = false) (hnr : registryMatch m = false)
    (hp : protect c kv .struct m rnd = .ok p) : p.length = m.length + 201 ∧ m.length < 2^32 := by
  obtain ⟨e, he, _, rfl⟩ := c01_protect_ok hp hnm hnr
  obtain ⟨pub, _, hcs⟩ := c01_encryptKind_struct he hnm
  obtain ⟨encKey, encData, h1, h2, rfl⟩ := c01_createStruct_ok hcs
  obtain ⟨_, _, hpub, hek, hed, hmlen, _⟩ := c01_createStruct_sizes hs hsl hml hk h1 h2
  refine ⟨?_, hmlen⟩
  rw [c01_serBytes_length]
  simp [c01_structTag_length, hpub, hek, hed]
  omega

/-! ## the empty value -/

/-- The empty byte string is not a protected value for any handler … -/
theorem empty_not_protected (k : Kind) : matchKind k [] = false ∧ registryMatch [] = false := by
  cases k <;> exact ⟨by decide, by decide⟩

/-- … and it cannot be protected: `protect` returns an error (no panic, no output) for the empty
value, for both envelope kinds, any keys and any random stream. The code relies on Themis rejecting
empty messages; in the model this is the `m = []` case of `SealLaws.enc_none`, the only law needed
(for the AcraStruct the symmetric key may or may not get wrapped first – the seal of the empty
message fails either way). -/
theorem protect_empty_err (c : CryptoOps) (hs : SealLaws c) (kv : KeyView) (k : Kind) (rnd : Bytes) :
    protect c kv k [] rnd = .err := by
  obtain ⟨h1, h2⟩ := empty_not_protected k
  have henc : ∀ key ctx n, c.enc key ctx [] n = none := fun key ctx n =>
    (hs.enc_none key ctx [] n).mpr (Or.inl rfl)
  unfold protect
  rw [h1, h2]
  simp only [Bool.or_self, Bool.false_eq_true, if_false]
  unfold encryptKind
  rw [h1]
  simp only [Bool.false_eq_true, if_false]
  cases k with
  | struct =>
    simp only
    cases kv.pub with
    | none => rfl
    | some pub =>
      simp only
      unfold createStruct
      simp only [henc]
      cases c.wrap (c.privOfSeed (rnd.take 32)) pub ((rnd.drop 32).take 32) ((rnd.drop 64).take 12) <;> rfl
  | block =>
    simp only
    cases kv.sym with
    | none => rfl
    | some key =>
      simp only
      unfold createBlock
      simp only [henc]
      rfl

/-! ## the AcraTranslator operations (`cmd/acra-translator/common/service.go`)

`Translator.{encrypt, decrypt, encryptSym, decryptSym, encryptSearchable, decryptSearchable,
encryptSymSearchable, decryptSymSearchable}` (in `Envelope/Translator.lean`) model the eight service
methods as compositions of `protect`, `decryptWithHandler` + poison scan, and the search-hash
functions. A decrypt returns `(answer, number of poison alarms)`. `stW` / `stR` are the key stores at
write and at read time (the reader's key lists may be longer: rotations). -/

section TranslatorOps
open AcraModel.Envelope.Translator AcraModel.Searchable

/-- What the model takes from `service.go` (regenerated on every run): the eight operations exist; each
tests the client id in the form the model uses (`len(clientID) == 0` for `Encrypt`/`Decrypt`,
`clientID == nil` for the other six), refuses an additional context, and does both before touching the
key store or a handler; each asks the registry for the envelope handler of the kind the model uses
(AcraStruct for `Encrypt`/`Decrypt`/`…Searchable`, AcraBlock for the `…Sym…` operations) and calls
`EncryptWithHandler` resp. `DecryptWithHandler` exactly once; the searchable decrypts prepend a non-nil
`hash` argument and verify the decrypted data against the hash with the client's HMAC key; the
searchable encrypts return `GenerateHMAC(key of clientID, data)`. -/
theorem fact_translator_ops :
    (TranslatorOps.ops.map (·.1)).length = 8 ∧
    (∀ row ∈ TranslatorOps.ops, rowSpec row ≠ none ∧ rowSpec row = opSpec row.1) ∧
    TranslatorOps.ops.map (fun row => (row.1, row.2.2.2.2)) =
      [("Decrypt", "DecryptWithHandler"), ("Encrypt", "EncryptWithHandler"),
       ("EncryptSearchable", "EncryptWithHandler"), ("DecryptSearchable", "DecryptWithHandler"),
       ("EncryptSymSearchable", "EncryptWithHandler"), ("DecryptSymSearchable", "DecryptWithHandler"),
       ("EncryptSym", "EncryptWithHandler"), ("DecryptSym", "DecryptWithHandler")] ∧
    TranslatorOps.searchableDecrypts = [("DecryptSearchable", true, true), ("DecryptSymSearchable", true, true)] ∧
    TranslatorOps.searchableEncrypts = [("EncryptSearchable", true), ("EncryptSymSearchable", true)] := by decide

/-- Every one of the eight operations refuses a request without client id and a request that carries
an additional context – with an error, before touching any key (no alarm either). -/
theorem translator_rejects_bad_request (c : CryptoOps) (st : Store) (data rnd : Bytes) (hash clientID addCtx : Option Bytes)
    (hbad : clientID = none ∨ addCtx ≠ none) :
    Translator.encrypt c st data clientID addCtx rnd = .err ∧
    Translator.decrypt c st data clientID addCtx = (.err, 0) ∧
    encryptSym c st data clientID addCtx rnd = .err ∧
    decryptSym c st data clientID addCtx = (.err, 0) ∧
    encryptSearchable c st data clientID addCtx rnd = .err ∧
    decryptSearchable c st data hash clientID addCtx = (.err, 0) ∧
    encryptSymSearchable c st data clientID addCtx rnd = .err ∧
    decryptSymSearchable c st data hash clientID addCtx = (.err, 0) := by
  have h : ∀ byLen, checkRequest byLen clientID addCtx = .err := fun byLen =>
    checkRequest_bad byLen clientID addCtx (by rcases hbad with h | h; exact Or.inl h; exact Or.inr (Or.inl h))
  exact ⟨encryptWith_bad _ _ c st data rnd _ _ (h _), decryptWith_bad _ _ c st data _ _ (h _),
    encryptWith_bad _ _ c st data rnd _ _ (h _), decryptWith_bad _ _ c st data _ _ (h _),
    encryptSearchableWith_bad _ c st data rnd _ _ (h _), decryptSearchableWith_bad _ c st data hash _ _ (h _),
    encryptSearchableWith_bad _ c st data rnd _ _ (h _), decryptSearchableWith_bad _ c st data hash _ _ (h _)⟩

/-- `Encrypt` and `Decrypt` test `len(clientID) == 0`: they also refuse the empty (non-nil) client id.
(The other six test `clientID == nil` only and go on with the empty id – they then work with whatever
keys the key store has for the empty id.) -/
theorem translator_rejects_empty_id (c : CryptoOps) (st : Store) (data rnd : Bytes) (addCtx : Option Bytes) :
    Translator.encrypt c st data (some []) addCtx rnd = .err ∧ Translator.decrypt c st data (some []) addCtx = (.err, 0) :=
  ⟨encryptWith_bad _ _ c st data rnd _ _ (checkRequest_empty_id addCtx),
   decryptWith_bad _ _ c st data _ _ (checkRequest_empty_id addCtx)⟩

/-- **Translator round trip**, both Encrypt/Decrypt pairs at once (`encryptOf k` / `decryptOf k` are
`Encrypt`/`Decrypt` for `k = .struct` and `EncryptSym`/`DecryptSym` for `k = .block`): what the
encrypt operation returned for an unprotected value `m` is decrypted by the matching decrypt operation
– for the same client id, under the round-trip hypotheses of `reveal_protect` between the writer's and
the reader's keys of that id – to exactly `m`, and no poison alarm is raised. -/
theorem translator_roundtrip (c : CryptoOps) (k : Kind) (stW stR : Store) (id m rnd p : Bytes)
    (hid : k = .struct → id ≠ [])
    (h : RoundTripHyps c k (stW.keys id) (stR.keys id) m rnd p)
    (hnm : matchKind k m = false) (hnr : registryMatch m = false)
    (hp : encryptOf k c stW m (some id) none rnd = .ok p) :
    decryptOf k c stR p (some id) none = (.ok m, 0) := by
  rw [encryptOf_ok k c stW id m rnd hid] at hp
  rw [decryptOf_ok k c stR id p hid]
  obtain ⟨e, rfl, he, hlen, hmatch, hdec⟩ := protect_facts c k _ _ m rnd p h hnm hnr hp
  apply translatorDecrypt_of_ok
  have := decryptWithHandler_ser c (stR.keys id) k e [] he (by omega) hmatch
  rw [List.append_nil] at this
  rw [this, hdec]

/-- `Encrypt` then `Decrypt` (AcraStruct) -/
theorem translator_roundtrip_struct (c : CryptoOps) (stW stR : Store) (id m rnd p : Bytes) (hid : id ≠ [])
    (h : RoundTripHyps c .struct (stW.keys id) (stR.keys id) m rnd p)
    (hnm : matchKind .struct m = false) (hnr : registryMatch m = false)
    (hp : Translator.encrypt c stW m (some id) none rnd = .ok p) :
    Translator.decrypt c stR p (some id) none = (.ok m, 0) :=
  translator_roundtrip c .struct stW stR id m rnd p (fun _ => hid) h hnm hnr hp

/-- `EncryptSym` then `DecryptSym` (AcraBlock); the empty, non-nil client id is allowed here -/
theorem translator_roundtrip_block (c : CryptoOps) (stW stR : Store) (id m rnd p : Bytes)
    (h : RoundTripHyps c .block (stW.keys id) (stR.keys id) m rnd p)
    (hnm : matchKind .block m = false) (hnr : registryMatch m = false)
    (hp : encryptSym c stW m (some id) none rnd = .ok p) :
    decryptSym c stR p (some id) none = (.ok m, 0) :=
  translator_roundtrip c .block stW stR id m rnd p (fun h => by cases h) h hnm hnr hp

/-- **Searchable translator round trip**, both pairs (`EncryptSearchable`/`DecryptSearchable` for
`.struct`, `EncryptSymSearchable`/`DecryptSymSearchable` for `.block`): the response carries the
envelope `p` and the hash `h = GenerateHMAC(key, m)`; the decrypt operation returns exactly `m` (no
alarm) whether the hash is passed as the separate argument or concatenated in front of the envelope.
Writer and reader use the same HMAC key `hk` of the client; `HashLen`: the MAC has 32 bytes (the code
cuts the hash off by length). -/
theorem translator_searchable_roundtrip (c : CryptoOps) (hl : HashLen c) (k : Kind) (stW stR : Store)
    (id hk m rnd p h : Bytes)
    (hkW : stW.hmac id = some hk) (hkR : stR.hmac id = some hk)
    (hyp : RoundTripHyps c k (stW.keys id) (stR.keys id) m rnd p)
    (hnm : matchKind k m = false) (hnr : registryMatch m = false)
    (hp : encryptSearchableWith k c stW m (some id) none rnd = .ok (p, h)) :
    h = generateHMAC c hk m ∧
    decryptSearchableWith k c stR p (some h) (some id) none = (.ok m, 0) ∧
    decryptSearchableWith k c stR (h ++ p) none (some id) none = (.ok m, 0) := by
  rw [encryptSearchableWith_ok, hkW] at hp
  unfold Searchable.translatorEncrypt at hp
  simp only at hp
  cases hpp : protect c (stW.keys id) k m rnd with
  | err => rw [hpp] at hp; cases hp
  | panic => rw [hpp] at hp; cases hp
  | ok p' =>
    rw [hpp] at hp
    simp only [Out.ok.injEq, Prod.mk.injEq] at hp
    obtain ⟨rfl, rfl⟩ := hp
    obtain ⟨e, rfl, he, hlen, hmatch, hdec⟩ := protect_facts c k _ _ m rnd _ hyp hnm hnr hpp
    have hd : decryptWithHandler c (stR.keys id) k (serBytes e k.id) = .ok m := by
      have := decryptWithHandler_ser c (stR.keys id) k e [] he (by omega) hmatch
      rw [List.append_nil] at this
      rw [this, hdec]
    have hx := extractHashAndData_stored c hl hk m (serBytes e k.id)
    have heq : isEqual c (stR.hmac id) (generateHMAC c hk m) m = true := by rw [hkR]; exact isEqual_genuine c hk m
    exact ⟨rfl, decryptSearchableWith_ok k c stR id _ _ _ m (some _) hx hd heq,
      decryptSearchableWith_ok k c stR id _ _ _ m none hx hd heq⟩

/-- All protecting entry points compute the same thing: on a value that is not already protected
(`¬ matchKind`, `¬ registryMatch` – otherwise the handlers pass it through while the bare library call
would wrap it), library create + serialize, `EncryptWithHandler`, the SQL proxies' write chain and the
translator's encrypt operations all return `protect c (keys of id) k m rnd` – given the same random
stream, the very same bytes. -/
theorem producers_agree (c : CryptoOps) (P : Producer) (k : Kind) (st : Store) (id m rnd : Bytes) (hid : id ≠ [])
    (hhk : P = .translatorSearchable → ∃ hk, st.hmac id = some hk)
    (hnm : matchKind k m = false) (hnr : registryMatch m = false) :
    produce P c st id k m rnd = protect c (st.keys id) k m rnd := by
  cases P with
  | library => exact libraryProtect_eq_protect c _ k m rnd hnm hnr
  | handler => rfl
  | sqlWrite => rfl
  | translator => exact encryptOf_ok k c st id m rnd (fun _ => hid)
  | translatorSearchable =>
    obtain ⟨hk, hhk⟩ := hhk rfl
    show (encryptSearchableWith k c st m (some id) none rnd).bind _ = _
    rw [encryptSearchableWith_ok, hhk]
    unfold Searchable.translatorEncrypt
    cases protect c (st.keys id) k m rnd <;> rfl

/-- **Entry points agree** (table-driven over `Producer` × `Consumer`, `Translator.Producer.all` /
`Translator.Consumer.all` list them): a value produced for client `id` by ANY protecting entry point –
library create + serialize, the registry handler, the SQL proxies' write chain, the translator's
`Encrypt`/`EncryptSym`/`EncryptSearchable`/`EncryptSymSearchable` – is revealed to exactly the original
plaintext by EVERY revealing entry point: library decrypt of the inner envelope, `reveal`
(`RegistryHandler.Process`), the translator's `Decrypt`/`DecryptSym` and `DecryptSearchable`/
`DecryptSymSearchable` (hash `GenerateHMAC(hk, m)` passed separately or concatenated), and the
transparent column processor with the decrypt callback, with and without the compatibility wrapper.
`C.accepts k`: the translator's decrypt operations work with the handler of one envelope kind, so they
are consumers of values of that kind only. Hypotheses: those of `reveal_protect` between the writer's
and the reader's keys of `id`, the reader's HMAC key, 32-byte MACs, a non-empty client id. -/
theorem entry_points_agree (c : CryptoOps) (hl : HashLen c) (P : Producer) (C : Consumer) (k : Kind)
    (stW stR : Store) (id hk m rnd p : Bytes) (hid : id ≠ [])
    (hkW : P = .translatorSearchable → ∃ hk', stW.hmac id = some hk') (hkR : stR.hmac id = some hk)
    (hyp : RoundTripHyps c k (stW.keys id) (stR.keys id) m rnd p)
    (hnm : matchKind k m = false) (hnr : registryMatch m = false)
    (hacc : C.accepts k = true)
    (hp : produce P c stW id k m rnd = .ok p) :
    consume C c stR id p (generateHMAC c hk m) = .ok m := by
  rw [producers_agree c P k stW id m rnd hid hkW hnm hnr] at hp
  obtain ⟨e, rfl, he, hlen, hmatch, hdec⟩ := protect_facts c k _ _ m rnd p hyp hnm hnr hp
  have hd : decryptWithHandler c (stR.keys id) k (serBytes e k.id) = .ok m := by
    have := decryptWithHandler_ser c (stR.keys id) k e [] he (by omega) hmatch
    rw [List.append_nil] at this
    rw [this, hdec]
  have hne : m ≠ serBytes e k.id ++ [] := by
    intro h
    have := c01_registryMatch_ser k e [] he (by omega) hmatch
    rw [← h, hnr] at this
    cases this
  have hcol : ∀ front : List Callback, (∀ cb ∈ front, ∀ x, cb x = .same) →
      onColumn (front ++ [decryptCallback c (stR.keys id)]) (serBytes e k.id) = .ok m true := by
    intro front hfront
    have := (onColumn_reveal_embedded c (stR.keys id) k e [] [] m front [] he hlen hmatch hdec hne
      (fun cb hcb => Or.inl (hfront cb hcb _)) (by intro i hi; cases hi)).2
    simpa [c01_scan_nil, ScanOut.prepend] using this
  have hx := extractHashAndData_stored c hl hk m (serBytes e k.id)
  have heq : isEqual c (stR.hmac id) (generateHMAC c hk m) m = true := by rw [hkR]; exact isEqual_genuine c hk m
  cases C with
  | library =>
    have := libraryReveal_ser c (stR.keys id) k e [] m he (by omega) hdec
    rw [List.append_nil] at this
    exact this
  | reveal => exact reveal_protect c k _ _ m rnd _ hyp hnm hnr hp
  | translator k' =>
    have hk' : k' = k := by simpa [Consumer.accepts] using hacc
    subst hk'
    show (decryptOf k' c stR _ (some id) none).1 = _
    rw [decryptOf_ok k' c stR id _ (fun _ => hid), translatorDecrypt_of_ok c _ _ k' _ m hd]
  | translatorSearchableSep k' =>
    have hk' : k' = k := by simpa [Consumer.accepts] using hacc
    subst hk'
    show (decryptSearchableWith k' c stR _ (some _) (some id) none).1 = _
    rw [decryptSearchableWith_ok k' c stR id _ _ _ m (some _) hx hd heq]
  | translatorSearchableCat k' =>
    have hk' : k' = k := by simpa [Consumer.accepts] using hacc
    subst hk'
    show (decryptSearchableWith k' c stR _ none (some id) none).1 = _
    rw [decryptSearchableWith_ok k' c stR id _ _ _ m none hx hd heq]
  | onColumn =>
    show scanBytes (onColumn [decryptCallback c (stR.keys id)] _) = _
    have := hcol [] (by simp)
    rw [List.nil_append] at this
    rw [this]; rfl
  | onColumnCompat =>
    show scanBytes (onColumnCompat [decryptCallback c (stR.keys id)] _) = _
    have := hcol [fun _ => Cb.same] (by simp)
    unfold onColumnCompat
    simp only [List.singleton_append] at this
    rw [this]
    rfl

/-- the table has no gaps: every producer and every consumer is listed, and for each envelope kind
every consumer that is not a translator operation of the other kind accepts it -/
theorem entry_point_table_complete :
    (∀ P : Producer, P ∈ Producer.all) ∧ (∀ C : Consumer, C ∈ Consumer.all) ∧
    (∀ k : Kind, (Consumer.all.filter (fun C => C.accepts k)).length = 7) := by
  refine ⟨fun P => by cases P <;> decide, fun C => ?_, fun k => by cases k <;> decide⟩
  cases C with
  | translator k => cases k <;> decide
  | translatorSearchableSep k => cases k <;> decide
  | translatorSearchableCat k => cases k <;> decide
  | _ => decide

end TranslatorOps

/-! ## the searchable write path for values that arrive ALREADY protected

A searchable column is written through `hmac.SearchableDataEncryptor.EncryptWithClientID`
(`Searchable.searchableEncrypt`, the model C09 uses too). An application may hand the proxy a value that
already is protected for the client – an AcraStruct made by AcraWriter, a raw AcraBlock, a serialized
container from AcraTranslator. The encryptor then keeps the value as it arrived and puts in front of it
the search hash of what the value DECRYPTS to. The owner reads the column through the subscriber chain
`hmac.Processor → OldContainerDetectorWrapper/EnvelopeDetector/DecryptHandler → hmac.Processor`
(`Searchable.column` over `Searchable.clientDetector`): the hash is cut off, the envelope decrypted and
the hash verified against the decrypted bytes – only then does the client receive them. -/

section SearchableWrite
open AcraModel.Envelope.Translator AcraModel.Searchable

/-- What the model `searchableEncrypt` takes from the source of
`SearchableDataEncryptor.EncryptWithClientID` (`Generated/SearchWrite.lean`, regenerated from
`hmac/dataEncryptor.go`): the branch is taken on `e.decryptor.MatchDataSignature(data)`; nothing is hashed
before the branch; in the branch of an already protected value the arriving bytes are kept
(`encryptedData = data`) BEFORE `data` is replaced by the decryptor's output and the hash is computed
AFTER that replacement – i.e. over the plaintext –; in the other branch the hash is computed over the
value and the value is then encrypted; the result is `hash ++ encryptedData`. -/
theorem fact_searchable_write_flow :
    Generated.SearchWrite.matchCond = "e.decryptor.MatchDataSignature(data)" ∧
    Generated.SearchWrite.hashCalls = [("match", "data", true), ("else", "data", false)] ∧
    Generated.SearchWrite.preBranchAssigns = ["key, err := e.keystore.GetHMACSecretKey(clientID)"] ∧
    Generated.SearchWrite.matchBranchAssigns.head? = some "encryptedData = data" ∧
    Generated.SearchWrite.matchBranchAssigns.reverse.take 2 =
      ["hash = GenerateHMAC(key, data)", "data, err = e.decryptor.Process(data, processorContext)"] ∧
    Generated.SearchWrite.elseBranchAssigns =
      ["hash = GenerateHMAC(key, data)", "encryptedData, err = e.dataEncryptor.EncryptWithClientID(clientID, data, setting)"] ∧
    Generated.SearchWrite.returns = "append(hash, encryptedData...)" := by
  decide

/-- **Write side, every pre-protected form.** Whatever the arriving value `e` is – serialized container,
bare AcraStruct, bare AcraBlock –: if the registry handler recognises it (`registryMatch`) and opens it
to `m` with the keys of the writing session, the searchable encryptor stores `GenerateHMAC(key, m) ++ e`:
the value unchanged behind the blind index of its PLAINTEXT (the same index a write of `m` in clear
gets); if it cannot be opened, the write fails and nothing is stored. -/
theorem searchable_write_preprotected (c : CryptoOps) (hl : HashLen c) (hk : Bytes) (kvS : KeyView) (k : Kind)
    (e rnd : Bytes) (hm : registryMatch e = true) :
    (∀ m, process c kvS e = .ok m →
      searchableEncrypt c (some hk) kvS k e rnd = .ok (generateHMAC c hk m ++ e) ∧
      index (generateHMAC c hk m ++ e) = generateHMAC c hk m) ∧
    (process c kvS e = .err → searchableEncrypt c (some hk) kvS k e rnd = .err) :=
  ⟨fun m hd => ⟨searchableEncrypt_match c hk kvS k e m rnd hm hd, index_stored c hl hk m e⟩,
   fun hd => searchableEncrypt_match_err c hk kvS k e rnd hm hd⟩

/-- **Protect, write to a searchable column, read back – every pre-protected form.** Let `e` be a value
the registry handler recognises and opens to `m` with the writing session's keys; let the column
matcher recognise it (`matchEnvelope`) and the owner's detector chain decrypt it to `m`. Then the write
succeeds and the owner's read chain – from ANY state the `hmac.Processor` was left in – delivers
exactly `m`. (The four hypotheses are discharged for serialized containers in
`searchable_preprotected_container_roundtrip`; for bare envelopes they are checked on the generated
values by the correspondence ops `C01.handler.match`, `C01.handler.reveal`, `C09.match`,
`C01.detector.compat`.) -/
theorem searchable_preprotected_roundtrip (c : CryptoOps) (hl : HashLen c) (hk : Bytes) (kvS kvR : KeyView)
    (k : Kind) (e m rnd : Bytes) (st : PState) (hit : Bool)
    (hm : registryMatch e = true) (hd : process c kvS e = .ok m)
    (hme : matchEnvelope e = .ok true) (hdet : clientDetector c kvR e = .ok m hit) :
    ∃ s, searchableEncrypt c (some hk) kvS k e rnd = .ok s ∧ index s = generateHMAC c hk m ∧
      column c (some hk) (clientDetector c kvR) st s = .ok (PState.init, some m) := by
  refine ⟨_, searchableEncrypt_match c hk kvS k e m rnd hm hd, index_stored c hl hk m e, ?_⟩
  have he := extractHash_stored c hl hk m e
  have hdrop : (generateHMAC c hk m ++ e).drop (generateHMAC c hk m).length = e := by simp
  have hc := column_searchable c (some hk) (clientDetector c kvR) st _ (generateHMAC c hk m) m hit he
    (by rw [hdrop]; exact hme) (by rw [hdrop]; exact hdet)
  rw [hc, isEqual_genuine]
  rfl

/-- **The serialized-container form, all hypotheses discharged.** `p` is what `protect` (library,
registry handler, AcraTranslator – `producers_agree`) made of an unprotected `m` under the writer's keys
`kvW` with envelope kind `kw`. The application writes `p` to a searchable column (configured envelope
kind `k`, any randomness) in a session whose keys `kvS` open it, and the owner with keys `kvR` reads the
column back (`RoundTripHyps` between the writer and either key view, e.g. the same client before and
after rotations). Then the stored value is `GenerateHMAC(key, m) ++ p`, its blind index is the index of
`m`, and the read chain returns exactly `m`. -/
theorem searchable_preprotected_container_roundtrip (c : CryptoOps) (hl : HashLen c) (kw k : Kind)
    (kvW kvS kvR : KeyView) (hk m rnd rnd' p : Bytes) (st : PState)
    (hypS : RoundTripHyps c kw kvW kvS m rnd p) (hypR : RoundTripHyps c kw kvW kvR m rnd p)
    (hnm : matchKind kw m = false) (hnr : registryMatch m = false)
    (hp : protect c kvW kw m rnd = .ok p) :
    searchableEncrypt c (some hk) kvS k p rnd' = .ok (generateHMAC c hk m ++ p) ∧
    index (generateHMAC c hk m ++ p) = generateHMAC c hk m ∧
    column c (some hk) (clientDetector c kvR) st (generateHMAC c hk m ++ p) = .ok (PState.init, some m) := by
  have hrS : process c kvS p = .ok m := reveal_protect c kw kvW kvS m rnd p hypS hnm hnr hp
  have hrR : process c kvR p = .ok m := reveal_protect c kw kvW kvR m rnd p hypR hnm hnr hp
  obtain ⟨e, rfl, he, hlen, hmatch, _⟩ := protect_facts c kw kvW kvS m rnd p hypS hnm hnr hp
  have hdecR : decryptKind c kvR kw e = .ok m := by
    have := c01_process_ser c kvR kw e [] he (by omega) hmatch
    rw [List.append_nil] at this
    rw [← this]; exact hrR
  have hreg : registryMatch (serBytes e kw.id) = true := by
    have := c01_registryMatch_ser kw e [] he (by omega) hmatch
    rwa [List.append_nil] at this
  have hne : m ≠ serBytes e kw.id ++ [] := by
    intro h
    rw [List.append_nil] at h
    rw [← h, hnr] at hreg
    cases hreg
  have hme : matchEnvelope (serBytes e kw.id) = .ok true := by
    have := matchEnvelope_ser e [] kw.id kw he (c01_kindOfId_id kw) hlen
    rwa [List.append_nil] at this
  have hdet : clientDetector c kvR (serBytes e kw.id) = .ok m true := by
    have := (onColumn_reveal_embedded c kvR kw e [] [] m [fun _ => Cb.same] [] he hlen hmatch hdecR hne
      (fun cb hcb => Or.inl (by rw [List.mem_singleton.1 hcb])) (by intro i hi; cases hi)).2
    simp only [List.nil_append, List.append_nil, List.singleton_append, c01_scan_nil, ScanOut.prepend, Bool.or_true] at this
    unfold clientDetector onColumnCompat
    rw [this]
    rfl
  obtain ⟨s, hs, hi, hc⟩ := searchable_preprotected_roundtrip c hl hk kvS kvR k _ m rnd' st true hreg hrS hme hdet
  rw [searchableEncrypt_match c hk kvS k _ m rnd' hreg hrS] at hs
  cases hs
  exact ⟨searchableEncrypt_match c hk kvS k _ m rnd' hreg hrS, hi, hc⟩

/-- **The bare AcraStruct form (AcraWriter), all hypotheses about the envelope itself.** `e` is a
well-formed AcraStruct with a non-empty payload that the struct handler opens to `m` with the session's
keys `kvS` and with the owner's keys `kvR`. No crypto law is needed: the statement is about what the
code does with such a value. Two side conditions come from in-band signalling in the reader's legacy
scans (they are decidable, evaluated by the model for the generated values, and hold whenever the
ciphertext contains no `%%%`+header look-alike and the plaintext no envelope look-alike): `hw` – the
container scan passes over every position of `e` (`windowOk`, the condition of C11 §8); `hm` – the
PLAINTEXT contains no bare AcraBlock/AcraStruct the reader can open (automatic for plaintexts shorter
than 18 bytes, `short_plain_not_opened`). Then the write stores `GenerateHMAC(key, m) ++ e` and the owner's
read chain returns exactly `m`. -/
theorem searchable_preprotected_bare_struct_roundtrip (c : CryptoOps) (hl : HashLen c) (k : Kind)
    (kvS kvR : KeyView) (hk e m rnd : Bytes) (st : PState)
    (hv : validateStruct e = .ok ()) (hgt : structMin < e.length) (hlen : e.length + 12 < 2^63)
    (hdS : decryptKind c kvS .struct e = .ok m) (hdR : decryptKind c kvR .struct e = .ok m)
    (hne : m ≠ serBytes e idStruct) (hw : windowOk e [] = true)
    (hm : ∀ x id s, x <:+: m → serialize x id = .ok s → ∀ m', process c kvR s ≠ .ok m') :
    searchableEncrypt c (some hk) kvS k e rnd = .ok (generateHMAC c hk m ++ e) ∧
    index (generateHMAC c hk m ++ e) = generateHMAC c hk m ∧
    column c (some hk) (clientDetector c kvR) st (generateHMAC c hk m ++ e) = .ok (PState.init, some m) := by
  obtain ⟨hreg, hproc⟩ := bare_struct_registry c kvS e hv
  have hpS : process c kvS e = .ok m := by rw [hproc, hdS]
  have hme := matchEnvelope_bare_struct e hv hgt (by omega)
  have hdet := clientDetector_bare_struct c kvR e m hv hgt hlen hdR hne hw hm
  obtain ⟨s, hs, hi, hc⟩ := searchable_preprotected_roundtrip c hl hk kvS kvR k e m rnd st false hreg hpS hme hdet
  rw [searchableEncrypt_match c hk kvS k e m rnd hreg hpS] at hs
  cases hs
  exact ⟨searchableEncrypt_match c hk kvS k e m rnd hreg hpS, hi, hc⟩

/-- **The raw AcraBlock form.** `e` is exactly one AcraBlock (longer than the bare header) that is not at
the same time a well-formed AcraStruct (`hns`; an AcraBlock whose length field spells the second half of
the AcraStruct tag would be longer than 572 MB) and that the block handler opens to `m` with either key
view. Side conditions as above: `hw` – the container scan passes over `e`; `hs` – no part of `e`,
wrapped as an AcraStruct container, opens for the reader (automatic for a client without private keys,
`process_struct_container_no_privs`; the legacy struct scan runs over the block first). -/
theorem searchable_preprotected_bare_block_roundtrip (c : CryptoOps) (hl : HashLen c) (k : Kind)
    (kvS kvR : KeyView) (hk e m rnd : Bytes) (st : PState)
    (hns : validateStruct e = .err) (hx : extractBlock e = .ok (e.length, e)) (hgt : blockMin < e.length)
    (hlen : e.length + 12 < 2^63)
    (hdS : decryptKind c kvS .block e = .ok m) (hdR : decryptKind c kvR .block e = .ok m)
    (hne : m ≠ serBytes e idBlock) (hw : windowOk e [] = true)
    (hs : ∀ x s, x <:+: e → serialize x idStruct = .ok s → ∀ m', process c kvR s ≠ .ok m') :
    searchableEncrypt c (some hk) kvS k e rnd = .ok (generateHMAC c hk m ++ e) ∧
    index (generateHMAC c hk m ++ e) = generateHMAC c hk m ∧
    column c (some hk) (clientDetector c kvR) st (generateHMAC c hk m ++ e) = .ok (PState.init, some m) := by
  obtain ⟨hreg, hproc⟩ := bare_block_registry c kvS e e e.length hns hx
  have hpS : process c kvS e = .ok m := by rw [hproc, hdS]
  have hme := matchEnvelope_bare_block e hx hgt
  have hdet := clientDetector_bare_block c kvR e m hx hgt hlen hdR hne hw hs
  obtain ⟨s, hs', hi, hc⟩ := searchable_preprotected_roundtrip c hl hk kvS kvR k e m rnd st false hreg hpS hme hdet
  rw [searchableEncrypt_match c hk kvS k e m rnd hreg hpS] at hs'
  cases hs'
  exact ⟨searchableEncrypt_match c hk kvS k e m rnd hreg hpS, hi, hc⟩

end SearchableWrite

/-! ## non-vacuity: every hypothesis bundle above is satisfied by a concrete instance -/




/-- 1: block_roundtrip is applicable: stand-in instance, a key with a different id before the
writer's key, another key after it -/
example : ∃ b, createBlock toyOps [1,2,3] [7] [9,9] (List.replicate 56 5) = .ok b ∧
    (∀ suffix, extractBlock (b ++ suffix) = .ok (b.length, b)) ∧
    decryptBlock toyOps ([[4,5]] ++ [1,2,3] :: [[1,2,9]]) [7] b = .ok [9,9] := by
  have hs := toy_sealLaws
  have hsl := toy_sealLen
  obtain ⟨b, hb⟩ := block_create_total toyOps hs [1,2,3] [7] [9,9] (List.replicate 56 5) (by decide) (by decide)
    (by decide) (by decide)
  have hkid := keyId_length toyOps toy_hashLen [1,2,3] [7]
  obtain ⟨hl, _, hek⟩ := block_sizes toyOps hs hsl _ _ _ _ b hkid hb
  refine ⟨b, hb, block_roundtrip toyOps hs [1,2,3] [7] [9,9] _ b [[4,5]] [[1,2,9]] hkid
    (fun ek h => by rw [hek ek h]; decide) (by rw [hl]; decide) hb ?_⟩
  intro k' hk' encKey _ hid
  simp only [List.mem_singleton] at hk'
  subst hk'
  exact absurd hid (by decide)



/-- 1': block_roundtrip_commit is applicable: the transparent-box instance (which has key
commitment), an earlier key `[1,2,4]` whose 2-byte id collides with the writer's `[1,2,3]` -/
example : keyId boxOps [1,2,4] [] = keyId boxOps [1,2,3] [] ∧
    ∃ b, createBlock boxOps [1,2,3] [] [9,9] (List.replicate 56 5) = .ok b ∧
    (∀ suffix, extractBlock (b ++ suffix) = .ok (b.length, b)) ∧
    decryptBlock boxOps [[1,2,4], [1,2,3]] [] b = .ok [9,9] := by
  refine ⟨by decide, ?_⟩
  obtain ⟨b, hb⟩ := block_create_total boxOps Box.sealLaws [1,2,3] [] [9,9] (List.replicate 56 5) (by decide) (by decide)
    (by decide) (by decide)
  have hkid : (keyId boxOps [1,2,3] []).length = 2 := by decide
  have hek : ∀ encKey, boxOps.enc [1,2,3] [] ((List.replicate 56 5).take 32) (((List.replicate 56 (5:UInt8)).drop 44).take 12) = some encKey →
      encKey.length < 65536 := by
    intro encKey h
    have : boxOps.enc [1,2,3] [] ((List.replicate 56 5).take 32) (((List.replicate 56 (5:UInt8)).drop 44).take 12) =
        some (Box.esc [1,2,3] ++ (Box.esc [] ++ (Box.esc (List.replicate 12 5) ++ List.replicate 32 5))) := by decide
    rw [this] at h
    cases h
    decide
  have hbl : b.length < 2^64 := by
    obtain ⟨encData, encKey, h1, h2, rfl⟩ := c01_createBlock_ok hb
    have e1 : boxOps.enc ((List.replicate 56 5).take 32) [] [9,9] (((List.replicate 56 (5:UInt8)).drop 32).take 12) =
        some (Box.esc (List.replicate 32 5) ++ (Box.esc [] ++ (Box.esc (List.replicate 12 5) ++ [9,9]))) := by decide
    have e2 : boxOps.enc [1,2,3] [] ((List.replicate 56 5).take 32) (((List.replicate 56 (5:UInt8)).drop 44).take 12) =
        some (Box.esc [1,2,3] ++ (Box.esc [] ++ (Box.esc (List.replicate 12 5) ++ List.replicate 32 5))) := by decide
    rw [e1] at h1; rw [e2] at h2
    cases h1; cases h2
    rw [c01_buildBlock_length _ _ _ hkid]
    decide
  exact ⟨b, hb, block_roundtrip_commit boxOps Box.sealLaws Box.sealCommit [1,2,3] [] [9,9] _ b [[1,2,4], [1,2,3]]
    hkid hek hbl hb (by simp)⟩





/-- 4/5/6 (AcraBlock kind): written with key `[1,2,3]`, read with the rotated key list
`[[4,5], [1,2,3], [1,2,9]]`; the protected value sits behind the prefix `%%` (two bytes that look like
the beginning of a container tag) and before `cd` -/
example :
    let kvW : KeyView := ⟨none, none, some [1,2,3], none⟩
    let kvR : KeyView := ⟨none, none, some [4,5], some ([[4,5]] ++ [1,2,3] :: [[1,2,9]])⟩
    ∃ p, protect toyOps kvW .block [9,9] (List.replicate 56 5) = .ok p ∧ reveal toyOps kvR p = .ok [9,9] ∧
      (∀ k' kv' rnd', protect toyOps kv' k' p rnd' = .ok p) ∧
      onColumn [decryptCallback toyOps kvR] ([37,37] ++ p ++ [99,100]) = .ok ([37,37] ++ [9,9] ++ [99,100]) true := by
  intro kvW kvR
  have hs := toy_sealLaws
  have hsl := toy_sealLen
  have hkid := keyId_length toyOps toy_hashLen [1,2,3] []
  have hnm : matchKind .block [9,9] = false := by decide
  have hnr : registryMatch [9,9] = false := by decide
  obtain ⟨p, hp⟩ := protect_block_total toyOps hs kvW [1,2,3] [9,9] (List.replicate 56 5) rfl (by decide) (by decide)
    (by decide) (by decide)
  obtain ⟨hpl, _⟩ := protect_block_length toyOps hs hsl kvW [1,2,3] [9,9] _ p rfl hkid hnm hnr hp
  have hpl' : p.length = 152 := hpl
  have hek : ∀ encKey, toyOps.enc [1,2,3] [] ((List.replicate 56 5).take 32) (((List.replicate 56 (5:UInt8)).drop 44).take 12) = some encKey →
      encKey.length < 65536 := by
    intro ek h
    have := hsl.enc_len _ _ _ _ _ h
    rw [this]; decide
  have hkpre : ∀ k' ∈ [[4,5]], ∀ encKey, toyOps.enc [1,2,3] [] ((List.replicate 56 5).take 32) (((List.replicate 56 (5:UInt8)).drop 44).take 12) = some encKey →
      keyId toyOps k' [] = keyId toyOps [1,2,3] [] → toyOps.dec k' [] encKey = none := by
    intro k' hk' encKey _ hid
    simp only [List.mem_singleton] at hk'
    subst hk'
    exact absurd hid (by decide)
  have hne : ∀ suf : Bytes, [9,9] ≠ p ++ suf := by
    intro suf h
    have := congrArg List.length h
    rw [List.length_append, hpl'] at this
    simp at this
    omega
  have hH : RoundTripHyps toyOps .block kvW kvR [9,9] (List.replicate 56 5) p :=
    ⟨hs, [1,2,3], [[4,5]], [[1,2,9]], hkid, rfl, rfl, hkpre, hek, by rw [hpl']; decide⟩
  refine ⟨p, hp, ?_, ?_, ?_⟩
  · exact reveal_protect toyOps .block kvW kvR [9,9] _ p hH hnm hnr hp
  · exact protect_idempotent toyOps .block kvW kvR [9,9] _ p hH hp
      (by have := hne []; rw [List.append_nil] at this; exact fun h => this h.symm)
  · have h := onColumn_protect_embedded toyOps .block kvW kvR [9,9] _ p [37,37] [99,100] [] [] hH
      hnm hnr hp (hne _) (by simp) ?_
    · rw [List.nil_append] at h
      obtain ⟨hit, hsc⟩ := c01_scan_plain [decryptCallback toyOps kvR] [99,100]
        (by have := c01_skip_of_no_tag_byte [decryptCallback toyOps kvR] [99,100] [] (by decide)
            simpa using this)
      rw [h, hsc]
      simp [ScanOut.prepend]
    · -- the two `%` positions of the prefix: byte 11 from there is a byte of the length field, not an envelope id
      obtain ⟨e, he, _, rfl⟩ := c01_protect_ok hp hnm hnr
      have hel : e.length = 140 := by rw [c01_serBytes_length] at hpl'; omega
      intro i hi
      have hi' : i = 0 ∨ i = 1 := by simp at hi; omega
      refine ⟨false, ?_⟩
      rcases hi' with rfl | rfl
      · apply c01_headStep_pct_bad_id
        intro x hx
        unfold serBytes at hx
        rw [hel] at hx
        have : x = 0 := by
          simp [containerTag, toBytes, Layout.containerTag, containerMin, Layout.containerMinSize, leBytes] at hx
          exact hx.symm
        subst this; decide
      · apply c01_headStep_pct_bad_id
        intro x hx
        unfold serBytes at hx
        rw [hel] at hx
        have : x = 0 := by
          simp [containerTag, toBytes, Layout.containerTag, containerMin, Layout.containerMinSize, leBytes] at hx
          exact hx.symm
        subst this; decide



/-- 2: struct_roundtrip is applicable to the executable stand-in instance (`H` = SHA-256): a generated
key pair, the reader's list has the right key first and another key after it -/
example :
    let priv := shimOps.privOfSeed (List.replicate 32 1)
    let other := shimOps.privOfSeed (List.replicate 32 2)
    ∃ s, createStruct shimOps (shimOps.pubOf priv) [7] [1,2,3] (List.replicate 88 7) = .ok s ∧
      validateStruct s = .ok () ∧ (∀ suffix, extractStruct (s ++ suffix) = .ok (s.length, s)) ∧
      decryptStructRotated shimOps [7] s ([] ++ priv :: [other]) = .ok [1,2,3] := by
  intro priv other
  have hpriv : shimOps.validPriv priv = true := shim_keygenLaws.valid_seed _ (by decide)
  obtain ⟨s, hsc⟩ := struct_create_total shimOps shim_sealLaws shim_msgLaws shim_keygenLaws priv [7] [1,2,3]
    (List.replicate 88 7) hpriv (by decide) (by decide) (by decide)
  exact ⟨s, hsc, struct_roundtrip shimOps shim_sealLaws shim_sealLen shim_msgLaws shim_msgLen shim_keygenLaws
    priv [7] [1,2,3] _ s [] [other] hpriv hsc (by simp)⟩

/-- 4/5/6 (AcraStruct kind) on the executable stand-in instance: protect with the public key, reveal
with a key list that has the matching private key first, never wrapped twice, found inside text -/
example :
    let priv := shimOps.privOfSeed (List.replicate 32 1)
    let other := shimOps.privOfSeed (List.replicate 32 2)
    let kvW : KeyView := ⟨some (shimOps.pubOf priv), none, none, none⟩
    let kvR : KeyView := ⟨none, some ([] ++ priv :: [other]), none, none⟩
    ∃ p, protect shimOps kvW .struct [1,2,3] (List.replicate 88 7) = .ok p ∧ reveal shimOps kvR p = .ok [1,2,3] ∧
      (∀ k' kv' rnd', protect shimOps kv' k' p rnd' = .ok p) ∧
      onColumn [decryptCallback shimOps kvR] ([97,98] ++ p ++ [99,100]) = .ok ([97,98] ++ [1,2,3] ++ [99,100]) true := by
  intro priv other kvW kvR
  have hpriv : shimOps.validPriv priv = true := shim_keygenLaws.valid_seed _ (by decide)
  have hnm : matchKind .struct [1,2,3] = false := by decide
  have hnr : registryMatch [1,2,3] = false := by decide
  obtain ⟨p, hp⟩ := protect_struct_total shimOps shim_sealLaws shim_msgLaws shim_keygenLaws kvW priv [1,2,3]
    (List.replicate 88 7) hpriv rfl (by decide) (by decide) (by decide)
  obtain ⟨hpl, _⟩ := protect_struct_length shimOps shim_sealLaws shim_sealLen shim_msgLen shim_keygenLaws kvW _ _ p hnm hnr hp
  have hH : RoundTripHyps shimOps .struct kvW kvR [1,2,3] (List.replicate 88 7) p :=
    ⟨shim_sealLaws, shim_sealLen, shim_msgLaws, shim_msgLen, shim_keygenLaws, priv, [], [other], hpriv, rfl, rfl, by simp⟩
  refine ⟨p, hp, ?_, ?_, ?_⟩
  · exact reveal_protect shimOps .struct kvW kvR [1,2,3] _ p hH hnm hnr hp
  · exact protect_idempotent shimOps .struct kvW kvR [1,2,3] _ p hH hp
      (by intro h; rw [h] at hpl; simp at hpl)
  · exact onColumn_protect_struct_in_text shimOps shim_sealLaws shim_sealLen shim_msgLaws shim_msgLen shim_keygenLaws
      kvW kvR priv [1,2,3] _ p [97,98] [99,100] [] [other] hpriv rfl rfl (by simp) hnm hnr hp (by decide) (by decide)


/-- 8: the translator theorems and the entry-point table are applicable (AcraBlock kind, stand-in
instance with 32-byte hashes; written with key `[1,2,3]`, read with the rotated key list): EVERY
producer yields the value `p`, and EVERY consumer that accepts AcraBlocks reveals `[9,9]` from it;
`EncryptSym`/`DecryptSym` and `EncryptSymSearchable`/`DecryptSymSearchable` round-trip for client `c` -/
example :
    let kvW : KeyView := ⟨none, none, some [1,2,3], none⟩
    let kvR : KeyView := ⟨none, none, some [4,5], some ([[4,5]] ++ [1,2,3] :: [[1,2,9]])⟩
    let cfg : PoisonCfg := ⟨false, false, ⟨none, none, none, none⟩⟩
    let stW : Translator.Store := ⟨fun _ => kvW, fun _ => some [7], cfg⟩
    let stR : Translator.Store := ⟨fun _ => kvR, fun _ => some [7], cfg⟩
    ∃ p, Translator.encryptSym toyOps stW [9,9] (some [99]) none (List.replicate 56 5) = .ok p ∧
      Translator.decryptSym toyOps stR p (some [99]) none = (.ok [9,9], 0) ∧
      Translator.encryptSymSearchable toyOps stW [9,9] (some [99]) none (List.replicate 56 5) =
        .ok (p, Searchable.generateHMAC toyOps [7] [9,9]) ∧
      Translator.decryptSymSearchable toyOps stR p (some (Searchable.generateHMAC toyOps [7] [9,9])) (some [99]) none = (.ok [9,9], 0) ∧
      Translator.decryptSymSearchable toyOps stR (Searchable.generateHMAC toyOps [7] [9,9] ++ p) none (some [99]) none = (.ok [9,9], 0) ∧
      ∀ (P : Translator.Producer) (C : Translator.Consumer), C.accepts .block = true →
        Translator.produce P toyOps stW [99] .block [9,9] (List.replicate 56 5) = .ok p ∧
        Translator.consume C toyOps stR [99] p (Searchable.generateHMAC toyOps [7] [9,9]) = .ok [9,9] := by
  intro kvW kvR cfg stW stR
  have hs := toy_sealLaws
  have hsl := toy_sealLen
  have hkid := keyId_length toyOps toy_hashLen [1,2,3] []
  have hnm : matchKind .block [9,9] = false := by decide
  have hnr : registryMatch [9,9] = false := by decide
  obtain ⟨p, hp⟩ := protect_block_total toyOps hs kvW [1,2,3] [9,9] (List.replicate 56 5) rfl (by decide) (by decide)
    (by decide) (by decide)
  obtain ⟨hpl, _⟩ := protect_block_length toyOps hs hsl kvW [1,2,3] [9,9] _ p rfl hkid hnm hnr hp
  have hpl' : p.length = 152 := hpl
  have hek : ∀ encKey, toyOps.enc [1,2,3] [] ((List.replicate 56 5).take 32) (((List.replicate 56 (5:UInt8)).drop 44).take 12) = some encKey →
      encKey.length < 65536 := by
    intro ek h
    have := hsl.enc_len _ _ _ _ _ h
    rw [this]; decide
  have hkpre : ∀ k' ∈ [[4,5]], ∀ encKey, toyOps.enc [1,2,3] [] ((List.replicate 56 5).take 32) (((List.replicate 56 (5:UInt8)).drop 44).take 12) = some encKey →
      keyId toyOps k' [] = keyId toyOps [1,2,3] [] → toyOps.dec k' [] encKey = none := by
    intro k' hk' encKey _ hid
    simp only [List.mem_singleton] at hk'
    subst hk'
    exact absurd hid (by decide)
  have hH : RoundTripHyps toyOps .block (stW.keys [99]) (stR.keys [99]) [9,9] (List.replicate 56 5) p :=
    ⟨hs, [1,2,3], [[4,5]], [[1,2,9]], hkid, rfl, rfl, hkpre, hek, by rw [hpl']; decide⟩
  have hall : ∀ P : Translator.Producer, Translator.produce P toyOps stW [99] .block [9,9] (List.replicate 56 5) = .ok p := by
    intro P
    rw [producers_agree toyOps P .block stW [99] [9,9] _ (by decide) (fun _ => ⟨[7], rfl⟩) hnm hnr]
    exact hp
  have henc : Translator.encryptSym toyOps stW [9,9] (some [99]) none (List.replicate 56 5) = .ok p := hall .translator
  have hencS : Translator.encryptSymSearchable toyOps stW [9,9] (some [99]) none (List.replicate 56 5) =
      .ok (p, Searchable.generateHMAC toyOps [7] [9,9]) := by
    show Translator.encryptSearchableWith .block toyOps stW [9,9] (some [99]) none _ = _
    rw [Translator.encryptSearchableWith_ok]
    show Searchable.translatorEncrypt toyOps (some [7]) kvW .block [9,9] _ = _
    unfold Searchable.translatorEncrypt
    simp only [hp]
  obtain ⟨_, hsep, hcat⟩ := translator_searchable_roundtrip toyOps toy_hashLen .block stW stR [99] [7] [9,9] _ p _ rfl rfl hH hnm hnr hencS
  refine ⟨p, henc, translator_roundtrip_block toyOps stW stR [99] [9,9] _ p hH hnm hnr henc, hencS, hsep, hcat, ?_⟩
  intro P C hacc
  exact ⟨hall P, entry_points_agree toyOps toy_hashLen P C .block stW stR [99] [7] [9,9] _ p (by decide) (fun _ => ⟨[7], rfl⟩) rfl hH hnm hnr hacc (hall P)⟩

/-- 8b: the searchable write path with a value that arrives already protected (stand-in with 32-byte
hashes): `[9,9]` protected as a serialized AcraBlock container by a writer with key `[1,2,3]` is written to
a searchable column (configured kind AcraStruct, other randomness) in a session whose rotated key list
still holds `[1,2,3]`; the stored value is the index of `[9,9]` followed by the container as it arrived,
and the owner's read chain – from a processor state left dirty on purpose – returns `[9,9]`. -/
example :
    let kvW : KeyView := ⟨none, none, some [1,2,3], none⟩
    let kvR : KeyView := ⟨none, none, some [4,5], some ([[4,5]] ++ [1,2,3] :: [[1,2,9]])⟩
    let dirty : Searchable.PState := ⟨some [1], some [2], [3]⟩
    ∃ p, protect toyOps kvW .block [9,9] (List.replicate 56 5) = .ok p ∧
      Searchable.searchableEncrypt toyOps (some [7]) kvR .struct p (List.replicate 96 6) =
        .ok (Searchable.generateHMAC toyOps [7] [9,9] ++ p) ∧
      Searchable.column toyOps (some [7]) (Searchable.clientDetector toyOps kvR) dirty
        (Searchable.generateHMAC toyOps [7] [9,9] ++ p) = .ok (Searchable.PState.init, some [9,9]) := by
  intro kvW kvR dirty
  have hs := toy_sealLaws
  have hsl := toy_sealLen
  have hkid := keyId_length toyOps toy_hashLen [1,2,3] []
  have hnm : matchKind .block [9,9] = false := by decide
  have hnr : registryMatch [9,9] = false := by decide
  obtain ⟨p, hp⟩ := protect_block_total toyOps hs kvW [1,2,3] [9,9] (List.replicate 56 5) rfl (by decide) (by decide)
    (by decide) (by decide)
  obtain ⟨hpl, _⟩ := protect_block_length toyOps hs hsl kvW [1,2,3] [9,9] _ p rfl hkid hnm hnr hp
  have hpl' : p.length = 152 := hpl
  have hek : ∀ encKey, toyOps.enc [1,2,3] [] ((List.replicate 56 5).take 32) (((List.replicate 56 (5:UInt8)).drop 44).take 12) = some encKey →
      encKey.length < 65536 := by
    intro ek h
    have := hsl.enc_len _ _ _ _ _ h
    rw [this]; decide
  have hkpre : ∀ k' ∈ [[4,5]], ∀ encKey, toyOps.enc [1,2,3] [] ((List.replicate 56 5).take 32) (((List.replicate 56 (5:UInt8)).drop 44).take 12) = some encKey →
      keyId toyOps k' [] = keyId toyOps [1,2,3] [] → toyOps.dec k' [] encKey = none := by
    intro k' hk' encKey _ hid
    simp only [List.mem_singleton] at hk'
    subst hk'
    exact absurd hid (by decide)
  have hH : RoundTripHyps toyOps .block kvW kvR [9,9] (List.replicate 56 5) p :=
    ⟨hs, [1,2,3], [[4,5]], [[1,2,9]], hkid, rfl, rfl, hkpre, hek, by rw [hpl']; decide⟩
  obtain ⟨h1, _, h3⟩ := searchable_preprotected_container_roundtrip toyOps toy_hashLen .block .struct kvW kvR kvR [7] [9,9]
    (List.replicate 56 5) (List.replicate 96 6) p dirty hH hH hnm hnr hp
  exact ⟨p, hp, h1, h3⟩

/-- executable instances for the non-vacuity examples of the bare-envelope theorems, whose hypotheses are
about concrete outcomes (no crypto law is assumed there): `lenBoxOps` – the transparent box (all seal laws)
with 32-byte hashes; `plainOps` – "sealing" appends a marker byte, keys are padded to the AcraStruct
layout (45-byte public key, 84-byte wrapped key) -/
def lenBoxOps : CryptoOps :=
  { boxOps with hmac := fun _ m => (m ++ List.replicate 32 0).take 32,
                sha256 := fun m => (m ++ List.replicate 32 0).take 32 }

theorem lenBoxOps_hashLen : HashLen lenBoxOps where
  hmac_len := by intro k m; simp [lenBoxOps, List.length_take]
  sha_len := by intro m; simp [lenBoxOps, List.length_take]

def plainOps : CryptoOps :=
  { enc := fun _ _ m _ => some (m ++ [1]), dec := fun _ _ ct => some ct.dropLast,
    wrap := fun _ _ m _ => some ((m ++ List.replicate 84 0).take 84), unwrap := fun _ _ ct => some (ct.take 32),
    pubOf := fun p => (p ++ List.replicate 45 0).take 45, validPriv := fun _ => true, privOfSeed := id,
    hmac := fun _ m => (m ++ List.replicate 32 0).take 32, sha256 := fun m => (m ++ List.replicate 32 0).take 32 }

theorem plainOps_hashLen : HashLen plainOps where
  hmac_len := by intro k m; simp [plainOps, List.length_take]
  sha_len := by intro m; simp [plainOps, List.length_take]

set_option maxRecDepth 100000 in
/-- 8c: a raw AcraBlock (created with key `[1,2,3]` around `[9,9]`, transparent box) written to a searchable
column by a symmetric-only client whose rotated key list still holds `[1,2,3]`, and read back. -/
example :
    let kv : KeyView := ⟨none, none, some [4,5], some [[4,5],[1,2,3]]⟩
    ∃ e, createBlock lenBoxOps [1,2,3] [] [9,9] (List.replicate 56 5) = .ok e ∧
      Searchable.searchableEncrypt lenBoxOps (some [7]) kv .struct e (List.replicate 96 6) =
        .ok (Searchable.generateHMAC lenBoxOps [7] [9,9] ++ e) ∧
      Searchable.column lenBoxOps (some [7]) (Searchable.clientDetector lenBoxOps kv) Searchable.PState.init
        (Searchable.generateHMAC lenBoxOps [7] [9,9] ++ e) = .ok (Searchable.PState.init, some [9,9]) := by
  intro kv
  obtain ⟨e, he⟩ : ∃ e, createBlock lenBoxOps [1,2,3] [] [9,9] (List.replicate 56 5) = .ok e := by
    cases h : createBlock lenBoxOps [1,2,3] [] [9,9] (List.replicate 56 5) with
    | ok e => exact ⟨e, rfl⟩
    | err => exact absurd h (by decide)
    | panic => exact absurd h (by decide)
  have hev : e = (match createBlock lenBoxOps [1,2,3] [] [9,9] (List.replicate 56 5) with | .ok b => b | _ => []) := by rw [he]
  have hlen : e.length = 176 := by rw [hev]; decide
  obtain ⟨h1, _, h3⟩ := searchable_preprotected_bare_block_roundtrip lenBoxOps lenBoxOps_hashLen .struct kv kv [7] e [9,9]
    (List.replicate 96 6) Searchable.PState.init (by rw [hev]; decide) (by rw [hev]; decide) (by rw [hlen]; decide)
    (by rw [hlen]; decide) (by rw [hev]; decide) (by rw [hev]; decide) (by rw [hev]; decide) (by rw [hev]; decide)
    (fun x s hx hser => Searchable.process_struct_container_no_privs lenBoxOps kv rfl x s
      (by have := infix_length_le hx; omega) hser)
  exact ⟨e, he, h1, h3⟩

set_option maxRecDepth 100000 in
/-- 8d: a bare AcraStruct (`plainOps`, public key `[8]`) around `[9,9]` written to a searchable column and
read back by a client holding the private key `[3]`. -/
example :
    let kv : KeyView := ⟨some [8], some [[3]], none, none⟩
    ∃ e, createStruct plainOps [8] [] [9,9] (List.replicate 88 7) = .ok e ∧
      Searchable.searchableEncrypt plainOps (some [7]) kv .block e (List.replicate 96 6) =
        .ok (Searchable.generateHMAC plainOps [7] [9,9] ++ e) ∧
      Searchable.column plainOps (some [7]) (Searchable.clientDetector plainOps kv) Searchable.PState.init
        (Searchable.generateHMAC plainOps [7] [9,9] ++ e) = .ok (Searchable.PState.init, some [9,9]) := by
  intro kv
  obtain ⟨e, he⟩ : ∃ e, createStruct plainOps [8] [] [9,9] (List.replicate 88 7) = .ok e := by
    cases h : createStruct plainOps [8] [] [9,9] (List.replicate 88 7) with
    | ok e => exact ⟨e, rfl⟩
    | err => exact absurd h (by decide)
    | panic => exact absurd h (by decide)
  have hev : e = (match createStruct plainOps [8] [] [9,9] (List.replicate 88 7) with | .ok b => b | _ => []) := by rw [he]
  have hlen : e.length = 148 := by rw [hev]; decide
  obtain ⟨h1, _, h3⟩ := searchable_preprotected_bare_struct_roundtrip plainOps plainOps_hashLen .block kv kv [7] e [9,9]
    (List.replicate 96 6) Searchable.PState.init (by rw [hev]; decide) (by rw [hlen]; decide) (by rw [hlen]; decide)
    (by rw [hev]; decide) (by rw [hev]; decide) (by rw [hev]; decide) (by rw [hev]; decide)
    (Searchable.short_plain_not_opened plainOps kv [9,9] (by decide))
  exact ⟨e, he, h1, h3⟩

/-- 9: the same table for the AcraStruct kind on the stand-in instance with 32-byte hashes: `Encrypt`
round-trips through `Decrypt`, and every consumer that accepts AcraStructs reveals the plaintext of the
value of every producer -/
example :
    let priv := toyOps.privOfSeed (List.replicate 32 1)
    let other := toyOps.privOfSeed (List.replicate 32 2)
    let kvW : KeyView := ⟨some (toyOps.pubOf priv), none, none, none⟩
    let kvR : KeyView := ⟨none, some ([] ++ priv :: [other]), none, none⟩
    let cfg : PoisonCfg := ⟨false, false, ⟨none, none, none, none⟩⟩
    let stW : Translator.Store := ⟨fun _ => kvW, fun _ => some [7], cfg⟩
    let stR : Translator.Store := ⟨fun _ => kvR, fun _ => some [7], cfg⟩
    ∃ p, Translator.encrypt toyOps stW [1,2,3] (some [99]) none (List.replicate 88 7) = .ok p ∧
      Translator.decrypt toyOps stR p (some [99]) none = (.ok [1,2,3], 0) ∧
      ∀ (P : Translator.Producer) (C : Translator.Consumer), C.accepts .struct = true →
        Translator.produce P toyOps stW [99] .struct [1,2,3] (List.replicate 88 7) = .ok p ∧
        Translator.consume C toyOps stR [99] p (Searchable.generateHMAC toyOps [7] [1,2,3]) = .ok [1,2,3] := by
  intro priv other kvW kvR cfg stW stR
  have hsL : SealLaws toyOps := toy_sealLaws
  have hmL : MsgLaws toyOps := Shim.msgLaws toyHash
  have hkL : KeygenLaws toyOps := Shim.keygenLaws toyHash
  have hpriv : toyOps.validPriv priv = true := hkL.valid_seed _ (by decide)
  have hnm : matchKind .struct [1,2,3] = false := by decide
  have hnr : registryMatch [1,2,3] = false := by decide
  obtain ⟨p, hp⟩ := protect_struct_total toyOps hsL hmL hkL kvW priv [1,2,3]
    (List.replicate 88 7) hpriv rfl (by decide) (by decide) (by decide)
  have hH : RoundTripHyps toyOps .struct (stW.keys [99]) (stR.keys [99]) [1,2,3] (List.replicate 88 7) p :=
    ⟨hsL, toy_sealLen, hmL, Shim.msgLen toyHash, hkL, priv, [], [other], hpriv, rfl, rfl, by simp⟩
  have hall : ∀ P : Translator.Producer, Translator.produce P toyOps stW [99] .struct [1,2,3] (List.replicate 88 7) = .ok p := by
    intro P
    rw [producers_agree toyOps P .struct stW [99] [1,2,3] _ (by decide) (fun _ => ⟨[7], rfl⟩) hnm hnr]
    exact hp
  have henc : Translator.encrypt toyOps stW [1,2,3] (some [99]) none (List.replicate 88 7) = .ok p := hall .translator
  refine ⟨p, henc, translator_roundtrip_struct toyOps stW stR [99] [1,2,3] _ p (by decide) hH hnm hnr henc, ?_⟩
  intro P C hacc
  exact ⟨hall P, entry_points_agree toyOps toy_hashLen P C .struct stW stR [99] [7] [1,2,3] _ p (by decide) (fun _ => ⟨[7], rfl⟩) rfl hH hnm hnr hacc (hall P)⟩

/-- 3: container_roundtrip is applicable -/
example : ∃ p, serialize [1,2,3] idStruct = .ok p ∧ deserialize (p ++ [5]) = .ok ([1,2,3], idStruct) := by
  obtain ⟨p, h1, _, _, h4, _⟩ := container_roundtrip [1,2,3] idStruct (by decide) (by decide) (Or.inr rfl)
  exact ⟨p, h1, h4 [5]⟩

/-- 7: the hypotheses of protect_empty_err hold for both instances -/
example : protect shimOps ⟨none, none, some [1], none⟩ .block [] [] = .err ∧
    protect boxOps ⟨some [1], none, none, none⟩ .struct [] [] = .err :=
  ⟨protect_empty_err shimOps shim_sealLaws _ _ _, protect_empty_err boxOps Box.sealLaws _ _ _⟩

end AcraModel.Props.C01
