import AcraModel.Keystore.V1Cache
import AcraModel.Keystore.V2Store
import AcraModel.Keystore.Lemmas
import AcraModel.Keystore.RingLemmas
import AcraModel.Keystore.V1Lemmas
import AcraModel.Keystore.RefineV1Step
import AcraModel.Keystore.RefineV2Step
import AcraModel.Keystore.RefineCacheStep
import AcraModel.Keystore.RefineCacheMono3
/-!
# C06 — rotation keeps old data readable; destruction removes exactly the chosen key

Property theorems only (models and helper lemmas live in `AcraModel/Keystore`).
-/
namespace AcraModel.Props.C06
open AcraModel AcraModel.Keystore Generated

/-! ## facts regenerated from the source -/

/-- Both formats number the rotated listing from 2 and the destroy functions subtract the same
offset, so listed index `i` addresses element `i - 2` of the list the listing enumerated.
(On the pinned tree `v1DestroyIndexOffset` was 1: the wrong file was removed.) -/
theorem fact_index_conventions :
    KeyNames.v1FirstListedIndex = 2 ∧ KeyNames.v1DestroyIndexOffset = KeyNames.v1FirstListedIndex ∧
    KeyNames.v2FirstListedIndex = 2 ∧ KeyNames.v2DestroyIndexOffset = KeyNames.v2FirstListedIndex := by decide

/-- The state constants of the API are the six states of the model, in this order, with the ASN.1 values 1..6. -/
theorem fact_state_names :
    KeyState.stateNames = [KState.preActive, .active, .suspended, .deactivated, .compromised, .destroyed].map KState.name ∧
    KeyState.stateValues = [1, 2, 3, 4, 5, 6] ∧ KeyState.defaultInvalid = true := by decide

/-- Key names of both formats the models and the harness rely on. -/
theorem fact_key_names :
    KeyNames.v1StorageFmt = "%s_storage" ∧ KeyNames.v1SymSuffix = "_sym" ∧ KeyNames.v1HmacFmt = "%s_hmac" ∧
    KeyNames.v1PublicFmt = "%s.pub" ∧ KeyNames.v1HistoryDirSuffix = ".old" ∧
    KeyNames.v1PoisonKeyName = ".poison_key/poison_key" ∧ KeyNames.v1LogKeyName = "secure_log_key" ∧
    KeyNames.v2KeyringSuffix = ".keyring" ∧ KeyNames.v2NewSuffix = ".new" := by decide

/-! ## the key-state machine -/

/-- **state_table.** In the regenerated transition table `destroyed` is terminal, and a key can be
destroyed exactly from the states pre-active, deactivated and compromised (so an active or suspended
key must be deactivated first). -/
theorem state_table :
    (∀ b, transitionValid .destroyed b = false) ∧
    (∀ a, transitionValid a .destroyed = true ↔ (a = .preActive ∨ a = .deactivated ∨ a = .compromised)) := by
  constructor
  · intro b; cases b <;> decide
  · intro a; cases a <;> decide

/-! ## the specification: destroy by listed index -/

/-- **destroy_by_listed_index (specification).** Destroying by a listed index removes the key the
listing shows at that index and no other: the survivors afterwards are the survivors before without
that key, in the same order. -/
theorem spec_destroy_by_listed_index (s s' : SpecSlot) (i : Nat) (h : s.destroyRotated i = some s') :
    ∃ g, s.listedAt i = some g ∧ s'.survivors = s.survivors.filter (· ≠ g) := by
  unfold SpecSlot.destroyRotated at h
  cases hg : s.listedAt i with
  | none => simp [hg] at h
  | some g =>
    simp [hg] at h
    exact ⟨g, rfl, by rw [← h]; exact survivors_destroyId s g⟩

/-! ## v1: destroy by listed index on the filesystem model -/

/-- **destroy_by_listed_index (v1).** `ListRotatedKeys` numbers the files of `<key>.old` from
`v1FirstListedIndex = 2` in directory order. For every listed index `i`, `destroyRotatedKeyByIndex`
succeeds and removes exactly the history file at position `i - 2` – the one listed as `i` –; no
current file and no other history file changes. (With the pinned tree's offset 1 the fact
`fact_index_conventions` fails and so does this theorem.) -/
theorem v1_destroy_by_listed_index (fs : FS) (f : FileId) (i : Nat) (hdir : fs.oldDir f = true)
    (h2 : KeyNames.v1FirstListedIndex ≤ i) (hi : i < KeyNames.v1FirstListedIndex + (fs.old f).length)
    (hd : fs.OldDistinct f) :
    (drotFileCalls fs f i).2 = true ∧
    (applyAll fs (drotFileCalls fs f i).1).2 = true ∧
    (applyAll fs (drotFileCalls fs f i).1).1.old f = (fs.old f).eraseIdx (i - KeyNames.v1FirstListedIndex) ∧
    (applyAll fs (drotFileCalls fs f i).1).1.cur = fs.cur ∧
    ∀ f', f' ≠ f → (applyAll fs (drotFileCalls fs f i).1).1.old f' = fs.old f' := by
  have hfirst := fact_index_conventions.1
  rw [hfirst] at h2 hi ⊢
  exact v1_drotFile_exact fs f i hdir h2 (by omega) hd (by rw [fact_index_conventions.2.1, hfirst])

/-- An index the listing does not show is refused and nothing is removed. -/
theorem v1_destroy_unlisted_index (fs : FS) (f : FileId) (i : Nat)
    (h : i < 2 ∨ i > (fs.old f).length + 1) :
    (drotFileCalls fs f i).2 = false ∧ ∀ f', (applyAll fs (drotFileCalls fs f i).1).1.old f' = fs.old f' := by
  unfold drotFileCalls
  by_cases hdir : fs.oldDir f = true
  · simp [hdir, h, applyAll, applyCall]
  · simp [hdir, applyAll, applyCall]

/-! ## v2: key rings -/

/-- **ring_inv.** Every transaction keeps the sequence numbers of a ring pairwise distinct: a key can
only be added under a sequence number the ring does not have yet, and no transaction renumbers a key. -/
theorem ring_inv (r r' : Ring) (tx : Tx) (hd : r.Distinct) (h : tx.apply r = some r') : r'.Distinct :=
  Keystore.ring_inv r r' tx hd h

/-- **rollback_apply.** `Rollback` undoes `Apply` exactly, for every transaction of `keyRingTX.go`
(the data backup of `txDestroyKeyData` is what `Apply` saw in the key). This is what makes the
in-memory roll-back of `applyPendingTX`/`popTX` restore the ring after a failed write. -/
theorem rollback_apply (r r' : Ring) (tx : Tx) (hd : r.Distinct) (h : tx.apply r = some r')
    (hbackup : ∀ q b, tx = .destroyData q b → (r.find q).map (·.data) = some b) :
    tx.rollback r' = r :=
  Keystore.rollback_apply r r' tx hd h hbackup

/-- **destroy_by_listed_index (v2).** `DestroyKey` on a key of the ring (the transaction pair
`txDestroyKeyData`, `txChangeKeyState`) always applies; afterwards that key offers no material, the
`current` pointer is unchanged and every other key is exactly as before. The rotated listing and
`destroyRingRotatedKeyByIndex` enumerate the same list (`Ring.rotatedActive`) with the same first
index and offset (`fact_index_conventions`), so the key destroyed is the one listed. -/
theorem v2_destroy_exact (r : Ring) (q : Nat) (k : Key2) (hf : r.find q = some k) :
    ∃ r', applyTxs r [.destroyData q k.data, .changeState q k.state .destroyed] = some r' ∧
      r'.material q = none ∧ r'.current = r.current ∧ ∀ q', q' ≠ q → r'.find q' = r.find q' :=
  Keystore.v2_destroy_exact r q k hf

/-! ## the pinned behaviour after destroy-current (known finding) -/

def ss0 : Slot := ⟨.ss, 0⟩

/-- **current_is_newest_survivor_counterexample** (known finding `destroy-current-no-promotion`).
The statement's "current = most recently generated surviving key" fails in both formats after
destroy-current: two generations, destroy the current one – the specification offers key 1, v1 and
v2 offer no current key; v1 does not even offer key 1 through "all keys". -/
theorem current_is_newest_survivor_counterexample :
    let ops := [Op.gen ss0, .gen ss0, .dcur ss0]
    let spec := ops.foldl (fun st o => (st.step o).1) Spec.init
    (spec.step (.cur ss0)).2 = .key 1 ∧
    ((((V1.init (-1)).run ops).1).step (.cur ss0)).2 = .err ∧
    ((((V1.init (-1)).run ops).1).step (.all ss0)).2 = .err ∧
    (((V2.init.run ops).1).step (.cur ss0)).2 = .err ∧
    (((V2.init.run ops).1).step (.all ss0)).2 = .keys [1] := by decide +kernel

/-- On the same history without the destruction all three agree (the models refine the specification
there; in general this is established by correspondence, see the evidence). -/
theorem rotation_agrees_example :
    let ops := [Op.gen ss0, .gen ss0, .gen ss0, .drot ss0 2]
    let spec := ops.foldl (fun st o => (st.step o).1) Spec.init
    (spec.step (.all ss0)).2 = .keys [3, 2] ∧ (spec.step (.cur ss0)).2 = .key 3 ∧
    ((((V1.init 0).run ops).1).step (.all ss0)).2 = .keys [3, 2] ∧
    ((((V1.init 0).run ops).1).step (.cur ss0)).2 = .key 3 ∧
    (((V2.init.run ops).1).step (.all ss0)).2 = .keys [3, 2] ∧
    (((V2.init.run ops).1).step (.cur ss0)).2 = .key 3 := by decide +kernel

/-! ## refinement: the v1 store (no cache) shows exactly what the specification prescribes -/

/-- **The lifted specification is the specification.** `Spec.stepApi` (the specification over the
whole operation alphabet, used by the refinement theorems) moves the state exactly like `Spec.step`
on every operation Acra's API has, and shows `Spec.step`'s observation for generate, read current
(the poison pair as `pair g g`), read all and destroy. What it adds is only what the API shows of
the same state for the public key and the two listings. -/
theorem spec_lifting_conservative (fmt : Fmt) (st : Spec) (o : Op) (h : o.inApi = true) :
    (Spec.stepApi fmt st o).1 = (Spec.step st o).1 ∧
    (match o with
      | .gen _ | .all _ | .drot _ _ | .dcur _ => (Spec.stepApi fmt st o).2 = (Spec.step st o).2
      | .cur s => if s.kind = .pp then
            (Spec.stepApi fmt st o).2 = (match (Spec.step st o).2 with | .key g => .pair g g | x => x)
          else (Spec.stepApi fmt st o).2 = (Spec.step st o).2
      | _ => True) :=
  ⟨Spec.stepApi_state fmt st o h, Spec.stepApi_obs fmt st o h⟩

/-- **v1_step_simulation.** One operation of the v1 keystore without cache, from any state that
satisfies the run invariant (`V1.Inv`: per key file the current file holds the newest generation and
the history directory the older survivors in order; public files mirror private ones), other than
destroy-current: the invariant holds again, the abstraction function `V1.abs` commutes with the step,
and the store shows exactly the specification's observation. -/
theorem v1_step_simulation (st : V1) (o : Op) (hinv : st.Inv) (ho : o.isDcur = false) :
    (st.step o).1.Inv ∧ (st.step o).1.abs = (Spec.stepApi .v1 st.abs o).1 ∧
    (st.step o).2 = (Spec.stepApi .v1 st.abs o).2 :=
  V1.step_sim st o hinv ho

/-- **v1_refines_spec.** For every finite sequence of operations on a fresh v1 keystore without
cache – generate/rotate, read current, read public, read all, list, list rotated, destroy rotated by
any index, reset, reopen, on any slots; *excluding destroy-current* (known finding, see
`current_is_newest_survivor_counterexample`) – every observation of the run equals the
specification's, and the abstraction of the final store is the specification's final state. Hence:
the current key is the most recently generated surviving one, all survivors are offered newest first,
the rotated listing numbers them from 2, and destroy-by-listed-index removes exactly the listed key. -/
theorem v1_refines_spec (ops : List Op) (hops : ∀ o ∈ ops, o.isDcur = false) :
    ((V1.init (-1)).run ops).2 = (Spec.runApi .v1 Spec.init ops).2 ∧
    ((V1.init (-1)).run ops).1.abs = (Spec.runApi .v1 Spec.init ops).1 := by
  have h := V1.run_sim ops (V1.init (-1)) V1.Inv.init hops
  have habs : (V1.init (-1)).abs = Spec.init := rfl
  rw [habs] at h
  exact ⟨h.2.2, h.2.1⟩

/-- The same for a single symmetric-key slot, in the specification's own words: after any such run,
reading the current key of the slot gives the newest surviving generation and read-all gives all
survivors newest first. -/
theorem v1_current_is_newest_survivor (ops : List Op) (hops : ∀ o ∈ ops, o.isDcur = false) (s : Slot)
    (hk : s.kind = .ss) :
    let spec := (Spec.runApi .v1 Spec.init ops).1
    let st := ((V1.init (-1)).run ops).1
    (st.step (.cur s)).2 = (match (spec s).survivors.getLast? with | some g => .key g | none => .err) ∧
    (st.step (.all s)).2 = (if (spec s).survivors = [] then .err else .keys (spec s).survivors.reverse) := by
  have h := V1.run_sim ops (V1.init (-1)) V1.Inv.init hops
  have habs : (V1.init (-1)).abs = Spec.init := rfl
  rw [habs] at h
  obtain ⟨hinv, ha, _⟩ := h
  have h1 := (V1.step_sim _ (.cur s) hinv rfl).2.2
  have h2 := (V1.step_sim _ (.all s) hinv rfl).2.2
  rw [ha] at h1 h2
  simp only
  rw [h1, h2]
  constructor
  · simp only [Spec.stepApi, hk, SpecSlot.current]
    cases ((Spec.runApi Fmt.v1 Spec.init ops).fst s).survivors.getLast? <;> simp
  · simp [Spec.stepApi, Spec.step, hk, SpecSlot.allNewestFirst, Kind.hasAll]

/-! ## refinement: the v2 store shows exactly what the specification prescribes -/

/-- **v2_step_simulation.** One operation of the v2 keystore from any state satisfying the run
invariant (`V2.Inv`: no leftover temporary; a slot has a ring exactly when it was generated; sequence
numbers `1..n`, key `q` carries generation `q` until destroyed, `current` is the newest key and it is
not destroyed), other than destroy-current, that does not open a never-generated ring read-write
(`Op.opensRW`: the poison readers and every destroy create an empty ring – known finding
`v2:ring-without-current-key`), destroy-rotated being called with a listed index `≥ 2`: the invariant
holds again, `V2.abs` commutes with the step and the store shows the specification's observation. -/
theorem v2_step_simulation (st : V2) (o : Op) (hinv : st.Inv) (ho : o.isDcur = false)
    (hrw : ∀ s, o.opensRW = some s → st.count s ≠ 0) (hidx : o.idxOk = true) :
    (st.step o).1.Inv ∧ (st.step o).1.abs = (Spec.stepApi .v2 st.abs o).1 ∧
    (st.step o).2 = (Spec.stepApi .v2 st.abs o).2 ∧ (st.step o).1.count = countStep st.count o :=
  V2.step_sim st o hinv ho hrw hidx

/-- **v2_refines_spec.** For every finite sequence of operations on a fresh v2 keystore (in-memory or
directory back end) – generate/rotate, read current, read public, read all, list, list rotated,
destroy rotated by listed index, reset, reopen, on any slots – *excluding* (1) destroy-current (known
finding, `current_is_newest_survivor_counterexample`), (2) reads of a poison slot and destroy-rotated
of any slot *before the first generation of that slot* (`genFirst`: these open the ring read-write
and leave an empty ring without current key behind – known finding `v2:ring-without-current-key`,
`v2_ringless_counterexample`), (3) destroy-rotated with an index below 2, which the listing never
shows (Acra's command line routes index 1 to destroy-current; the Go function indexes a slice with
`index-2`): every observation of the run equals the specification's and the abstraction of the final
store is the specification's final state. -/
theorem v2_refines_spec (ops : List Op) (hops : ∀ o ∈ ops, o.isDcur = false ∧ o.idxOk = true)
    (hgf : genFirst (fun _ => false) ops = true) :
    (V2.init.run ops).2 = (Spec.runApi .v2 Spec.init ops).2 ∧
    (V2.init.run ops).1.abs = (Spec.runApi .v2 Spec.init ops).1 := by
  have h := V2.run_sim ops V2.init (fun _ => false) V2.Inv.init (by intro s hs; cases hs) hops hgf
  have habs : V2.init.abs = Spec.init := rfl
  rw [habs] at h
  exact ⟨h.2.2, h.2.1⟩

def pp0 : Slot := ⟨.pp, 0⟩

/-- **v2_ringless_counterexample** (known finding `v2:ring-without-current-key`). Hypothesis (2) of
`v2_refines_spec` is needed: reading the poison key pair of a fresh store, or a destroy-rotated on a
slot that was never generated, creates an empty ring; afterwards `ListKeys` fails for the whole store
(the specification lists nothing, successfully), and read-all of the never-generated symmetric slot
answers with an empty list instead of an error.
Protocol: `C06.v2m c:pp l` → `err|err`; `C06.v2m dr:ss0:2 a:ss0 l` → `err|ok:-|err`. -/
theorem v2_ringless_counterexample :
    (V2.init.run [.cur pp0, .list]).2 = [.err, .err] ∧
    (Spec.runApi .v2 Spec.init [.cur pp0, .list]).2 = [.err, .files []] ∧
    (V2.init.run [.drot ss0 2, .all ss0, .list]).2 = [.err, .keys [], .err] ∧
    (Spec.runApi .v2 Spec.init [.drot ss0 2, .all ss0, .list]).2 = [.err, .err, .files []] := by decide +kernel

/-! ## the v1 key cache -/

def sp0 : Slot := ⟨.sp, 0⟩

/-- **cache_storage_independent.** The storage (every key file, history directory, temporary) and the
generation counters after any run – destroy-current included – are the same for every cache size
(`-1` none, `0` unbounded, `n` bounded): write operations compute their storage calls from the storage
alone. -/
theorem cache_storage_independent (c : Int) (ops : List Op) :
    ((V1.init c).run ops).1.fs = ((V1.init (-1)).run ops).1.fs ∧
    ((V1.init c).run ops).1.count = ((V1.init (-1)).run ops).1.count :=
  V1.run_fs ops _ _ rfl rfl

/-- **cache_write_obs_independent.** The outcome of generate, destroy-current, destroy-rotated and
the two listings never depends on the cache contents. -/
theorem cache_write_obs_independent (st su : V1) (o : Op) (hfs : st.fs = su.fs) (hcnt : st.count = su.count)
    (ho : o.isRead = false) : (st.step o).2 = (su.step o).2 :=
  V1.step_obs_write st su o hfs hcnt ho

/-- **cache_coherent_step.** From a state whose cache is coherent with the storage (`V1.Coh`; an
empty cache is), any operation other than generate and destroy-current keeps the cache coherent and
shows exactly what the store without cache shows on the same storage – for every cache size, with
evictions. -/
theorem cache_coherent_step (st : V1) (o : Op) (hc : st.Coh) (ho : o.keepsCoh = true) :
    (st.step o).1.Coh ∧ (st.step o).2 = (V1.step ⟨st.fs, none, st.count⟩ o).2 :=
  V1.step_coh st o hc ho

/-- **cache_reset_exact.** For every cache size `c`, every history `h` (any operations, destroy-current
included) and every continuation `rs` made of reads (current, public, all), listings, destroy-rotated,
resets and reopens: after `Reset`, the cached store shows on `rs` exactly what the store without
cache shows after the same history. Together with `v1_refines_spec` (for `h` without destroy-current)
these are the specification's observations. The continuation must not generate or destroy-current:
see `cache_stale_after_rotation_counterexample`. -/
theorem cache_reset_exact (c : Int) (h rs : List Op) (hrs : ∀ o ∈ rs, o.keepsCoh = true) :
    ((((V1.init c).run h).1.step .reset).1.run rs).2 = (((V1.init (-1)).run h).1.run rs).2 := by
  obtain ⟨hfs, hcnt⟩ := cache_storage_independent c h
  exact V1.run_coh rs (((V1.init c).run h).1.step .reset).1 ((V1.init (-1)).run h).1 hfs hcnt (V1.Coh.clear _)
    (V1.Coh.of_nocache (V1.run_sim_cache_none h (V1.init (-1)) rfl)) hrs

/-- **cache_stale_after_rotation_counterexample.** Why `cache_reset_exact` stops at the next
generation: the handle that rotates a key keeps serving what it cached before.
(1) symmetric key: `C06.v1 0 g:ss0 x c:ss0 g:ss0 c:ss0 a:ss0` → `…|ok:1|ok:1.1` – the old key stays
current and the new key 2 is not offered at all (without cache: `ok:2|ok:2.1`);
(2) storage public key: `C06.v1 0 g:sp0 x p:sp0 g:sp0 p:sp0 c:sp0` → public key 1 with private key 2;
(3) a destroyed rotated key that is cached as "current" is still offered:
`C06.v1 0 g:ss0 g:ss0 g:ss0 x c:ss0 g:ss0 dr:ss0:4 a:ss0 x a:ss0` → `ok:3.2.1` then `ok:4.2.1`.
All three heal at `Reset` and none makes a surviving key that was offered disappear (`cache_monotone`). -/
theorem cache_stale_after_rotation_counterexample :
    ((V1.init 0).run [.gen ss0, .reset, .cur ss0, .gen ss0, .cur ss0, .all ss0]).2 = [.ok, .ok, .key 1, .ok, .key 1, .keys [1, 1]] ∧
    ((V1.init (-1)).run [.gen ss0, .reset, .cur ss0, .gen ss0, .cur ss0, .all ss0]).2 = [.ok, .ok, .key 1, .ok, .key 2, .keys [2, 1]] ∧
    ((V1.init 0).run [.gen sp0, .reset, .pub sp0, .gen sp0, .pub sp0, .cur sp0]).2 = [.ok, .ok, .key 1, .ok, .key 1, .key 2] ∧
    ((V1.init 0).run [.gen ss0, .gen ss0, .gen ss0, .reset, .cur ss0, .gen ss0, .drot ss0 4, .all ss0, .reset, .all ss0]).2 =
      [.ok, .ok, .ok, .ok, .key 3, .ok, .ok, .keys [3, 2, 1], .ok, .keys [4, 2, 1]] := by decide +kernel

/-- **cache_invariant.** What every operation other than destroy-current keeps of a cached v1 store
(`V1.MInv`, any cache size): the storage invariant of `v1_refines_spec`; a cached "current" key of a
slot is some generation of that slot – possibly an older one, never a foreign value or a marker –; a
cached history entry equals its file; a cached list of names is the directory's. Moreover an
operation changes the cached current key of a slot only by forgetting it or by setting it to the
slot's newest generation. -/
theorem cache_invariant (st : V1) (o : Op) (hm : st.MInv) (ho : o.isDcur = false) :
    (st.step o).1.MInv ∧
    ∀ s v, (st.step o).1.look (.rel (privFile s)) = some v →
      st.look (.rel (privFile s)) = some v ∨ v = .key ((st.step o).1.count s) :=
  V1.step_minv st o hm ho

/-- **cache_monotone.** For every cache size `c` and every run without destroy-current: if a read-all
of slot `s` offers generation `g`, and `g` still survives after any further operations `ops2` (resets
and reopens included) – survives according to the specification run over the same operations –, then a
read-all after `ops2` succeeds and still offers `g`. A warm cache may offer *more* (a destroyed key it
cached as current, `cache_stale_after_rotation_counterexample` (3)) and may lack the newest generation
until `Reset` (1), but it never stops offering a surviving key it offered before. -/
theorem cache_monotone (c : Int) (ops1 ops2 : List Op) (s : Slot) (g : Nat) (l1 : List Nat)
    (h1 : ∀ o ∈ ops1, o.isDcur = false) (h2 : ∀ o ∈ ops2, o.isDcur = false)
    (hobs : (((V1.init c).run ops1).1.step (.all s)).2 = .keys l1) (hg : g ∈ l1)
    (halive : g ∈ ((Spec.runApi .v1 Spec.init (ops1 ++ .all s :: ops2)).1 s).survivors) :
    ∃ l2, ((((((V1.init c).run ops1).1.step (.all s)).1.run ops2).1).step (.all s)).2 = .keys l2 ∧ g ∈ l2 := by
  have hm1 := V1.run_minv ops1 (V1.init c) (V1.MInv.init c) h1
  apply V1.cache_monotone _ hm1 ops2 s g h2 l1 hobs hg
  have hall : ∀ o ∈ ops1 ++ .all s :: ops2, o.isDcur = false := by
    intro o ho
    rcases List.mem_append.1 ho with ho | ho
    · exact h1 o ho
    · rcases List.mem_cons.1 ho with rfl | ho
      · rfl
      · exact h2 o ho
  rw [← V1.abs_run_cached c _ hall, V1.run_append] at halive
  exact halive

/-! ## non-vacuity -/

/-- A history with three generations: index 2 lists the oldest key, destroying it leaves 3 and 2. -/
example : let s : SpecSlot := SpecSlot.generate (SpecSlot.generate (SpecSlot.generate []))
    SpecSlot.listedAt s 2 = some 1 ∧ (SpecSlot.destroyRotated s 2).map SpecSlot.allNewestFirst = some [3, 2] := by decide

/-- hypotheses of `v1_destroy_by_listed_index` are satisfiable: three generations of one key give a
history directory with two distinct entries -/
example : let fs := ((V1.init (-1)).run [.gen ss0, .gen ss0, .gen ss0]).1.fs
    fs.oldDir (privFile ss0) = true ∧ (fs.old (privFile ss0)).map (·.1) = [1, 2] := by decide +kernel

example : Ring.Distinct ⟨[⟨1, .preActive, some 1⟩, ⟨2, .preActive, some 2⟩], some 2⟩ := by
  simp [Ring.Distinct]

/-- the refinement hypotheses are satisfiable by a history that uses every kind of operation, and the
specification's observations on it are not trivial -/
example :
    let ops := [Op.gen sp0, .gen sp0, .gen sp0, .gen ss0, .listRot, .drot sp0 2, .all sp0, .cur sp0, .pub sp0, .list, .reopen, .all sp0]
    (∀ o ∈ ops, o.isDcur = false ∧ o.idxOk = true) ∧ genFirst (fun _ => false) ops = true ∧
    (Spec.runApi .v1 Spec.init ops).2 =
      [.ok, .ok, .ok, .ok, .rotated [((sp0, false), 2), ((sp0, true), 2)], .ok, .keys [3, 2], .key 3, .key 3,
        .files [(sp0, false), (sp0, true), (ss0, false)], .ok, .keys [3, 2]] ∧
    (Spec.runApi .v2 Spec.init ops).2 =
      [.ok, .ok, .ok, .ok, .rotated [((sp0, false), 2)], .ok, .keys [3, 2], .key 3, .key 3,
        .files [(sp0, false), (ss0, false)], .ok, .keys [3, 2]] := by decide +kernel

/-- the run invariants hold initially -/
example : (V1.init (-1)).Inv ∧ V2.init.Inv ∧ (V1.init 1).MInv ∧ (V1.init 0).clear.Coh :=
  ⟨V1.Inv.init, V2.Inv.init, V1.MInv.init 1, V1.Coh.clear _⟩

/-- `cache_reset_exact`: a continuation with reads, listing and a destroy-rotated satisfies the hypothesis -/
example : ∀ o ∈ [Op.all ss0, .listRot, .drot ss0 2, .all ss0, .cur ss0], o.keepsCoh = true := by decide

/-- `cache_monotone`: a bounded cache (one entry), two generations, read-all offers `[2, 1]`; after a
rotation and a read both keys still survive in the specification -/
example :
    (((V1.init 1).run [.gen ss0, .gen ss0]).1.step (.all ss0)).2 = .keys [2, 1] ∧
    1 ∈ ((Spec.runApi .v1 Spec.init ([Op.gen ss0, .gen ss0] ++ .all ss0 :: [.gen ss0, .cur ss0])).1 ss0).survivors := by
  decide +kernel

end AcraModel.Props.C06
