import AcraModel.Keystore.V1Cache
import AcraModel.Keystore.V2Store
import AcraModel.Keystore.Lemmas
/-!
# C06 — rotation keeps old data readable; destruction removes exactly the chosen key

Property theorems only (models and helper lemmas live in `AcraModel/Keystore`).
-/
namespace AcraModel.Props.C06
open AcraModel AcraModel.Keystore Generated

/-! ## facts regenerated from the source -/

/-- Both formats number the rotated listing from 2 and the destroy functions subtract the same
offset, so listed index `i` addresses element `i - 2` of the list the listing enumerated.
(On the pinned tree `v1DestroyIndexOffset` was 1: the wrong file was removed.) -/
theorem fact_index_conventions :
    KeyNames.v1FirstListedIndex = 2 ∧ KeyNames.v1DestroyIndexOffset = KeyNames.v1FirstListedIndex ∧
    KeyNames.v2FirstListedIndex = 2 ∧ KeyNames.v2DestroyIndexOffset = KeyNames.v2FirstListedIndex := by decide

/-- The state constants of the API are the six states of the model, in this order, with the ASN.1 values 1..6. -/
theorem fact_state_names :
    KeyState.stateNames = [KState.preActive, .active, .suspended, .deactivated, .compromised, .destroyed].map KState.name ∧
    KeyState.stateValues = [1, 2, 3, 4, 5, 6] ∧ KeyState.defaultInvalid = true := by decide

/-- Key names of both formats the models and the harness rely on. -/
theorem fact_key_names :
    KeyNames.v1StorageFmt = "%s_storage" ∧ KeyNames.v1SymSuffix = "_sym" ∧ KeyNames.v1HmacFmt = "%s_hmac" ∧
    KeyNames.v1PublicFmt = "%s.pub" ∧ KeyNames.v1HistoryDirSuffix = ".old" ∧
    KeyNames.v1PoisonKeyName = ".poison_key/poison_key" ∧ KeyNames.v1LogKeyName = "secure_log_key" ∧
    KeyNames.v2KeyringSuffix = ".keyring" ∧ KeyNames.v2NewSuffix = ".new" := by decide

/-! ## the key-state machine -/

/-- **state_table.** In the regenerated transition table `destroyed` is terminal, and a key can be
destroyed exactly from the states pre-active, deactivated and compromised (so an active or suspended
key must be deactivated first). -/
theorem state_table :
    (∀ b, transitionValid .destroyed b = false) ∧
    (∀ a, transitionValid a .destroyed = true ↔ (a = .preActive ∨ a = .deactivated ∨ a = .compromised)) := by
  constructor
  · intro b; cases b <;> decide
  · intro a; cases a <;> decide

/-! ## the specification: destroy by listed index -/

/-- **destroy_by_listed_index (specification).** Destroying by a listed index removes the key the
listing shows at that index and no other: the survivors afterwards are the survivors before without
that key, in the same order. -/
theorem spec_destroy_by_listed_index (s s' : SpecSlot) (i : Nat) (h : s.destroyRotated i = some s') :
    ∃ g, s.listedAt i = some g ∧ s'.survivors = s.survivors.filter (· ≠ g) := by
  unfold SpecSlot.destroyRotated at h
  cases hg : s.listedAt i with
  | none => simp [hg] at h
  | some g =>
    simp [hg] at h
    exact ⟨g, rfl, by rw [← h]; exact survivors_destroyId s g⟩

/-! ## non-vacuity -/

/-- A history with three generations: index 2 lists the oldest key, destroying it leaves 3 and 2. -/
example : let s : SpecSlot := SpecSlot.generate (SpecSlot.generate (SpecSlot.generate []))
    SpecSlot.listedAt s 2 = some 1 ∧ (SpecSlot.destroyRotated s 2).map SpecSlot.allNewestFirst = some [3, 2] := by decide

end AcraModel.Props.C06
