import AcraModel.Proxy.Session
import AcraModel.Generated.Wiring
/-!
# C04 — the SQL proxy stores only protected forms and restores originals on read

Property theorems only. Models: `AcraModel/Proxy/{Placement,Pipeline,Pending,Session}.lean`.
-/
namespace AcraModel.Props.C04
open AcraModel AcraModel.Envelope AcraModel.Proxy Generated

/-! ## facts from the regenerated wiring -/

/-- In `proxyFactory.New` (PostgreSQL) the result-column subscribers run in the order the read chain of
the model composes them: the decoder first, the envelope detector in between, the encoder last; and the
detector's callbacks are the compatibility wrapper, then the poison detector, then the decrypt handler. -/
theorem fact_pg_read_chain_order :
    Wiring.pgSubscriberOrder.head? = some "decoderProcessor" ∧
    Wiring.pgSubscriberOrder.getLast? = some "encoderProcessor" ∧
    Wiring.pgSubscriberOrder.contains "containerDetector" = true ∧
    Wiring.pgCallbackOrder = ["wrapper", "poisonDetector", "decrypt"] := by decide

/-! ## pending queue -/

/-- **pending_pairs.** In every run of the joint system proxy + PostgreSQL-conforming database – any
interleaving of pipelined simple/extended-protocol requests, results, errors (after which the database
discards everything up to the next Sync) and ReadyForQuery – each DataRow is processed with the settings
of exactly the statement the database is answering. -/
theorem pending_pairs {α : Type} (evs : List (JEv α)) (j : Joint α) (obs : List (α × Option α))
    (h : jrun {} evs = some (j, obs)) : ∀ q x, (q, x) ∈ obs → x = some q :=
  (inv_run evs {} j obs inv_init h).2

end AcraModel.Props.C04
