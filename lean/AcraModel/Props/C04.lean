import AcraModel.Proxy.PipelineLemmas
import AcraModel.Proxy.PlacementLemmas
import AcraModel.Proxy.MySQLLemmas
import AcraModel.Envelope.SafeCompatSame
import AcraModel.Envelope.ExampleOps
import AcraModel.Proxy.LitCoderLemmas
import AcraModel.Proxy.SqlPrepared
import AcraModel.Generated.Wiring
import AcraModel.Generated.StmtForms
import AcraModel.Generated.PgCoder
/-!
# C04 — the SQL proxy stores only protected forms and restores originals on read

Property theorems only. Models: `AcraModel/Proxy/{Placement,Pipeline,Pending,Session}.lean`, helper lemmas in
`Proxy/{PlacementLemmas,PipelineLemmas}.lean`; the envelope facts come from C01 (`RoundTripHyps`,
`reveal_protect`, `onColumn_protect_embedded`) and C03 (`onColumnCompat_decrypt_same`).

Statements about values are made for values that are not already protected (`matchKind … = false`,
`registryMatch … = false`): a plaintext that itself looks like a protected value is passed through
unwrapped by design (`C01.protect_passthrough`).
-/
namespace AcraModel.Props.C04
open AcraModel AcraModel.Envelope AcraModel.Proxy Generated AcraModel.Wire.LenEnc AcraModel.Typed

/-! ## facts from the regenerated wiring -/

/-- In `proxyFactory.New` (PostgreSQL) the result-column subscribers run in the order the read chain of
the model composes them: the decoder first, the envelope detector in between, the encoder last; and the
detector's callbacks are the compatibility wrapper, then the poison detector, then the decrypt handler. -/
theorem fact_pg_read_chain_order :
    Wiring.pgSubscriberOrder.head? = some "decoderProcessor" ∧
    Wiring.pgSubscriberOrder.getLast? = some "encoderProcessor" ∧
    Wiring.pgSubscriberOrder.contains "containerDetector" = true ∧
    Wiring.pgCallbackOrder = ["wrapper", "poisonDetector", "decrypt"] := by decide

/-- The MySQL proxy wires the same callbacks in the same order, and its decoder / encoder processors
also bracket the envelope detector. -/
theorem fact_mysql_read_chain_order :
    Wiring.mysqlCallbackOrder = ["wrapper", "poisonDetector", "decrypt"] ∧
    Wiring.mysqlSubscriberOrder.getLast? = some "NewDataEncoderProcessor()" ∧
    Wiring.mysqlSubscriberOrder.contains "containerDetector" = true := by decide

/-- The order `readChainMy` composes: in the MySQL `proxyFactory.New` the decoder processor is subscribed
before the envelope detector and the encoder processor after it (the processors in between – tokenizer, HMAC –
are registered only when some column uses them and return encryption-only columns unchanged). -/
theorem fact_mysql_decoder_detector_encoder :
    Wiring.mysqlSubscriberOrder.idxOf "NewDataDecoderProcessor()" < Wiring.mysqlSubscriberOrder.idxOf "containerDetector" ∧
    Wiring.mysqlSubscriberOrder.idxOf "containerDetector" < Wiring.mysqlSubscriberOrder.idxOf "NewDataEncoderProcessor()" ∧
    Wiring.mysqlSubscriberOrder.idxOf "NewDataEncoderProcessor()" < Wiring.mysqlSubscriberOrder.length := by decide

/-- What the two query encryptors walk when they analyse an INSERT, as the model's `xfInsertStmt` / `xfInsertMy`
and `bindPlan` / `bindPlanMy` have it: the statement text goes through `encryptExpression` (VALUES) and then
`encryptUpdateExpressions` (the upsert assignments – PostgreSQL: over `OnConflictClause.TargetList`); the bound
parameters are mapped by `getInsertPlaceholders` (VALUES), then `updatePlaceholderMap` over the upsert
assignments, before `encryptValuesWithPlaceholders` runs. (Before the `fix:` commits the PostgreSQL facts had no
`encryptUpdateExpressions` and neither front end walked the assignments for parameters.) -/
theorem fact_upsert_walked :
    StmtForms.pgInsertQueryCalls = ["onReturning", "encryptExpression", "encryptUpdateExpressions"] ∧
    StmtForms.mysqlInsertQueryCalls = ["onReturning", "encryptExpression", "encryptUpdateExpressions"] ∧
    StmtForms.pgInsertQueryWalks.contains "insert.GetOnConflictClause().GetTargetList()" = true ∧
    StmtForms.pgInsertValuesWalks.contains "insert.GetOnConflictClause().GetTargetList()" = true ∧
    StmtForms.mysqlInsertValuesWalks.contains "insert.OnDup" = true ∧
    StmtForms.pgInsertValuesCalls = ["getInsertPlaceholders", "updatePlaceholderMap", "savePlaceholderSettingIntoClientSession", "encryptValuesWithPlaceholders"] ∧
    StmtForms.mysqlInsertValuesCalls = ["getInsertPlaceholders", "updatePlaceholderMap", "savePlaceholderSettingIntoClientSession", "encryptValuesWithPlaceholders"] := by decide

/-- The parameters of an UPDATE are mapped from exactly one list – the SET targets – in both front ends
(`updatePlaceholders` over `u.sets`). -/
theorem fact_update_values_walk :
    StmtForms.pgUpdateValuesWalks = ["update.TargetList"] ∧ StmtForms.mysqlUpdateValuesWalks = ["update.Exprs"] ∧
    StmtForms.pgUpdateValuesCalls = ["updatePlaceholderMap", "encryptValuesWithPlaceholders"] ∧
    StmtForms.mysqlUpdateValuesCalls = ["updatePlaceholderMap", "encryptValuesWithPlaceholders"] := by decide

/-- **Which slice travels next to the error.** Every return of `utils.DecodeEscaped`: next to BOTH errors (invalid
hex after `\x`, `ErrDecodeOctalString`) the function hands back its INPUT (`data`), never `nil` – the PostgreSQL
literal coder uses the slice returned next to `ErrDecodeOctalString` as the value to encrypt ("not an escaped
bytea: take the string as it is"). The model's `decodeEscapedGo` reads the returned variable from this table. -/
theorem fact_decodeEscaped_returns : PgCoder.decodeEscapedReturns = escReturnsExpected := by decide

/-- The string-literal branch of `PgQueryDBDataCoder.Decode`, statement by statement, as `LitCoder.pgDecodeSval`
has it: a setting with a data type other than bytea returns the literal's text; otherwise `DecodeEscaped`, an
error other than `ErrDecodeOctalString` is returned when it is a hex error, and – with no error or with
`ErrDecodeOctalString` – the slice `DecodeEscaped` returned (`binValue`) is the result. -/
theorem fact_pg_decode_sval :
    PgCoder.pgDecodeSval =
      ["assign typeID:=setting.GetDBDataTypeID()", "if typeID!=0&&typeID!=pgtype.ByteaOID", "return []byte(sval.GetSval()),nil", "end",
       "assign binValue,err:=utils.DecodeEscaped([]byte(sval.GetSval()))", "if err!=nil&&err!=utils.ErrDecodeOctalString",
       "if assign _,ok:=err.(hex.InvalidByteError); err==hex.ErrLength||ok", "return nil,err",
       "else if err==utils.ErrDecodeOctalString", "return nil,err", "end", "return []byte(sval.GetSval()),nil", "end",
       "return binValue,nil"] := by decide

/-- `UpdateExpressionValue` of both front ends, as `encCell` / `encCellMy` have it: decode (an error other than
`ErrDecodeOctalString` / unsupported expression is passed on – the rewrite of the statement is abandoned), run the
chain on the decoded value (an error is passed on), leave the literal alone when the chain returned the same
bytes, otherwise encode and replace. -/
theorem fact_update_expression_value :
    PgCoder.pgUpdateExpressionValue =
      ["if expr.GetSval()!=nil||expr.GetVal()!=nil||expr.GetFval()!=nil", "assign rawData,err:=coder.Decode(expr,setting)",
       "if err!=nil", "if err==utils.ErrDecodeOctalString||err==base.ErrUnsupportedExpression", "return ErrUpdateLeaveDataUnchanged", "end",
       "return err", "end", "assign newData,err:=updateFunc(ctx,rawData)", "if err!=nil", "return err", "end",
       "if len(newData)==len(rawData)&&bytes.Equal(newData,rawData)", "return ErrUpdateLeaveDataUnchanged", "end",
       "if assign err=coder.Encode(expr,newData,setting); err!=nil", "return err", "end", "end", "return nil"] ∧
    PgCoder.myUpdateLiteralKinds = "sqlparser.StrVal,sqlparser.HexVal,sqlparser.PgEscapeString,sqlparser.IntVal,sqlparser.HexNum" ∧
    PgCoder.myUpdateLiteralCase =
      ["assign rawData,err:=coder.Decode(val,setting)", "if err!=nil",
       "if err==utils.ErrDecodeOctalString||err==base.ErrUnsupportedExpression", "return ErrUpdateLeaveDataUnchanged", "end", "return err", "end",
       "assign newData,err:=updateFunc(ctx,rawData)", "if err!=nil", "return err", "end",
       "if len(newData)==len(rawData)&&bytes.Equal(newData,rawData)", "return ErrUpdateLeaveDataUnchanged", "end",
       "assign coded,err:=coder.Encode(expr,newData,setting)", "if err!=nil", "return err", "end", "assign val.Val=coded"] := by decide

/-- `mysql.DBDataCoder.Decode`, as `LitCoder.myDecode` has it: integer and string literals are returned as they
are, `X'…'` is hex-decoded (an error is returned for bad hex), `0x…` likewise after its prefix. -/
theorem fact_my_decode :
    PgCoder.myDecode =
      ["typeswitch assign val:=expr.(type)", "case *sqlparser.SQLVal", "switch val.Type", "case sqlparser.IntVal,sqlparser.StrVal",
       "return val.Val,nil", "case sqlparser.HexVal", "assign binValue:=make([]byte,hex.DecodedLen(len(val.Val)))",
       "assign _,err:=hex.Decode(binValue,val.Val)", "if err!=nil", "return nil,err", "end", "return binValue,nil",
       "case sqlparser.HexNum", "if !bytes.HasPrefix(val.Val,hexNumPrefix)", "return val.Val,nil", "end",
       "assign binValue:=make([]byte,hex.DecodedLen(len(val.Val)-2))", "assign _,err:=hex.Decode(binValue,val.Val[2:])",
       "if err!=nil", "return nil,err", "end", "return binValue,nil", "end", "end", "return nil,base.ErrUnsupportedExpression"] := by decide

/-! ## placement: which cells change (for every cell transformer) -/

/-- **rewrite_frame (INSERT).** Whatever the cell transformer does, the forwarded INSERT has the table,
column list and RETURNING list of the received one and the same number of rows; a row whose arity
differs from the column list is forwarded as received; in every other row each cell of a column WITHOUT
a setting is identical, each cell of a column WITH a setting is what the transformer returned for that
very cell with the column's own setting (`cellRel`), and cells beyond the column list are untouched.
A statement on a table without configuration entry is forwarded as received. -/
theorem rewrite_frame_insert {σ} (f : Xf σ) (sch : Schema) (i i' : Insert) (st st' : σ)
    (h : xfInsert f sch i st = some (i', st')) :
    i'.table = i.table ∧ i'.cols = i.cols ∧ i'.returning = i.returning ∧
    (sch.table i.table = none → i' = i) ∧
    (∀ t, sch.table i.table = some t → (insertColumns t i).isEmpty = false →
      rowsRel (rowFrame f t (insertColumns t i)) i.rows i'.rows) := by
  unfold xfInsert at h
  cases ht : sch.table i.table with
  | none =>
    simp only [ht, Option.some.injEq, Prod.mk.injEq] at h
    obtain ⟨rfl, _⟩ := h
    refine ⟨rfl, rfl, rfl, fun _ => rfl, ?_⟩
    intro t h
    simp at h
  | some t =>
    simp only [ht] at h
    by_cases he : (insertColumns t i).isEmpty = true
    · simp only [he, if_true, Option.some.injEq, Prod.mk.injEq] at h
      obtain ⟨rfl, _⟩ := h
      refine ⟨rfl, rfl, rfl, ?_, ?_⟩
      · intro h; simp at h
      · intro t' ht' hne
        simp only [Option.some.injEq] at ht'
        subst ht'
        simp [he] at hne
    · simp only [he, Bool.false_eq_true, if_false, Option.map_eq_some_iff] at h
      obtain ⟨⟨rows, st1⟩, h1, h2⟩ := h
      simp only [Option.some.injEq, Prod.mk.injEq] at h2
      obtain ⟨rfl, _⟩ := h2
      refine ⟨rfl, rfl, rfl, ?_, ?_⟩
      · intro h; simp at h
      · intro t' ht' _
        simp only [Option.some.injEq] at ht'
        subst ht'
        exact xfRows_frame f t _ i.rows rows st st1 h1

/-- **rewrite_frame (UPDATE).** The forwarded UPDATE has the table, alias and RETURNING list of the received
one and the same SET columns in the same order; the value of a column without setting is identical, the
value of a column with a setting is what the transformer returned for it with that setting. -/
theorem rewrite_frame_update {σ} (f : Xf σ) (sch : Schema) (u u' : Update) (st st' : σ)
    (h : xfUpdate f sch u st = some (u', st')) :
    u'.table = u.table ∧ u'.alias = u.alias ∧ u'.returning = u.returning ∧
    (sch.table u.table = none → u' = u) ∧
    (∀ t, sch.table u.table = some t → setsRel f t u.sets u'.sets) := by
  unfold xfUpdate at h
  cases ht : sch.table u.table with
  | none =>
    simp only [ht, Option.some.injEq, Prod.mk.injEq] at h
    obtain ⟨rfl, _⟩ := h
    refine ⟨rfl, rfl, rfl, fun _ => rfl, ?_⟩
    intro t h
    simp at h
  | some t =>
    simp only [ht, Option.map_eq_some_iff] at h
    obtain ⟨⟨sets, st1⟩, h1, h2⟩ := h
    simp only [Option.some.injEq, Prod.mk.injEq] at h2
    obtain ⟨rfl, _⟩ := h2
    refine ⟨rfl, rfl, rfl, ?_, ?_⟩
    · intro h; simp at h
    · intro t' ht'
      simp only [Option.some.injEq] at ht'
      subst ht'
      exact xfSets_rel f t u.sets sets st st1 h1

/-- **uncovered_identity (statements).** A statement whose table has no configuration entry, or an entry
without protected columns, is forwarded exactly as received – for every cell transformer and state; so
is every statement that is neither INSERT nor UPDATE. -/
theorem uncovered_identity_stmt {σ} (f : Xf σ) (sch : Schema) (s : Stmt) (st : σ)
    (h : ∀ n, s.table = some n → ∀ t, sch.table n = some t → t.encrypted = []) :
    xfStmt f sch s st = (s, st) := by
  cases s with
  | insert i =>
    have hx : xfInsert f sch i st = some (i, st) := by
      unfold xfInsert
      cases ht : sch.table i.table with
      | none => rfl
      | some t =>
        have he := h i.table rfl t ht
        simp only
        split
        · rfl
        · rw [xfRows_unconfigured f t he]; rfl
    have hs : xfInsertStmt f sch i st = some (i, st) := by
      unfold xfInsertStmt
      cases ht : sch.table i.table with
      | none => rfl
      | some t =>
        have he := h i.table rfl t ht
        have hr : (if i.fromSelect then some (i, st) else xfInsert f sch i st) = some (i, st) := by
          split
          · rfl
          · exact hx
        simp only [hr, Option.bind_some, xfSets_unconfigured f t he, Option.map_some]
    simp [xfStmt, hs]
  | update u =>
    have hx : xfUpdate f sch u st = some (u, st) := by
      unfold xfUpdate
      cases ht : sch.table u.table with
      | none => rfl
      | some t =>
        have he := h u.table rfl t ht
        simp only
        rw [xfSets_unconfigured f t he]; rfl
    have hs : xfUpdateStmt f sch u st = some (u, st) := by
      unfold xfUpdateStmt
      split
      · rfl
      · exact hx
    simp [xfStmt, hs]
  | select s => rfl
  | other n => rfl

/-- **uncovered_identity (parameters).** The Bind of a statement on a table without configuration entry is
forwarded exactly as received. -/
theorem uncovered_identity_bind (c : CryptoOps) (kv : KeyView) (sch : Schema) (s : Stmt) (params : List Param)
    (order : List Nat) (rnd : Bytes) (h : ∀ n, s.table = some n → sch.table n = none) :
    forwardBind c kv sch s params order rnd = .same := by
  cases s with
  | insert i => simp [forwardBind, bindPlan, h i.table rfl]
  | update u => simp [forwardBind, bindPlan, h u.table rfl]
  | select s => simp [forwardBind, bindPlan]
  | other n => simp [forwardBind, bindPlan]

/-! ## pipeline: what happens to a value -/

/-- **What the chain receives for a literal – for EVERY literal text.** `PgQueryDBDataCoder.Decode` of a string
literal `lit` of a protected column returns an error exactly when the column has no text data type and `lit` is
`\x` followed by invalid hex; in every other case it hands the chain a value `raw` that is either the literal's
text itself or its bytea decoding, and `raw` is empty only when the literal denotes the empty byte string (`''`,
or `'\x'`). In particular a text that is not valid bytea escape text – a line break, a tab, a control
character, a backslash not followed by a backslash or three octal digits, `C:\keys\master.pem` – reaches the
chain as it is, never as an empty value that the chain would skip. -/
theorem lit_value_total (s : ColSetting) (lit : Bytes) :
    (decodeLit s lit = none ↔ s.textTyped = false ∧ ∃ h, lit = 92 :: 120 :: h ∧ Wire.Bytea.hexDecode h = none) ∧
    (∀ raw, decodeLit s lit = some raw →
      (raw = lit ∨ Wire.Bytea.decodeEscaped lit = .ok raw) ∧
      (raw = [] → lit = [] ∨ (s.textTyped = false ∧ lit = [92, 120]))) :=
  ⟨pgDecodeSval_none_iff fact_decodeEscaped_returns s.textTyped lit,
   fun raw h => pgDecodeSval_some fact_decodeEscaped_returns s.textTyped lit raw h⟩

/-- **What the MySQL chain receives for a literal.** String and integer literals reach the chain as their text,
`X'…'` as the decoded bytes (an error – statement forwarded as received – only for bad hex), and the value is
empty only for an empty literal (`''`, `X''`, `0x`). -/
theorem lit_value_total_my (k : MyLit) (v : Bytes) :
    (k = .str ∨ k = .int → myDecode k v = some v) ∧
    (k = .hexVal → myDecode k v = Wire.Bytea.hexDecode v) ∧
    (∀ raw, myDecode k v = some raw → raw = [] → v = [] ∨ (k = .hexNum ∧ v = hexNumPrefix)) :=
  myDecode_spec k v

/-- **write_never_plain (literal, its decoded value).** A string literal written into a protected column – whose decoded value
`raw` is not empty and not already protected – is replaced by the text encoding of exactly
`protect … raw`, a value different from `raw`; the random stream advances by what the envelope consumed.
Together with `rewrite_frame_insert` / `rewrite_frame_update`: every protected cell of the forwarded
statement is `encodeText (protect …)` of the client's cell and every other cell is identical. -/
theorem write_never_plain_value (c : CryptoOps) (kvW kvR : KeyView) (s : ColSetting) (b raw rnd p : Bytes)
    (hd : decodeLit s b = some raw) (hne : raw ≠ [])
    (h : RoundTripHyps c s.kind kvW kvR raw rnd p)
    (hnm : matchKind s.kind raw = false) (hnr : registryMatch raw = false)
    (hp : protect c kvW s.kind raw rnd = .ok p) (hpr : p ≠ raw) :
    encCell c kvW s (.lit b) rnd = some (.lit (encodeText s p), rnd.drop (rndUsed s.kind)) := by
  have hw := writeChain_eq_protect c kvW kvR s raw rnd p h hnm hnr hp
  have hemp : raw.isEmpty = false := by cases raw <;> simp_all
  have hbeq : (p == raw) = false := by simpa using hpr
  simp [encCell, hd, hemp, hw, hbeq, chainUsed, passthrough, hnm, hnr]

/-- **write_never_plain (literal) – for every literal text.** Let `b` be ANY byte string standing as a string
literal in a protected column, other than the two shapes named by `lit_value_total`: `\x` + invalid hex in a
column without text type (the coder returns an error: see `fail_open_*`), and a literal that denotes the empty
byte string (nothing to protect). Then the coder hands the chain a NON-EMPTY value `raw` – the bytea decoding of
`b`, or `b` itself when `b` is not valid escape text – and, whenever the envelope can be built for `raw`, the
forwarded literal is the text encoding of exactly `protect … raw`, a value different from `raw`. -/
theorem write_never_plain (c : CryptoOps) (kvW kvR : KeyView) (s : ColSetting) (b rnd : Bytes)
    (hx : ¬ (s.textTyped = false ∧ ∃ h, b = 92 :: 120 :: h ∧ Wire.Bytea.hexDecode h = none))
    (he : b ≠ [] ∧ ¬ (s.textTyped = false ∧ b = [92, 120])) :
    ∃ raw, decodeLit s b = some raw ∧ raw ≠ [] ∧ (raw = b ∨ Wire.Bytea.decodeEscaped b = .ok raw) ∧
      ∀ p, RoundTripHyps c s.kind kvW kvR raw rnd p → matchKind s.kind raw = false → registryMatch raw = false →
        protect c kvW s.kind raw rnd = .ok p → p ≠ raw →
        encCell c kvW s (.lit b) rnd = some (.lit (encodeText s p), rnd.drop (rndUsed s.kind)) := by
  obtain ⟨hnone, hsome⟩ := lit_value_total s b
  cases hd : decodeLit s b with
  | none => exact absurd (hnone.1 hd) hx
  | some raw =>
    obtain ⟨hor, hemp⟩ := hsome raw hd
    have hne : raw ≠ [] := by
      intro h
      cases hemp h with
      | inl h => exact he.1 h
      | inr h => exact he.2 h
    exact ⟨raw, rfl, hne, hor, fun p h hnm hnr hp hpr => write_never_plain_value c kvW kvR s b raw rnd p hd hne h hnm hnr hp hpr⟩

/-- **Fail-open, stated as what the code does (1): which literals make the rewrite fail.** The transformer of a
protected literal fails (`none`) exactly when the coder returns an error (`\x` + invalid hex, no text type) or
the encryption chain fails on the non-empty decoded value (no usable key, …). -/
theorem fail_open_cell (c : CryptoOps) (kv : KeyView) (s : ColSetting) (b rnd : Bytes) :
    encCell c kv s (.lit b) rnd = none ↔
      decodeLit s b = none ∨ ∃ raw, decodeLit s b = some raw ∧ raw ≠ [] ∧ ∀ nd, writeChain c kv s raw rnd ≠ .ok nd := by
  cases hd : decodeLit s b with
  | none => simp [encCell, hd]
  | some raw =>
    by_cases hr : raw = []
    · subst hr; simp [encCell, hd]
    · have hemp : raw.isEmpty = false := by cases raw <;> simp_all
      cases hw : writeChain c kv s raw rnd with
      | ok nd =>
        have h1 : encCell c kv s (.lit b) rnd ≠ none := by
          simp only [encCell, hd, hemp, hw]
          repeat' split
          all_goals simp
        simp [h1, hr, hw]
      | err => simp [encCell, hd, hemp, hw, hr]
      | panic => simp [encCell, hd, hemp, hw, hr]

/-- **Fail-open, stated as what the code does (2): a failed rewrite forwards the statement as received.** When
the transformer fails on ANY protected cell of an INSERT / UPDATE, `OnQuery` returns the error, `handleQueryPacket`
only logs it and the statement goes to the database exactly as the client sent it – every protected literal in
it, also those the transformer had handled before the failing one, in clear.

The property's statement has no exception for this, so the inputs on which it happens on the unchanged tree –
confirmed through the real proxy, regression witnesses `corpusFailOpen` – are KNOWN FINDINGS, each with its own
decidable class: `plaintext-at-database:invalid-hex-literal` (the coder's error: `\x` + invalid hex as literal or
text parameter, `lit_value_total`), `plaintext-at-database:no-key-for-client` (the chain fails: no usable key),
and – statements the analysis never reaches, so no transformer runs at all –
`plaintext-at-database:multi-statement-query` (only the first statement of a simple Query is analysed) and
`plaintext-at-database:non-utf8-statement` (pg_query cannot read the text). A failing random source and syntax
newer than the embedded grammar stay documented assumptions (not reproduced as sessions). -/
theorem fail_open_statement {σ} (f : Xf σ) (sch : Schema) (st : σ) :
    (∀ i, xfInsertStmt f sch i st = none → xfStmt f sch (.insert i) st = (.insert i, st)) ∧
    (∀ u, xfUpdateStmt f sch u st = none → xfStmt f sch (.update u) st = (.update u, st)) := by
  constructor
  · intro i h; simp [xfStmt, h]
  · intro u h; simp [xfStmt, h]

/-- For columns that are not text-typed the forwarded literal is the hex bytea literal of the container. -/
theorem write_never_plain_hex (s : ColSetting) (p : Bytes) (h : s.dtype ≠ .str) : encodeText s p = pgHex p := by
  have : s.textTyped = false := by
    unfold ColSetting.textTyped
    cases hd : s.dtype <;> simp_all
  simp [encodeText, this]

/-- **write_never_plain (bound parameter).** A text- or binary-format parameter bound to a protected column
is replaced by `protect …` of its decoded value (hex-encoded in text format, raw in binary format). -/
theorem write_never_plain_param (c : CryptoOps) (kvW kvR : KeyView) (s : ColSetting) (fmt : Fmt) (data raw rnd p : Bytes)
    (hd : getData fmt data = some raw) (hne : raw ≠ [])
    (h : RoundTripHyps c s.kind kvW kvR raw rnd p)
    (hnm : matchKind s.kind raw = false) (hnr : registryMatch raw = false)
    (hp : protect c kvW s.kind raw rnd = .ok p) :
    encParam c kvW s fmt data rnd = some (setData s fmt p) := by
  have hw := writeChain_eq_protect c kvW kvR s raw rnd p h hnm hnr hp
  have hemp : raw.isEmpty = false := by cases raw <;> simp_all
  simp [encParam, hd, hemp, hw]

/-- **read_restores.** What the write chain stored for `raw` (the container `p`), sent back by the database
in text format or in binary format – for a typed column AND for a column without data type – comes out of
the read chain of a reader whose keys include the writer's key as a value the client reads as exactly `raw`.
(`raw ≠ p` holds whenever the AEAD adds bytes, `SealLen`.) In the binary format a column without data type
goes through the bytea text decoder first (`PgSQLDataDecoderProcessor`, `IsBinaryDataOperation`): on a
serialized container it fails with `ErrDecodeOctalString` (`decodeEscaped_protect`: the top byte of the
8-byte length field is a control character for containers below 2^61 bytes), so the detector receives
exactly the stored bytes. -/
theorem read_restores (c : CryptoOps) (kvW kvR : KeyView) (s : ColSetting) (fmt : Fmt) (raw rnd p : Bytes)
    (hne : raw ≠ [])
    (h : RoundTripHyps c s.kind kvW kvR raw rnd p)
    (hnm : matchKind s.kind raw = false) (hnr : registryMatch raw = false)
    (hp : protect c kvW s.kind raw rnd = .ok p) (hpr : raw ≠ p)
    (hf : fmt = .text ∨ s.dtype ≠ .none ∨ p.length < 2^61) :
    writeChain c kvW s raw rnd = .ok p ∧
    ∃ x, readChain c kvR (some s) fmt (dbOut fmt p) = .ok x ∧ clientValue s fmt x = some raw := by
  refine ⟨writeChain_eq_protect c kvW kvR s raw rnd p h hnm hnr hp, ?_⟩
  have hc := compat_protected c s.kind kvW kvR raw rnd p h hnm hnr hp hpr
  have hemp : raw.isEmpty = false := by cases raw <;> simp_all
  have hbne : (raw != p) = true := by simpa using hpr
  cases fmt with
  | text =>
    have hdec : decodeCol (some s) .text (pgHex p) = some (p, some (pgHex p)) := by
      simp [decodeCol, decodeEscaped_pgHex]
    cases hdt : s.dtype with
    | none =>
      refine ⟨pgHex raw, ?_, ?_⟩
      · simp [readChain, dbOut, hdec, hc, encodeCol, hemp, hdt, hbne]
      · simp [clientValue, hdt, decodeEscaped_pgHex]
    | bytes =>
      refine ⟨pgHex raw, ?_, ?_⟩
      · simp [readChain, dbOut, hdec, hc, encodeCol, hemp, hdt]
      · simp [clientValue, hdt, decodeEscaped_pgHex]
    | str =>
      refine ⟨raw, ?_, ?_⟩
      · simp [readChain, dbOut, hdec, hc, encodeCol, hemp, hdt]
      · simp [clientValue, hdt]
  | binary =>
    refine ⟨raw, ?_, ?_⟩
    · cases hdt : s.dtype with
      | none =>
        have hl : p.length < 2^61 := by
          rcases hf with h | h | h
          · cases h
          · exact absurd hdt h
          · exact h
        have hesc := decodeEscaped_protect c kvW s.kind raw rnd p hnm hnr hp hl
        have hdec : decodeCol (some s) .binary p = some (p, none) := by
          simp [decodeCol, hdt, hesc]
        simp [readChain, dbOut, hdec, hc, encodeCol, hemp, hdt, hbne]
      | bytes =>
        have hdec : decodeCol (some s) .binary p = some (p, none) := by simp [decodeCol, hdt]
        simp [readChain, dbOut, hdec, hc, encodeCol, hemp, hdt]
      | str =>
        have hdec : decodeCol (some s) .binary p = some (p, none) := by simp [decodeCol, hdt]
        simp [readChain, dbOut, hdec, hc, encodeCol, hemp, hdt]
    · simp [clientValue]

/-- **read_restores, binary format without data type – what reaches the detector.** The decoder hands the
envelope detector exactly the stored container (no decoded copy, no remembered encoded value). -/
theorem binary_untyped_delivers_stored (c : CryptoOps) (kv : KeyView) (s : ColSetting) (raw rnd p : Bytes)
    (hnm : matchKind s.kind raw = false) (hnr : registryMatch raw = false)
    (hp : protect c kv s.kind raw rnd = .ok p) (hl : p.length < 2^61) :
    decodeCol (some s) .binary p = some (p, none) ∧ decodeCol none .binary p = some (p, none) := by
  have hesc := decodeEscaped_protect c kv s.kind raw rnd p hnm hnr hp hl
  constructor
  · cases hdt : s.dtype <;> simp [decodeCol, hdt, hesc]
  · simp [decodeCol, hesc]

/-- **A reader without the keys gets the stored form.** If nothing inside the stored container `p` can be
processed with the reader's keys (the hypotheses of C03 `onColumnCompat_decrypt_same`), then what the read
chain delivers in text format is determined by `p` alone: the database's hex form of the container (for a
text-typed column: the container bytes) – never anything computed from the plaintext. -/
theorem keyless_gets_stored_form (c : CryptoOps) (kv : KeyView) (s : ColSetting) (p : Bytes) (hpe : p ≠ [])
    (h1 : ∀ i, i < p.length → startsWith containerTag (p.drop i) = true → ∀ m, process c kv (p.drop i) ≠ .ok m)
    (h2 : ∀ x id sx, x <:+: p → serialize x id = .ok sx → ∀ m, process c kv sx ≠ .ok m) :
    readChain c kv (some s) .text (pgHex p) = .ok (if s.dtype = .str then p else pgHex p) := by
  obtain ⟨hit, hc⟩ := onColumnCompat_decrypt_same c kv p h1 h2
  have hemp : p.isEmpty = false := by cases p <;> simp_all
  have hdec : decodeCol (some s) .text (pgHex p) = some (p, some (pgHex p)) := by
    simp [decodeCol, decodeEscaped_pgHex]
  cases hdt : s.dtype <;> simp [readChain, hdec, hc, encodeCol, hemp, hdt]

/-- **uncovered_identity (result columns).** A result column without setting whose value is not bytea hex
gone wrong (`decodeEscaped ≠ hexErr`, see the known finding `pg-uncovered-hex-lookalike`) and in whose
decoded form nothing can be processed with the reader's keys is delivered byte for byte, in either format. -/
theorem uncovered_identity_column (c : CryptoOps) (kv : KeyView) (fmt : Fmt) (d : Bytes)
    (hx : decodeEscaped d ≠ .hexErr)
    (h : ∀ d', (decodeEscaped d = .ok d' ∨ (decodeEscaped d = .octalErr ∧ d' = d)) →
      (∀ i, i < d'.length → startsWith containerTag (d'.drop i) = true → ∀ m, process c kv (d'.drop i) ≠ .ok m) ∧
      (∀ x id sx, x <:+: d' → serialize x id = .ok sx → ∀ m, process c kv sx ≠ .ok m)) :
    readChain c kv none fmt d = .ok d := by
  cases he : decodeEscaped d with
  | hexErr => exact absurd he hx
  | octalErr =>
    obtain ⟨h1, h2⟩ := h d (Or.inr ⟨he, rfl⟩)
    obtain ⟨hit, hc⟩ := onColumnCompat_decrypt_same c kv d h1 h2
    have hdec : decodeCol none fmt d = some (d, none) := by simp [decodeCol, he]
    simp only [readChain, hdec, hc, bne_self_eq_false, encodeCol]
    split <;> simp
  | ok d' =>
    obtain ⟨h1, h2⟩ := h d' (Or.inl he)
    obtain ⟨hit, hc⟩ := onColumnCompat_decrypt_same c kv d' h1 h2
    have hdec : decodeCol none fmt d = some (d', some d) := by simp [decodeCol, he]
    simp only [readChain, hdec, hc, bne_self_eq_false, encodeCol]
    split <;> simp

/-! ## statement forms beyond VALUES / SET lists -/

/-- **rewrite_frame (upsert).** The forwarded `INSERT … ON CONFLICT … DO UPDATE SET` (PostgreSQL, after the
`fix:` commit) keeps table, column list and RETURNING; its assignments are the received ones in the same
order, the value of a column without setting identical, the value of a column with a setting what the
transformer returned for it with that setting – exactly as for the SET list of an UPDATE. -/
theorem rewrite_frame_upsert {σ} (f : Xf σ) (sch : Schema) (t : Table) (i i' : Insert) (st st' : σ)
    (ht : sch.table i.table = some t) (h : xfInsertStmt f sch i st = some (i', st')) :
    i'.table = i.table ∧ i'.cols = i.cols ∧ i'.returning = i.returning ∧ setsRel f t i.onDup i'.onDup := by
  unfold xfInsertStmt at h
  simp only [ht] at h
  cases hr : (if i.fromSelect then some (i, st) else xfInsert f sch i st) with
  | none => simp [hr] at h
  | some x =>
    obtain ⟨i1, st1⟩ := x
    simp only [hr, Option.bind_some, Option.map_eq_some_iff] at h
    obtain ⟨⟨od, st2⟩, h1, h2⟩ := h
    simp only [Option.some.injEq, Prod.mk.injEq] at h2
    obtain ⟨rfl, _⟩ := h2
    have hframe : i1.table = i.table ∧ i1.cols = i.cols ∧ i1.returning = i.returning := by
      split at hr
      · simp only [Option.some.injEq, Prod.mk.injEq] at hr
        obtain ⟨rfl, _⟩ := hr
        exact ⟨rfl, rfl, rfl⟩
      · obtain ⟨a, b, c, _⟩ := rewrite_frame_insert f sch i i1 st st1 hr
        exact ⟨a, b, c⟩
    exact ⟨hframe.1, hframe.2.1, hframe.2.2, xfSets_rel f t i.onDup od st1 st2 h1⟩

/-- **INSERT … SELECT is never rewritten** (known finding `insert-select-plaintext`, stated as what the code
does): whatever the configuration and the transformer, the select list of an `INSERT … SELECT` is forwarded as
received and none of its placeholders is planned for transformation – in both front ends. A value written
into a protected column this way reaches the database in clear. -/
theorem insert_select_not_rewritten {σ} (f : Xf σ) (sch : Schema) (i : Insert) (st : σ) (hs : i.fromSelect = true) :
    (∀ i' st', xfInsertStmt f sch i st = some (i', st') → i'.rows = i.rows) ∧
    (∀ i' st', xfInsertMy f sch i st = some (i', st') → i'.rows = i.rows) ∧
    (i.onDup = [] → ∀ n, (bindPlan sch (.insert i) n = .untouched ∨ ∃ t, bindPlan sch (.insert i) n = planOf t [])) := by
  refine ⟨?_, ?_, ?_⟩
  · intro i' st' h
    unfold xfInsertStmt at h
    cases ht : sch.table i.table with
    | none =>
      simp only [ht, Option.some.injEq, Prod.mk.injEq] at h
      obtain ⟨rfl, _⟩ := h; rfl
    | some t =>
      simp only [ht, hs, if_true, Option.bind_some, Option.map_eq_some_iff] at h
      obtain ⟨⟨od, st2⟩, _, h2⟩ := h
      simp only [Option.some.injEq, Prod.mk.injEq] at h2
      obtain ⟨rfl, _⟩ := h2; rfl
  · intro i' st' h
    unfold xfInsertMy at h
    cases ht : sch.table i.table with
    | none =>
      simp only [ht, Option.some.injEq, Prod.mk.injEq] at h
      obtain ⟨rfl, _⟩ := h; rfl
    | some t =>
      simp only [ht, hs, Bool.or_true, if_true, Option.map_eq_some_iff] at h
      obtain ⟨⟨od, st2⟩, _, h2⟩ := h
      simp only [Option.some.injEq, Prod.mk.injEq] at h2
      obtain ⟨rfl, _⟩ := h2; rfl
  · intro hod n
    cases ht : sch.table i.table with
    | none => left; simp [bindPlan, ht]
    | some t =>
      by_cases hc : (insertColumns t i).isEmpty = true
      · left; simp [bindPlan, ht, hc]
      · right
        exact ⟨t, by simp [bindPlan, ht, hc, hs, hod, insertPlaceholdersRows, updatePlaceholders]⟩

/-- **The multi-column SET of PostgreSQL is never rewritten** (known finding `pg-update-multiassign-plaintext`):
`UPDATE … SET (a, b) = (x, y)` is forwarded with the values it came with and none of its placeholders is planned. -/
theorem update_multi_not_rewritten {σ} (f : Xf σ) (sch : Schema) (u : Update) (st : σ) (hm : u.multi = true) :
    xfUpdateStmt f sch u st = some (u, st) ∧
    ∀ n, (bindPlan sch (.update u) n = .untouched ∨ ∃ t, bindPlan sch (.update u) n = planOf t []) := by
  refine ⟨by simp [xfUpdateStmt, hm], ?_⟩
  intro n
  cases ht : sch.table u.table with
  | none => left; simp [bindPlan, ht]
  | some t => right; exact ⟨t, by simp [bindPlan, ht, hm, updatePlaceholders]⟩

/-! ## the MySQL front end -/

/-- **write_never_plain_my (literal).** In a MySQL statement a string / hex literal or a number written into a
protected column – not empty and not already protected – is replaced by a literal that denotes exactly
`protect … raw`, a value different from `raw` (`mysql.DBDataCoder.Encode` prints it as `X'…'` unless the bytes
are valid UTF-8). With `rewrite_frame_*` (the MySQL statement functions `xfInsertMy` / `xfUpdate` apply the
transformer through the same `xfRow` / `xfSets`): every protected cell of VALUES, SET and
ON DUPLICATE KEY UPDATE is such a literal. -/
theorem write_never_plain_my (c : CryptoOps) (kvW kvR : KeyView) (s : ColSetting) (raw rnd p : Bytes)
    (hne : raw ≠ [])
    (h : RoundTripHyps c s.kind kvW kvR raw rnd p)
    (hnm : matchKind s.kind raw = false) (hnr : registryMatch raw = false)
    (hp : protect c kvW s.kind raw rnd = .ok p) (hpr : p ≠ raw) :
    encCellMy c kvW s (.lit raw) rnd = some (.lit p, rnd.drop (rndUsed s.kind)) ∧
    encCellMy c kvW s (.num raw) rnd = some (.lit p, rnd.drop (rndUsed s.kind)) := by
  have hw := writeChain_eq_protect c kvW kvR s raw rnd p h hnm hnr hp
  have hemp : raw.isEmpty = false := by cases raw <;> simp_all
  have hbeq : (p == raw) = false := by simpa using hpr
  constructor <;> simp [encCellMy, hemp, hw, hbeq, chainUsed, passthrough, hnm, hnr]

/-- **write_never_plain_my (bound parameter).** A COM_STMT_EXECUTE parameter the statement binds to a protected
column (VALUES, SET, or – after the `fix:` commit – ON DUPLICATE KEY UPDATE: `bindPlanMy`) is replaced by
`protect …` of its value; every other parameter value stays what it was. -/
theorem write_never_plain_my_param (c : CryptoOps) (kvW kvR : KeyView) (s : ColSetting) (m : List (Nat × ColSetting))
    (params : List (Option Bytes)) (i : Nat) (raw rnd p : Bytes)
    (hm : m.find? (·.1 == i) = some (i, s)) (hi : params[i]? = some (some raw)) (hne : raw ≠ [])
    (h : RoundTripHyps c s.kind kvW kvR raw rnd p)
    (hnm : matchKind s.kind raw = false) (hnr : registryMatch raw = false)
    (hp : protect c kvW s.kind raw rnd = .ok p) :
    bindLoop c kvW m (params.map fun v => (Fmt.binary, v)) [i] params rnd = some (params.set i (some p)) := by
  have hw := writeChain_eq_protect c kvW kvR s raw rnd p h hnm hnr hp
  have hemp : raw.isEmpty = false := by cases raw <;> simp_all
  have hi' : (params.map fun v => (Fmt.binary, v))[i]? = some (Fmt.binary, some raw) := by
    simp [List.getElem?_map, hi]
  simp [bindLoop, hm, hi', getData, hemp, hw, setData, setAt]

/-- **read_restores_my.** What the write chain stored for `raw` (the container `p`), sent back by the MySQL
database in the text or in the binary protocol (BLOB / VARCHAR column, any `data_type` of the setting), comes
out of the MySQL read chain of a reader whose keys include the writer's key as the length-encoded string of
exactly `raw`: the client reads `raw`, whatever follows in the row. -/
theorem read_restores_my (c : CryptoOps) (kvW kvR : KeyView) (s : ColSetting) (fmt : Fmt) (raw rnd p : Bytes)
    (hne : raw ≠ []) (hl : raw.length < 2^64)
    (h : RoundTripHyps c s.kind kvW kvR raw rnd p)
    (hnm : matchKind s.kind raw = false) (hnr : registryMatch raw = false)
    (hp : protect c kvW s.kind raw rnd = .ok p) (hpr : raw ≠ p) :
    writeChain c kvW s raw rnd = .ok p ∧
    readChainMy c kvR (some s) fmt .str (dbOutMy p) = .ok (myLenEnc raw) ∧
    ∀ rest, clientValueMy fmt .str (myLenEnc raw ++ rest) = some raw := by
  refine ⟨writeChain_eq_protect c kvW kvR s raw rnd p h hnm hnr hp, ?_, fun rest => clientValueMy_lenenc fmt raw rest hl⟩
  have hc := compat_protected c s.kind kvW kvR raw rnd p h hnm hnr hp hpr
  simp only [readChainMy, dbOutMy, decodeColMy_str, hc, encodeColMy_str]

/-- **A MySQL reader without the keys gets the stored form**: if nothing inside the stored container can be
processed with the reader's keys, the column is delivered as the length-encoded string of the container
itself – never anything computed from the plaintext. -/
theorem keyless_gets_stored_form_my (c : CryptoOps) (kv : KeyView) (s : Option ColSetting) (fmt : Fmt) (p : Bytes)
    (h1 : ∀ i, i < p.length → startsWith containerTag (p.drop i) = true → ∀ m, process c kv (p.drop i) ≠ .ok m)
    (h2 : ∀ x id sx, x <:+: p → serialize x id = .ok sx → ∀ m, process c kv sx ≠ .ok m) :
    readChainMy c kv s fmt .str p = .ok (myLenEnc p) := by
  obtain ⟨hit, hc⟩ := onColumnCompat_decrypt_same c kv p h1 h2
  simp only [readChainMy, decodeColMy_str, hc, encodeColMy_str]

/-- **uncovered_identity_my (statements and parameters).** A MySQL statement on a table without configuration
entry is forwarded exactly as received, and so are the parameters of its COM_STMT_EXECUTE. -/
theorem uncovered_identity_my_stmt (c : CryptoOps) (kv : KeyView) (sch : Schema) (s : Stmt) (rnd : Bytes)
    (params : List (Option Bytes)) (order : List Nat)
    (h : ∀ n, s.table = some n → sch.table n = none) :
    forwardStmtMy c kv sch s rnd = s ∧ forwardBindMy c kv sch s params order rnd = .same := by
  cases s with
  | insert i => simp [forwardStmtMy, xfInsertMy, forwardBindMy, bindPlanMy, h i.table rfl]
  | update u => simp [forwardStmtMy, xfUpdate, forwardBindMy, bindPlanMy, h u.table rfl]
  | select s => simp [forwardStmtMy, forwardBindMy, bindPlanMy]
  | other n => simp [forwardStmtMy, forwardBindMy, bindPlanMy]

/-- **uncovered_identity_my (result columns).** A result column without setting in which nothing can be
processed with the reader's keys is put back on the wire as it came: a length-encoded value as the
length-encoded string of the same bytes (text and binary protocol), a fixed-width integer of the binary
protocol – which travels through the chain as decimal text – as the same `k` bytes. -/
theorem uncovered_identity_my_column (c : CryptoOps) (kv : KeyView) (fmt : Fmt) (d : Bytes) (k : Nat)
    (hk : 1 ≤ k) (hd : d.length = k)
    (h : ∀ d', (d' = d ∨ d' = formatInt (leToInt d)) →
      (∀ i, i < d'.length → startsWith containerTag (d'.drop i) = true → ∀ m, process c kv (d'.drop i) ≠ .ok m) ∧
      (∀ x id sx, x <:+: d' → serialize x id = .ok sx → ∀ m, process c kv sx ≠ .ok m)) :
    readChainMy c kv none fmt .str d = .ok (myLenEnc d) ∧
    readChainMy c kv none .binary (.int k) d = .ok d := by
  constructor
  · obtain ⟨h1, h2⟩ := h d (Or.inl rfl)
    exact keyless_gets_stored_form_my c kv none fmt d h1 h2
  · obtain ⟨h1, h2⟩ := h (formatInt (leToInt d)) (Or.inr rfl)
    obtain ⟨hit, hc⟩ := onColumnCompat_decrypt_same c kv _ h1 h2
    obtain ⟨hdec, henc⟩ := int_detour k d hk hd
    have hemp : (formatInt (leToInt d)).isEmpty = false := by
      have := formatInt_ne_nil (leToInt d)
      cases hf : formatInt (leToInt d) <;> simp_all
    simp [readChainMy, hdec, hc, encodeColMy, hemp, henc]

/-! ## pending queue -/

/-- **pending_pairs.** In every run of the joint system proxy + PostgreSQL-conforming database – any
interleaving of pipelined simple/extended-protocol requests, results, errors (after which the database
discards everything up to the next Sync) and ReadyForQuery – each DataRow is processed with the settings
of exactly the statement the database is answering. -/
theorem pending_pairs {α : Type} (evs : List (JEv α)) (j : Joint α) (obs : List (α × Option α))
    (h : jrun {} evs = some (j, obs)) : ∀ q x, (q, x) ∈ obs → x = some q :=
  (inv_run evs {} j obs inv_init h).2

/-- **The queue drains.** Whenever the database has answered everything it received (and is not skipping),
the proxy's queue is empty: no entry outlives its statement (the defect repaired by the sync-point `fix:`). -/
theorem pending_drained {α : Type} (evs : List (JEv α)) (j : Joint α) (obs : List (α × Option α))
    (h : jrun {} evs = some (j, obs)) (hd : j.d = []) (hs : j.skipping = false) : j.p = [] := by
  obtain ⟨⟨⟨junk, _, hp, hj⟩, _⟩, _⟩ := inv_run evs {} j obs inv_init h
  cases junk with
  | nil => simp [hp, hd]
  | cons a r =>
    cases hj (by simp) with
    | inl h => rw [hs] at h; cases h.2
    | inr h => simp [hd] at h

/-- **Portal resolution.** After `Parse n s` and `Bind portal n b`, `Execute portal` queues exactly the
statement `s` with that Bind – the entry whose settings `pending_pairs` pairs with the result. -/
theorem execute_resolves {α β : Type} (st : PState α β) (n portal : Name) (s : α) (b : β) :
    ∃ st1 st2 st3, clStep st (.parse n s false) = some (st1, true) ∧
      clStep st1 (.bind portal n b) = some (st2, true) ∧
      clStep st2 (.execute portal) = some (st3, true) ∧
      st3.pending = st.pending ++ [.query (.extended s b)] := by
  simp [clStep, Registry.addStatement, Registry.addCursor, Registry.stmt, Registry.portal]

/-- A censored query (never forwarded) leaves queue and registry untouched (the defect repaired by the
`fix:` "do not remember a simple query as pending before AcraCensor has accepted it"). -/
theorem censored_not_pending {α β : Type} (st : PState α β) (s : α) :
    clStep st (.query s true) = some (st, false) := rfl

/-! ## SQL-level prepared statements (PREPARE / EXECUTE / DEALLOCATE over the simple protocol) -/

/-- **What the row handler looks at.** `PgProxy.handleQueryDataPacket` resolves the statement of a DataRow as
`rowResolve` has it – the pending query text is parsed; if it is an `EXECUTE` the statement registered under
that name is fetched from `proxy.registry` NOW; the settings are extracted from the result – and refers to nothing
of the proxy but its protocol state (the queue), the registry, the settings extractor and the per-column chain;
`PgProxy` has no field in which settings of an earlier row or statement could be kept. -/
theorem fact_row_resolution :
    PgCoder.pgRowResolution =
      ["assign sqlQuery:=pendingPacket.(queryPacket).GetSQLQuery()", "assign sqlOnQuery:=postgresql.NewOnQueryObjectFromQuery(sqlQuery)",
       "assign sqlStmt,err:=postgresql.ParseQuery(sqlQuery)", "if err!=nil", "return err", "end",
       "if len(sqlStmt.Stmts)>0&&sqlStmt.Stmts[0].Stmt.GetExecuteStmt()!=nil", "var executeQuery=sqlStmt.Stmts[0].Stmt.GetExecuteStmt()",
       "assign storedStatement,err:=proxy.registry.StatementByName(executeQuery.GetName())", "if err!=nil", "return err", "end",
       "assign sqlOnQuery=postgresql.NewOnQueryObjectFromStatement(storedStatement.Query())", "end",
       "assign encryptionSettings,err:=proxy.settingExtractor.GetEncryptorSettingsForQuery(sqlOnQuery)", "if err!=nil",
       "assign encryptionSettings=nil", "end"] ∧
    PgCoder.pgRowHandlerRefs = ["onColumnDecryption", "protocolState", "registry", "settingExtractor"] ∧
    PgCoder.pgProxyFields = ["session", "clientConnection", "dbConnection", "stopClient", "ClientStopResponse", "ctx",
      "queryObserverManager", "censor", "decryptionObserver", "protocolState", "setting", "clientIDObserverManager", "parser",
      "settingExtractor", "registry"] := by decide

/-- **How the SQL-level statements are registered**, as `sqlObserve` has it: `PREPARE` looks the name up first and
refuses (`ErrStatementAlreadyInRegistry`) when it is found, otherwise adds the statement and runs the inner
statement through the query observers; `EXECUTE` only looks the name up; `DEALLOCATE ALL` (empty name) deletes
the named statements, `DEALLOCATE n` looks the name up and deletes it. -/
theorem fact_sql_prepared_registry :
    PgCoder.sqlPrepareCalls = ["registry.StatementByName", "registry.AddStatement", "queryObserver.OnQuery"] ∧
    PgCoder.sqlPrepare.take 5 =
      ["var prepareQuery=parseResult.Stmts[0].Stmt.GetPrepareStmt()", "var preparedStatementName=prepareQuery.GetName()",
       "if assign _,err:=encryptor.registry.StatementByName(preparedStatementName); err==nil",
       "return nil,false,ErrStatementAlreadyInRegistry", "end"] ∧
    PgCoder.sqlExecuteCalls = ["registry.StatementByName", "queryObserver.OnBind"] ∧
    PgCoder.sqlDeallocate =
      ["var preparedStatementName=parseResult.Stmts[0].Stmt.GetDeallocateStmt().GetName()", "if preparedStatementName==\"\"",
       "return nil,false,encryptor.registry.DeleteNamedStatements()", "end",
       "if assign _,err:=encryptor.registry.StatementByName(preparedStatementName); err!=nil",
       "return nil,false,ErrStatementNotPresentInRegistry", "end",
       "return nil,false,encryptor.registry.DeleteStatement(preparedStatementName)"] := by decide

/-- **The observer on the registry is `regEff` on what the row handler can see of it.** After
`PreparedStatementsQuery.OnQuery` the name ↦ statement table the row handler reads (`StatementByName`) is: for
`PREPARE n AS s` – `n ↦ s` added unless `n` was bound (then nothing changes: no overwrite); for `DEALLOCATE n` –
`n` removed; for `DEALLOCATE ALL` – every named statement removed; unchanged otherwise. -/
theorem sql_observe_registry {α β : Type} (r : Registry α β) (c : SqlCmd α) :
    (sqlObserve r c).1.view = regEff r.view c := sqlObserve_view r c

/-- **Row processing is a function of (registry, pending statement) only.** The statement whose settings a DataRow
is processed with depends on nothing but the name ↦ statement table the registry shows and the entry at the front
of the queue – two proxy states that agree on these resolve every row alike, whatever rows or statements they
have processed before (the model has no memo; `fact_row_resolution` pins that the code has no place for one). -/
theorem row_resolution_local {α β : Type} (r r' : Registry α β) (e : Entry (SSrc α β)) (q q' : List (Entry (SSrc α β)))
    (h : r.view = r'.view) : rowResolve r (e :: q) = rowResolve r' (e :: q') := by
  cases e with
  | sync => rfl
  | query s =>
    cases s with
    | extended s b => rfl
    | sql c => simp only [rowResolve, h]

/-- **sql_prepare_pairs.** In every run of the joint system proxy + PostgreSQL-conforming database with SQL-level
prepared statements – `PREPARE` / `DEALLOCATE` sent when nothing is outstanding, `EXECUTE`, other statements and
extended-protocol requests pipelined in any way, errors, Sync, ReadyForQuery – each DataRow is processed with the
settings of exactly the statement the database is answering: for `EXECUTE n` the statement `n` is bound to AT THAT
MOMENT in the database (names deallocated and prepared again with another statement included). -/
theorem sql_prepare_pairs {α : Type} (evs : List (SJEv α)) (s : SJoint α) (obs : List (α × RowRes α))
    (h : sjrun {} evs = some (s, obs)) : ∀ st x, (st, x) ∈ obs → x = .stmt st :=
  (sinv_run evs {} s obs sinv_init h).2

/-- **The two tables agree whenever nothing is outstanding**: at every quiescent point the proxy's registry shows
exactly the prepared statements the database has. -/
theorem sql_registry_in_step {α : Type} (evs : List (SJEv α)) (s : SJoint α) (obs : List (α × RowRes α))
    (h : sjrun {} evs = some (s, obs)) (hd : s.j.d = []) : s.preg = s.dreg := by
  have := (sinv_run evs {} s obs sinv_init h).1.reg
  rw [this, hd]
  rfl

/-- **Pipelining a re-definition behind an EXECUTE is outside the theorem** (why `sjstep` has the client rule):
the proxy resolves `EXECUTE q` when the ROW arrives. If the client sends `PREPARE q AS 1; EXECUTE q; DEALLOCATE q;
PREPARE q AS 2` without waiting, then at the moment the database – which has completed only the first PREPARE –
returns the rows of `EXECUTE q` (statement 1), the proxy's registry already binds `q` to statement 2. -/
theorem overtake_counterexample :
    let evs : List (SClEv Nat Nat) := [.query (.prepare "q" 1) false, .query (.execute "q") false,
      .query (.deallocate "q") false, .query (.prepare "q" 2) false]
    let st := evs.foldl (fun st ev => match sclStep st ev with | some (st', _) => st' | none => st) ({} : SState Nat Nat)
    -- queue after the first PREPARE has been answered (CommandComplete, ReadyForQuery)
    rowResolve st.reg (dbStep (dbStep st.pending .done) .ready) = .stmt 2 ∧
    resolveCmd (regEff (fun _ => (none : Option Nat)) (.prepare "q" 1)) (.execute "q") = .stmt 1 := by decide

/-- **A PREPARE the database rejects leaves the name bound in the proxy** (known finding
`sql-prepare-rejected-name-sticky`, why `sjstep` lets a PREPARE of a free name fail never): the statement is
registered when it is SENT. If the database rejects `PREPARE q AS 1` (unknown table …) and then accepts
`PREPARE q AS 2`, the proxy refuses the second one as "already stored" and processes the rows of `EXECUTE q`
(statement 2 in the database) with the settings of statement 1. -/
theorem rejected_prepare_counterexample :
    let evs : List (SClEv Nat Nat) := [.query (.prepare "q" 1) false, .query (.prepare "q" 2) false, .query (.execute "q") false]
    let st := evs.foldl (fun st ev => match sclStep st ev with | some (st', _) => st' | none => st) ({} : SState Nat Nat)
    -- the database: first PREPARE failed (table unchanged), second completed
    let dreg := regEff (fun _ => (none : Option Nat)) (.prepare "q" 2)
    rowResolve st.reg (st.pending.drop 4) = .stmt 1 ∧ resolveCmd dreg (.execute "q") = .stmt 2 := by decide

/-! ## non-vacuity: the hypotheses are satisfiable, the theorems say something -/

/-- `lit_value_total` / `write_never_plain` on a literal that is NOT bytea escape text – `C:\k` followed by a line
break: the hypotheses of `write_never_plain` hold for it, `DecodeEscaped` fails with `ErrDecodeOctalString`, and
the coder hands the chain the five bytes of the text itself (so the theorem's conclusion is about a real case). -/
example :
    let s : ColSetting := { kind := .block }
    let b : Bytes := [67, 58, 92, 107, 10]
    (¬ (s.textTyped = false ∧ ∃ h, b = 92 :: 120 :: h ∧ Wire.Bytea.hexDecode h = none)) ∧
    (b ≠ [] ∧ ¬ (s.textTyped = false ∧ b = [92, 120])) ∧
    Wire.Bytea.decodeEscaped b = .error .octal ∧ decodeLit s b = some b ∧
    (∀ (c : CryptoOps) (kvW kvR : KeyView) (rnd : Bytes), ∃ raw, decodeLit s b = some raw ∧ raw ≠ []) := by
  intro s b
  have hoct : Wire.Bytea.decodeEscaped b = .error .octal := by
    have hr : Wire.Bytea.toRunes b = [67, 58, 92, 107, 10] := by
      rw [Wire.Bytea.toRunes_ascii b (by decide)]; rfl
    have : Wire.Bytea.decodeOctal b = none := by
      unfold Wire.Bytea.decodeOctal
      rw [hr]; decide
    simp [Wire.Bytea.decodeEscaped, b, this]
  have hx : ¬ (s.textTyped = false ∧ ∃ h, b = 92 :: 120 :: h ∧ Wire.Bytea.hexDecode h = none) := by
    rintro ⟨_, h, hb, _⟩
    simp [b] at hb
  have he : b ≠ [] ∧ ¬ (s.textTyped = false ∧ b = [92, 120]) := ⟨by decide, by decide⟩
  refine ⟨hx, he, hoct, ?_, ?_⟩
  · rw [decodeLit, pgDecodeSval_eq fact_decodeEscaped_returns, hoct]
    rfl
  · intro c kvW kvR rnd
    obtain ⟨raw, h1, h2, _⟩ := write_never_plain c kvW kvR s b rnd hx he
    exact ⟨raw, h1, h2⟩

/-- the coder's only error: `\xZZ` in a column without text type – and the statement that carries it next to
another protected literal is forwarded as received (`fail_open_statement`), here on the statement level with the
real transformer: the first protected cell fails, nothing is rewritten. -/
example :
    let t : Table := { name := "t", columns := ["id", "a", "b"], encrypted := [("a", { kind := .block }), ("b", { kind := .block, dtype := .str })] }
    let st : Stmt := .insert { table := "t", cols := [], rows := [[.num [49], .lit [92, 120, 90, 90], .lit [83, 69, 67, 82, 69, 84]]] }
    decodeLit { kind := .block } [92, 120, 90, 90] = none ∧
    forwardStmt toyOps ⟨none, none, some [1, 2, 3], none⟩ [t] st [] = st := by
  intro t st
  have h : decodeLit { kind := .block } [92, 120, 90, 90] = none := by
    rw [decodeLit, pgDecodeSval_eq fact_decodeEscaped_returns]
    decide
  refine ⟨h, ?_⟩
  simp [forwardStmt, xfStmt, xfInsertStmt, xfInsert, Schema.table, t, st, insertColumns, xfRows, xfRow, Table.setting, encCell, h]

/-- `sql_prepare_pairs` on the run of the seeded change C04-6: `PREPARE q AS 1; EXECUTE q; DEALLOCATE q;
PREPARE q AS 2; EXECUTE q` – same query text `EXECUTE q` twice, nothing with rows in between: the first row is
processed with statement 1, the second with statement 2; then `DEALLOCATE ALL`, `PREPARE q AS 3`, `EXECUTE q`
pipelined with a plain statement. -/
example :
    (sjrun ({} : SJoint Nat)
      [.send (.query (.prepare "q" 1)), .send .sync, .done, .ready,
       .send (.query (.execute "q")), .send .sync, .row, .done, .ready,
       .send (.query (.deallocate "q")), .send .sync, .done, .ready,
       .send (.query (.prepare "q" 2)), .send .sync, .done, .ready,
       .send (.query (.execute "q")), .send .sync, .row, .row, .done, .ready,
       .send (.query .deallocateAll), .send .sync, .done, .ready,
       .send (.query (.prepare "q" 3)), .send .sync,
       .send (.query (.execute "q")), .send .sync, .send (.query (.plain 7)), .send .sync,
       .done, .ready, .row, .done, .ready, .row, .done, .ready]).map (·.2) =
      some [(1, .stmt 1), (2, .stmt 2), (2, .stmt 2), (3, .stmt 3), (7, .stmt 7)] := by decide

/-- the client rule of `sjstep` is a restriction: re-defining a name behind an unanswered EXECUTE is not a run -/
example :
    sjrun ({} : SJoint Nat)
      [.send (.query (.prepare "q" 1)), .send .sync, .done, .ready,
       .send (.query (.execute "q")), .send .sync, .send (.query (.deallocate "q"))] = none := by decide

/-- the same session on the proxy's own state machine (`sclStep`, the registry with portals and unique ids): the
DataRow of the second `EXECUTE q` is resolved to statement 2, and `PREPARE` of a bound name does not overwrite. -/
example :
    let run (evs : List (SClEv Nat Nat)) := evs.foldl (fun st ev => match sclStep st ev with | some (st', _) => st' | none => st) ({} : SState Nat Nat)
    let st := run [.query (.prepare "q" 1) false, .query (.execute "q") false, .query (.deallocate "q") false,
                   .query (.prepare "q" 2) false, .query (.execute "q") false]
    rowResolve st.reg (st.pending.drop 8) = .stmt 2 ∧
    (run [.query (.prepare "q" 1) false, .query (.prepare "q" 2) false]).reg.view "q" = some 1 := by decide


/-- `read_restores` / `write_never_plain` with concrete keys, the hash-based toy instance of the crypto
operations (which satisfies `SealLaws` and `SealLen`), an AcraBlock column and the literal `'\x0909'`. -/
example :
    let kvW : KeyView := ⟨none, none, some [1,2,3], none⟩
    let kvR : KeyView := ⟨none, none, some [4,5], some ([[4,5]] ++ [1,2,3] :: [[1,2,9]])⟩
    let s : ColSetting := { kind := .block }
    ∃ p, encCell toyOps kvW s (.lit [92, 120, 48, 57, 48, 57]) (List.replicate 56 5) = some (.lit (pgHex p), []) ∧
      p ≠ [9, 9] ∧
      ∃ x, readChain toyOps kvR (some s) .text (pgHex p) = .ok x ∧ clientValue s .text x = some [9, 9] := by
  intro kvW kvR s
  have hs := toy_sealLaws
  have hsl := toy_sealLen
  have hkid := AcraModel.Props.C01.keyId_length toyOps toy_hashLen [1,2,3] []
  have hnm : matchKind .block [9,9] = false := by decide
  have hnr : registryMatch [9,9] = false := by decide
  obtain ⟨p, hp⟩ := AcraModel.Props.C01.protect_block_total toyOps hs kvW [1,2,3] [9,9] (List.replicate 56 5) rfl (by decide) (by decide)
    (by decide) (by decide)
  obtain ⟨hpl, _⟩ := AcraModel.Props.C01.protect_block_length toyOps hs hsl kvW [1,2,3] [9,9] _ p rfl hkid hnm hnr hp
  have hpl' : p.length = 152 := hpl
  have hek : ∀ encKey, toyOps.enc [1,2,3] [] ((List.replicate 56 5).take 32) (((List.replicate 56 (5:UInt8)).drop 44).take 12) = some encKey →
      encKey.length < 65536 := by
    intro ek h
    have := hsl.enc_len _ _ _ _ _ h
    rw [this]; decide
  have hkpre : ∀ k' ∈ [[4,5]], ∀ encKey, toyOps.enc [1,2,3] [] ((List.replicate 56 5).take 32) (((List.replicate 56 (5:UInt8)).drop 44).take 12) = some encKey →
      keyId toyOps k' [] = keyId toyOps [1,2,3] [] → toyOps.dec k' [] encKey = none := by
    intro k' hk' encKey _ hid
    simp only [List.mem_singleton] at hk'
    subst hk'
    exact absurd hid (by decide)
  have hne : p ≠ [9, 9] := by
    intro h
    have := congrArg List.length h
    rw [hpl'] at this
    simp at this
  have hH : RoundTripHyps toyOps s.kind kvW kvR [9,9] (List.replicate 56 5) p :=
    ⟨hs, [1,2,3], [[4,5]], [[1,2,9]], hkid, rfl, rfl, hkpre, hek, by rw [hpl']; decide⟩
  have hdl : decodeLit s [92, 120, 48, 57, 48, 57] = some [9, 9] := by decide
  refine ⟨p, ?_, hne, ?_⟩
  · have := write_never_plain_value toyOps kvW kvR s _ [9,9] _ p hdl (by decide) hH hnm hnr hp hne
    rw [this, write_never_plain_hex s p (by decide)]
    rfl
  · exact (read_restores toyOps kvW kvR s .text [9,9] _ p (by decide) hH hnm hnr hp (fun h => hne h.symm) (Or.inl rfl)).2

/-- `write_never_plain_my` / `read_restores_my` with the same concrete keys and toy instance: the MySQL literal
`X'0909'` of an AcraBlock column is forwarded as a literal denoting a container `p ≠ 0909`, and the owner reads
`0909` back in the binary protocol. -/
example :
    let kvW : KeyView := ⟨none, none, some [1,2,3], none⟩
    let kvR : KeyView := ⟨none, none, some [4,5], some ([[4,5]] ++ [1,2,3] :: [[1,2,9]])⟩
    let s : ColSetting := { kind := .block }
    ∃ p, encCellMy toyOps kvW s (.lit [9, 9]) (List.replicate 56 5) = some (.lit p, []) ∧
      p ≠ [9, 9] ∧
      readChainMy toyOps kvR (some s) .binary .str p = .ok (myLenEnc [9, 9]) ∧
      clientValueMy .binary .str (myLenEnc [9, 9] ++ [1, 2, 3]) = some [9, 9] := by
  intro kvW kvR s
  have hs := toy_sealLaws
  have hsl := toy_sealLen
  have hkid := AcraModel.Props.C01.keyId_length toyOps toy_hashLen [1,2,3] []
  have hnm : matchKind .block [9,9] = false := by decide
  have hnr : registryMatch [9,9] = false := by decide
  obtain ⟨p, hp⟩ := AcraModel.Props.C01.protect_block_total toyOps hs kvW [1,2,3] [9,9] (List.replicate 56 5) rfl (by decide) (by decide)
    (by decide) (by decide)
  obtain ⟨hpl, _⟩ := AcraModel.Props.C01.protect_block_length toyOps hs hsl kvW [1,2,3] [9,9] _ p rfl hkid hnm hnr hp
  have hpl' : p.length = 152 := hpl
  have hek : ∀ encKey, toyOps.enc [1,2,3] [] ((List.replicate 56 5).take 32) (((List.replicate 56 (5:UInt8)).drop 44).take 12) = some encKey →
      encKey.length < 65536 := by
    intro ek h
    have := hsl.enc_len _ _ _ _ _ h
    rw [this]; decide
  have hkpre : ∀ k' ∈ [[4,5]], ∀ encKey, toyOps.enc [1,2,3] [] ((List.replicate 56 5).take 32) (((List.replicate 56 (5:UInt8)).drop 44).take 12) = some encKey →
      keyId toyOps k' [] = keyId toyOps [1,2,3] [] → toyOps.dec k' [] encKey = none := by
    intro k' hk' encKey _ hid
    simp only [List.mem_singleton] at hk'
    subst hk'
    exact absurd hid (by decide)
  have hne : p ≠ [9, 9] := by
    intro h
    have := congrArg List.length h
    rw [hpl'] at this
    simp at this
  have hH : RoundTripHyps toyOps s.kind kvW kvR [9,9] (List.replicate 56 5) p :=
    ⟨hs, [1,2,3], [[4,5]], [[1,2,9]], hkid, rfl, rfl, hkpre, hek, by rw [hpl']; decide⟩
  have hw := (write_never_plain_my toyOps kvW kvR s [9,9] _ p (by decide) hH hnm hnr hp hne).1
  have hr := read_restores_my toyOps kvW kvR s .binary [9,9] _ p (by decide) (by decide) hH hnm hnr hp (fun h => hne h.symm)
  exact ⟨p, by rw [hw]; rfl, hne, hr.2.1, hr.2.2 [1,2,3]⟩

/-- `uncovered_identity_my_column` on the id column of a binary-protocol row: the four bytes of the integer 7
travel through the chain as the text `7` and come back as the same four bytes. -/
example : readChainMy toyOps ⟨none, none, none, none⟩ none .binary (.int 4) [7, 0, 0, 0] = .ok [7, 0, 0, 0] := by decide

/-- `insert_select_not_rewritten` / `rewrite_frame_upsert` on concrete statements: the transformer reaches the
ON CONFLICT assignment of a protected column, and nothing of an `INSERT … SELECT`. -/
example :
    let t : Table := { name := "t", columns := ["id", "data"], encrypted := [("data", { kind := .block })] }
    let f : Xf Nat := fun _ _ n => some (.lit [1], n + 1)
    xfStmt f [t] (.insert { table := "t", cols := ["id"], rows := [[.num [49]]], onDup := [("data", .lit [65]), ("id", .num [50])] }) 0 =
      (.insert { table := "t", cols := ["id"], rows := [[.num [49]]], onDup := [("data", .lit [1]), ("id", .num [50])] }, 1) ∧
    xfStmt f [t] (.insert { table := "t", cols := ["id", "data"], rows := [[.num [49], .lit [65]]], fromSelect := true }) 0 =
      (.insert { table := "t", cols := ["id", "data"], rows := [[.num [49], .lit [65]]], fromSelect := true }, 0) := by
  intro t f
  exact ⟨rfl, rfl⟩

/-- `pending_pairs` on a run where the FIFO pairing is not trivial: two Executes and a Sync pipelined, the
first fails (the database discards the second), then a simple query whose row must be paired with the
query and not with the discarded Execute. -/
example :
    jrun ({} : Joint Nat) [.send (.query 1), .send (.query 2), .send .sync, .error, .ready,
        .send (.query 3), .send .sync, .row, .done, .ready] =
      some ({ p := [], d := [], skipping := false }, [(3, some 3)]) := by rfl

/-- `rewrite_frame_insert` / `uncovered_identity_stmt` on a two-column table with one protected column: the
transformer is applied to the protected cell only, the row of the wrong arity is left alone. -/
example :
    let t : Table := { name := "t", columns := ["id", "data"], encrypted := [("data", { kind := .block })] }
    let f : Xf Nat := fun _ _ n => some (.lit [1], n + 1)
    xfStmt f [t] (.insert { table := "t", cols := [], rows := [[.num [49], .lit [65]], [.num [50]]] }) 0 =
      (.insert { table := "t", cols := [], rows := [[.num [49], .lit [1]], [.num [50]]] }, 1) := by
  intro t f
  rfl

end AcraModel.Props.C04
