import AcraModel.Props.C12
/-!
# C14 — no input can crash a handler or make it consume unbounded resources

This file COLLECTS the no-panic / termination / progress theorems of the modelled decoders (they are
proved in the property files of the subsystems and restated here so that C14's obligations are
explicit). Termination of every modelled loop is a definitional obligation: the models are total
Lean functions by structural or well-founded recursion whose measure decreases on every path
(`scan`, `processStructs`, `processBlocks` in `Envelope/Detector.lean`; the readers in `Wire/`).
Decoders without a model (SQL grammars, pg_query, YAML, ASN.1) are explored by the harness only –
that part of C14 is exploration, not proof, and the evidence says so.
-/
namespace AcraModel.Props.C14
open AcraModel AcraModel.Wire.LenEnc

/-- MySQL length-encoded integer reader never panics. -/
theorem lenenc_int_no_panic (data : Bytes) : lengthEncodedInt data ≠ .panic :=
  C12.lenenc_int_no_panic data

/-- MySQL length-encoded string reader never panics. -/
theorem lenenc_str_no_panic (data : Bytes) : lengthEncodedString data ≠ .panic :=
  C12.lenenc_str_no_panic data

/-- … and a successful read makes progress inside the buffer (callers' row loops terminate). -/
theorem lenenc_str_progress (data : Bytes) (v : Option Bytes) (n : Nat)
    (h : lengthEncodedString data = .ok (v, n)) : 0 < n ∧ n ≤ data.length :=
  C12.lenenc_str_progress data v n h

theorem lenenc_skip_no_panic (data : Bytes) : skipLengthEncodedString data ≠ .panic :=
  C12.lenenc_skip_no_panic data

end AcraModel.Props.C14
