import AcraModel.Props.C12
import AcraModel.Props.C03
import AcraModel.Props.C10
import AcraModel.Sql.MysqlComment
import AcraModel.Props.C13
import AcraModel.Sql.TokenizerLoop
import AcraModel.Censor.NilGuard
/-!
# C14 — no input can crash a handler or make it consume unbounded resources

This file COLLECTS the no-panic / termination / progress theorems of the modelled decoders (they are
proved in the property files of the subsystems and restated here so that C14's obligations are
explicit). Termination of every modelled loop is a definitional obligation: the models are total
Lean functions by structural or well-founded recursion whose measure decreases on every path
(`scan`, `processStructs`, `processBlocks` in `Envelope/Detector.lean`; the readers in `Wire/`).
The SQL TOKENIZER of both dialects (`sqlparser/token.go`: `Scan`, `Lex` and every scanner) is modelled in
`Sql/Tokenizer*.lean`; its theorems are the last section of this file. Decoders without a model (the SQL GRAMMAR,
pg_query, YAML, ASN.1) are explored by the harness only – that part of C14 is exploration, not proof, and the evidence
says so.
-/
namespace AcraModel.Props.C14
open AcraModel AcraModel.Wire.LenEnc AcraModel.Envelope

/-- MySQL length-encoded integer reader never panics. -/
theorem lenenc_int_no_panic (data : Bytes) : lengthEncodedInt data ≠ .panic :=
  C12.lenenc_int_no_panic data

/-- MySQL length-encoded string reader never panics. -/
theorem lenenc_str_no_panic (data : Bytes) : lengthEncodedString data ≠ .panic :=
  C12.lenenc_str_no_panic data

/-- … and a successful read makes progress inside the buffer (callers' row loops terminate). -/
theorem lenenc_str_progress (data : Bytes) (v : Option Bytes) (n : Nat)
    (h : lengthEncodedString data = .ok (v, n)) : 0 < n ∧ n ≤ data.length :=
  C12.lenenc_str_progress data v n h

theorem lenenc_skip_no_panic (data : Bytes) : skipLengthEncodedString data ≠ .panic :=
  C12.lenenc_skip_no_panic data

/-! ## protected values, containers, column scans (proved in `Props/C03.lean`) -/

/-- `ExtractAcraBlockFromData` never panics (length fields taken from the data are bounded). -/
theorem extractBlock_no_panic : ∀ d : Bytes, extractBlock d ≠ .panic := C03.extractBlock_no_panic
/-- `ValidateAcraStructLength` never panics. -/
theorem validateStruct_no_panic : ∀ d : Bytes, validateStruct d ≠ .panic := C03.validateStruct_no_panic
/-- `ExtractAcraStruct` never panics. -/
theorem extractStruct_no_panic : ∀ d : Bytes, extractStruct d ≠ .panic := C03.extractStruct_no_panic
/-- `DecryptRotatedAcrastruct` never panics, for every key list, context, input and crypto back end. -/
theorem decryptStructRotated_no_panic :
    ∀ (c : CryptoOps) (ctx d : Bytes) (keys : List Bytes), decryptStructRotated c ctx d keys ≠ .panic :=
  C03.decryptStructRotated_no_panic
/-- `DeserializeEncryptedData` never panics and never allocates more than the input holds. -/
theorem deserialize_no_panic : ∀ d : Bytes, deserialize d ≠ .panic := C03.deserialize_no_panic
theorem deserialize_alloc_bounded (d i : Bytes) (id : UInt8) : deserialize d = .ok (i, id) → i.length ≤ d.length :=
  C03.deserialize_output_bound d i id
/-- `ExtractSerializedContainer` never panics and, when it succeeds, tells the caller to advance by
at least one byte and at most the bytes that are there – the column scan cannot loop or run out of range. -/
theorem extractContainer_no_panic : ∀ d : Bytes, extractContainer d ≠ .panic := C03.extractContainer_no_panic
theorem extractContainer_progress (d : Bytes) (n : Int) (cont : Bytes) (hd : d.length < 2^63) :
    extractContainer d = .ok (n, cont) → 0 < n ∧ n ≤ d.length := C03.extractContainer_bounds d n cont hd
/-- reveal / protect (registry handler) never panic. -/
theorem reveal_no_panic : ∀ (c : CryptoOps) (kv : KeyView) (d : Bytes), reveal c kv d ≠ .panic := C03.reveal_no_panic
theorem protect_no_panic :
    ∀ (c : CryptoOps) (kv : KeyView) (k : Kind) (d rnd : Bytes), protect c kv k d rnd ≠ .panic := C03.protect_no_panic
/-- `EnvelopeDetector.OnColumn` (any callback list) and the compatibility wrapper never panic; their
termination is the well-founded recursion of `scan` / `processStructs` / `processBlocks`. -/
theorem onColumn_no_panic : ∀ (cbs : List Callback) (d : Bytes), d.length < 2^63 → onColumn cbs d ≠ .panic :=
  C03.onColumn_no_panic
theorem onColumnCompat_no_panic :
    ∀ (cbs : List Callback) (d : Bytes), d.length < 2^63 → onColumnCompat cbs d ≠ .panic := C03.onColumnCompat_no_panic
/-- The scan's output is bounded by the input length times the largest replacement. -/
theorem onColumn_output_bounded (cbs : List Callback) (B : Nat)
    (hc : ∀ cb ∈ cbs, ∀ x b, cb x = .replaced b → b.length ≤ B) (rest out : Bytes) (hit : Bool) :
    scan cbs rest = .ok out hit → out.length ≤ rest.length * max 1 B := C03.scan_output_bound cbs B hc rest out hit

/-! ## token generators (proved in `Props/C10.lean`) -/

/-- Token generation never panics, for every token type, length and random stream (the e-mail
generator used to slice with a negative bound for values shorter than a TLD). -/
theorem token_generator_no_panic (ty : Token.TokenType) (n : Nat) (d : Token.Draws) : Token.genToken ty n d ≠ .panic :=
  C10.generator_never_panics ty n d

/-! ## records read back from the token store (proved in `Props/C10.lean`) -/

/-- `decodeInt32` / `decodeInt64` / `bytesToGolangValue` on ANY stored payload, and the `t.`-record path of
`Deanonymize` on any record: value or error, never a panic (a short stored integer used to crash
`binary.LittleEndian.Uint32/64`). -/
theorem decode_record_no_panic (ty : Token.TokenType) (data : Bytes) :
    Token.decodeAs ty data ≠ .panic ∧ Token.decTV ty data ≠ .panic := C10.decode_record_no_panic ty data

/-! ## MySQL version comments (`sqlparser.ExtractMysqlComment`, called by the tokenizer on client SQL) -/

/-- `sqlparser/comments.go`: `ExtractMysqlComment` cuts 3 + 2 bytes (`/*!`, `*/` – what the tokenizer
guarantees to be there) and handles "nothing follows the version digits" before slicing. (How many version
digits it takes is not needed for the claim; the model reads that bound from the source.) -/
theorem fact_mysql_comment :
    Generated.SqlComment.cutFront = 3 ∧ Generated.SqlComment.cutBack = 2 ∧
    Generated.SqlComment.noTextGuard = true := by decide

/-- **No complete version comment makes `ExtractMysqlComment` panic** (ASCII model): the tokenizer
calls it with `/*!` … `*/`, i.e. at least 5 bytes; `/*!123*/`, `/*!*/`, `/*!12345*/` used to slice `sql[0:-1]`. -/
theorem extract_mysql_comment_no_panic (c : Bytes) (h : 5 ≤ c.length) : Sql.MysqlComment.extract c ≠ .panic := by
  have hg : Generated.SqlComment.noTextGuard = true := by decide
  unfold Sql.MysqlComment.extract
  rw [hg]
  exact Sql.MysqlComment.extractWith_guard_no_panic c (by
    have : Generated.SqlComment.cutFront + Generated.SqlComment.cutBack = 5 := by decide
    omega)

/-- The pinned tree (no guard): `/*!123*/` panics. -/
theorem legacy_mysql_comment_counterexample :
    Sql.MysqlComment.extractWith false [47, 42, 33, 49, 50, 51, 42, 47] = .panic ∧
    Sql.MysqlComment.extractWith true [47, 42, 33, 49, 50, 51, 42, 47] = .ok ([49, 50, 51], []) := by decide

/-! ## wire readers and rewriters (proved in `Props/C12.lean`; statements are taken over verbatim) -/

/-- PostgreSQL packet readers (general, database-side, start-up) never panic on any byte string. -/
theorem pg_read_no_panic : type_of% @C12.pg_read_no_panic := @C12.pg_read_no_panic
/-- PostgreSQL DataRow parsing and rewriting never panics. -/
theorem pg_row_no_panic : type_of% @C12.pg_row_no_panic := @C12.pg_row_no_panic
/-- PostgreSQL Parse and Bind packet readers/rewriters never panic. -/
theorem pg_parse_bind_no_panic : type_of% @C12.pg_parse_bind_no_panic := @C12.pg_parse_bind_no_panic
/-- MySQL packet reader never panics. -/
theorem mysql_read_no_panic : type_of% @C12.mysql_read_no_panic := @C12.mysql_read_no_panic
/-- MySQL text and binary row processors never panic (truncated rows are rejected). -/
theorem mysql_row_no_panic : type_of% @C12.mysql_row_no_panic := @C12.mysql_row_no_panic
/-- MySQL column-definition parser never panics. -/
theorem mysql_coldef_no_panic : type_of% @C12.coldef_no_panic := @C12.coldef_no_panic
/-- MySQL COM_STMT_EXECUTE parameter reader/rewriter never panics. -/
theorem mysql_execute_no_panic : type_of% @C12.mysql_execute_no_panic := @C12.mysql_execute_no_panic


/-! ## the SQL tokenizer (`sqlparser/token.go`; model `Sql/Tokenizer.lean`, `Sql/TokenizerLoop.lean`)

The state of a tokenizer is the list of its live `Tokenizer` values (`[f]`, or `f` with the nested tokenizer of a
`/*! … */` comment behind it); `mu` counts the bytes they can still consume (+1 each). -/
section Tokenizer
open AcraModel.Sql.Tokenizer AcraModel.Generated.SqlToken

/-! ### facts about the regenerated tables -/

/-- `eofChar` is no byte value and belongs to no character class; the tables cover exactly `0 … eofChar` – what lets
the model represent `lastChar == eofChar` as the empty suffix. -/
theorem fact_tok_eof :
    eofChar = 256 ∧ digitVals.length = 257 ∧ (∀ n ∈ letterChars ++ digitChars ++ blankChars ++ simpleTokens, n < 256) := by
  decide +kernel

/-- `digitVal(eofChar)` is 16 (no digit in any base), every `isDigit` character has a decimal value, and
`ExtractMysqlComment` slices at `[3 : len-2]` and handles the comment that holds nothing but version digits. -/
theorem fact_tok_tables : TableFacts := tableFacts

/-- `isLetter` is exactly `A–Z a–z _ @`, `isDigit` exactly `0–9`, blanks are TAB LF CR SPACE -/
theorem fact_tok_classes :
    letterChars = 64 :: (List.range 26).map (· + 65) ++ 95 :: (List.range 26).map (· + 97) ∧
    digitChars = (List.range 10).map (· + 48) ∧ blankChars = [9, 10, 13, 32] := by decide

/-- identifier characters (letters, digits, `.` and every quote character) are ASCII: `bytes.ToLower` on an
identifier is the ASCII map the model uses. -/
theorem fact_tok_ident_ascii :
    ∀ n ∈ letterChars ++ digitChars ++ [46] ++ mysqlIdentQuotes ++ mysqlStrQuotes ++ ansiIdentQuotes ++ ansiStrQuotes ++
      pgIdentQuotes ++ pgStrQuotes, n < 128 := by decide

/-- the quote handlers: MySQL `` ` `` identifiers and `'` `"` strings; ANSI mode `` ` `` `"` identifiers and `'` strings;
PostgreSQL `"` identifiers and `'` strings. `byte(eofChar) = 0` is no quote (the end of input never looks like one),
and every string quote has a `stringTokenType` entry. -/
theorem fact_tok_quotes :
    (mysqlIdentQuotes, mysqlStrQuotes, mysqlIdentQuote) = ([96], [34, 39], 96) ∧
    (ansiIdentQuotes, ansiStrQuotes, ansiIdentQuote) = ([34, 96], [39], 34) ∧
    (pgIdentQuotes, pgStrQuotes, pgIdentQuote) = ([34], [39], 34) ∧
    stringTokenType = [(39, "SINGLE_QUOTE_STRING"), (34, "DOUBLE_QUOTE_STRING"), (96, "BACK_QUOTE_STRING")] ∧
    mysqlQuoteHandlerShape = "if dialect.ansiMode { return NewANSIQuoteHandler() }; return NewDefaultQuoteHandler()" ∧
    pgQuoteHandlerShape = "return NewQuoteHandler()" := by decide

/-- every token name the scanners spell out and every `stringTokenType` value is a constant of `sql.go` (for the values
of the keyword map the extractor checks the same while reading the map, and the driver prints `?` for an unknown
name); the ids are strictly increasing in source order (hence pairwise different) and above 255, so a named token
is never 0 (end of input) nor a character token. -/
theorem fact_tok_token_ids :
    (∀ n ∈ modelTokenNames ++ stringTokenType.map (·.2), (tokenIds.lookup n).isSome = true) ∧
    strictlyIncreasing (tokenIds.map (·.2)) = true ∧ (∀ p ∈ tokenIds, 255 < p.2) := by
  refine ⟨by decide +kernel, by decide +kernel, by decide +kernel⟩

/-- the shape of `Scan` the model follows: the order of the outer cases, the case lists of the inner `switch ch`, the
three letter-prefixed literals, the bases handed to `scanMantissa`, the comment prefixes, `isCarat`, `consumeNext`'s
panic, and how `scanMySQLSpecificComment` builds the nested tokenizer (default dialect) and makes `Scan` start over:
`Scan` is a LOOP around one round (`scanToken`) and the start-over marker `rescan` is no token type – the stack a
`Scan` needs does not grow with the number of `/*! … */` comments (it used to: one recursive call per comment). -/
theorem fact_tok_scan_shape :
    scanOuterCases = ["isLetter(ch)", "isDigit(ch)", "ch == ':'", "ch == ';' && tkn.multi", "default"] ∧
    scanCaseChars = [[256], [61, 44, 59, 40, 41, 43, 42, 37, 94, 126], [38], [124], [63], [46], [47], [35], [45], [60], [62], [33], [36], []] ∧
    simpleTokens = [61, 44, 59, 40, 41, 43, 42, 37, 94, 126] ∧
    letterPrefixes = [([88, 120], 39, "tkn.scanHex()"), ([66, 98], 39, "tkn.scanBitLiteral()"), ([69, 101], 39, "tkn.scanString('\\'', PG_ESCAPE_STRING)")] ∧
    mantissaBases = [("scanHex", [16]), ("scanBitLiteral", [2]), ("scanNumber", [10, 16, 10, 10, 10])] ∧
    lineCommentPrefixes = ["//", "#", "--"] ∧
    blockCommentPrefixes = [("scanCommentType2", "/*"), ("scanMySQLSpecificComment", "/*!")] ∧
    caratShape = "ch == '.' || quoteHandler.IsIdentifierQuote(byte(ch)) || quoteHandler.IsStringLiteralQuote(byte(ch))" ∧
    consumeNextPanicsAtEof = true ∧
    specialCommentTail = "_, sql := ExtractMysqlComment(buffer.String()); tkn.specialComment = NewStringTokenizer(sql); return rescan, nil" ∧
    scanLoopShape = "for { if typ, val := tkn.scanToken(); typ != rescan { return typ, val } }" ∧ rescanIsNegative = true := by
  decide

/-- `ExtractMysqlComment`: `sql[3 : len(sql)-2]`, version = at most 5 digits (the 6th rune ends it), and the comment that
holds only version digits is handled (it used to slice with -1). -/
theorem fact_tok_version_comment :
    versionCommentLo = 3 ∧ versionCommentHi = 2 ∧ versionDigitLimit = 6 ∧ versionOnlyHandled = true := by decide

/-- Latin-1 part of `unicode.IsSpace` / `unicode.IsDigit` as `ExtractMysqlComment` sees it -/
theorem fact_tok_unicode : latin1Spaces = [9, 10, 11, 12, 13, 32, 133, 160] ∧ latin1Digits = (List.range 10).map (· + 48) := by decide

/-! ### no panic -/

/-- **One `Scan` never panics**, in any state of the tokenizer (any buffer, position, dialect, flags, nested
tokenizers): `consumeNext`'s `panic("unexpected EOF")` and the three slice expressions of `ExtractMysqlComment` are
unreachable. -/
theorem tokenizer_scan_no_panic (dd : Dialect) (l : List Frame) : ∃ t l', scan dd l = .ok (t, l') := by
  obtain ⟨t, l', h, _⟩ := scan_total dd l
  exact ⟨t, l', h⟩

/-- **`Lex` (the loop the generated parser calls; skips comments) never panics.** -/
theorem tokenizer_lex_no_panic (dd : Dialect) (ac : Bool) (l : List Frame) : ∃ t l', lex dd ac l = .ok (t, l') := by
  obtain ⟨t, l', h, _⟩ := lex_total dd ac l
  exact ⟨t, l', h⟩

/-- **Tokenising any byte string in any dialect never panics**: the whole loop `for { tok := Scan(); if tok == 0 { break } }`
returns a token stream. -/
theorem tokenizer_no_panic (d dd : Dialect) (input : Bytes) : ∃ ts, tokenize d dd input = .ok ts := by
  obtain ⟨ts, h, _⟩ := tokenizeFrom_spec dd input.length (initial d input) (inv_initial d input false) (by simp [initial])
  exact ⟨ts, h⟩

/-! ### progress and termination -/

/-- **Every `Scan` that returns anything but 0 has consumed at least one byte** (of the tokenizer or of its nested
comment tokenizer): the bytes left strictly decrease. This is what makes `lex` and `tokenize` total functions – their
definitions carry no fuel – and what rules out an endless `Lex` loop in the parser. -/
theorem tokenizer_progress (dd : Dialect) (l l' : List Frame) (t : Token)
    (h : scan dd l = .ok (t, l')) (hne : t.typ ≠ .eof) : mu l' < mu l := scan_progress h hne

/-- … and a `Scan` never gives bytes back. -/
theorem tokenizer_monotone (dd : Dialect) (l l' : List Frame) (t : Token) (h : scan dd l = .ok (t, l')) : mu l' ≤ mu l := by
  obtain ⟨t1, l1, e, g, _⟩ := scan_total dd l
  rw [h] at e; injection e with e; injection e with ea eb; subst ea; subst eb; exact g

/-- the same for `Lex`: each call that does not report the end consumes input. -/
theorem tokenizer_lex_progress (dd : Dialect) (ac : Bool) (l l' : List Frame) (t : Token)
    (h : lex dd ac l = .ok (t, l')) (hne : t.typ ≠ .eof) : mu l' < mu l := by
  obtain ⟨t1, l1, e, _, g⟩ := lex_total dd ac l
  rw [h] at e; injection e with e; injection e with ea eb; subst ea; subst eb; exact g hne

/-- **The parser's token loop ends**: `for { tok := Lex(); if tok == 0 { break } }` – with comments skipped or kept, and
whenever the grammar sets `ForceEOF` (after `k` tokens, or never) – returns a finite stream without panic from every
state. (`lexFrom` is defined by recursion on the bytes left; there is no step limit in it.) -/
theorem tokenizer_parser_loop_total (dd : Dialect) (ac : Bool) (force : Option Nat) (l : List Frame) :
    ∃ ts, lexFrom dd ac force l = .ok ts := lexFrom_total dd ac force l

/-- **At most `|input| + 1` tokens** (the final 0 included), for every input and dialect. -/
theorem tokenizer_token_count (d dd : Dialect) (input : Bytes) (ts : List (Token × Nat))
    (h : tokenize d dd input = .ok ts) : ts.length ≤ input.length + 1 := by
  obtain ⟨ts', e, g, _⟩ := tokenizeFrom_spec dd input.length (initial d input) (inv_initial d input false) (by simp [initial])
  unfold tokenize at h
  rw [h] at e; injection e with e; subst e
  rw [mu_initial] at g; exact g

/-! ### bounded allocation -/

/-- **The payloads of all tokens together are no longer than the input + 1**, apart from the `?` placeholders: a `?`
is returned as `:v<n>` (`n` = its ordinal), 1 + (digits of `n`) bytes more than it consumed, and `n ≤ |input|`.
(`extraSum B ts` = (1 + decimal digits of `B`) for every `VALUE_ARG` token of `ts`.) Comment text, string values,
identifiers, numbers are each no longer than the bytes consumed for them; the inner text of a `/*! … */` comment is at
least 5 bytes shorter than the comment. -/
theorem tokenizer_alloc_bounded (d dd : Dialect) (input : Bytes) (ts : List (Token × Nat))
    (h : tokenize d dd input = .ok ts) : payloadSum ts ≤ input.length + 1 + extraSum input.length ts := by
  obtain ⟨ts', e, _, g⟩ := tokenizeFrom_spec dd input.length (initial d input) (inv_initial d input false) (by simp [initial])
  unfold tokenize at h
  rw [h] at e; injection e with e; subst e
  rw [mu_initial] at g; exact g

/-- closed form: at most `(|input| + 1) · (2 + digits(|input|))` payload bytes – linear in the input up to the
logarithmic placeholder numbering. -/
theorem tokenizer_alloc_bounded_closed (d dd : Dialect) (input : Bytes) (ts : List (Token × Nat))
    (h : tokenize d dd input = .ok ts) :
    payloadSum ts ≤ (input.length + 1) * (2 + (decimal input.length).length) := by
  have h1 := tokenizer_alloc_bounded d dd input ts h
  have h2 := tokenizer_token_count d dd input ts h
  have h3 : ∀ l : List (Token × Nat), extraSum input.length l ≤ l.length * (1 + (decimal input.length).length) := by
    intro l
    induction l with
    | nil => simp [extraSum]
    | cons a r ih =>
      have hq : qExtra input.length a.1 ≤ 1 + (decimal input.length).length := by unfold qExtra; split <;> omega
      simp only [extraSum, List.map_cons, List.sum_cons, List.length_cons, Nat.succ_mul] at ih ⊢
      omega
  have h4 := h3 ts
  have h5 : ts.length * (1 + (decimal input.length).length) ≤ (input.length + 1) * (1 + (decimal input.length).length) :=
    Nat.mul_le_mul_right _ h2
  have h6 : (input.length + 1) * (2 + (decimal input.length).length) =
      (input.length + 1) + (input.length + 1) * (1 + (decimal input.length).length) := by
    rw [show 2 + (decimal input.length).length = 1 + (1 + (decimal input.length).length) by omega, Nat.mul_add, Nat.mul_one]
  omega

/-! ### link to the literal codec of C13 -/

/-- **String tokens round-trip.** The text the printer writes for a string value `b` (C13: `encodeBytesSQL b`, i.e.
`'…'` with backslash escapes) is read by `Scan`, in all three dialect variants and whatever follows (anything but
another quote), as ONE token `SINGLE_QUOTE_STRING` whose payload is exactly `b`, and `Scan` stops exactly behind the
literal. Together with C13's `literal_roundtrip` this ties the tokenizer model to the printer model. -/
theorem string_token_roundtrip (d : Dialect) (hd : d = .mysql ∨ d = .ansi ∨ d = .postgresql) (multi : Bool) (pv : Nat)
    (b rest : Bytes) (h : rest.head? ≠ some Sql.Literal.quote) :
    scanSuffix d multi pv (Sql.Literal.encodeBytesSQL b ++ rest) =
      .ok (.tok ⟨.named "SINGLE_QUOTE_STRING", b⟩ rest pv) := by
  have hlit := scanStr_of_literal _ _ _ _ _ (C13.literal_roundtrip b rest h)
  have hshape : Sql.Literal.encodeBytesSQL b ++ rest = 39 :: ((Sql.Literal.encodeBytesSQL b).tail ++ rest) := by
    simp [Sql.Literal.encodeBytesSQL, Sql.Literal.quote]
  rw [hshape]
  generalize (Sql.Literal.encodeBytesSQL b).tail ++ rest = t at hlit
  have hq : Sql.Literal.quote = 39 := rfl
  rw [hq] at hlit
  have hsb : skipBlank (39 :: t) = 39 :: t := by
    have : isBlank 39 = false := by decide
    simp [skipBlank, this]
  have hop : scanOperator 39 t = none := by simp [scanOperator]
  have hiq : isIdentQuote d 39 = false := by rcases hd with rfl | rfl | rfl <;> decide
  have hsq : isStrQuote d 39 = true := by rcases hd with rfl | rfl | rfl <;> decide
  have e1 : isLetter 39 = false := by decide
  have e2 : isDigit 39 = false := by decide
  have e3 : 39 ∉ simpleTokens := by decide
  have e4 : stringTokenTypeOf 39 = .named "SINGLE_QUOTE_STRING" := by decide
  unfold scanSuffix
  rw [hsb]
  simp [scanDispatch, e1, e2, e3, hop, hiq, hsq, scanString, hlit, e4, liftTok]

/-! ### non-vacuity: concrete token streams computed by the definitions the theorems are about -/

/-- `'a\'b''c' x` → one string token `a'b'c` (escape and doubled quote), in PostgreSQL -/
example : scanSuffix .postgresql false 0 (strBytes "'a\\'b''c' x") =
    .ok (.tok ⟨.named "SINGLE_QUOTE_STRING", strBytes "a'b'c"⟩ (strBytes " x") 0) := by decide +kernel

/-- `? ` → the first placeholder `:v1`; `1e+` followed by a letter → `LEX_ERROR`; `$` alone → `DOLLAR_SIGN` -/
example : scanSuffix .mysql false 0 (strBytes "? ") = .ok (.tok ⟨.named "VALUE_ARG", strBytes ":v1"⟩ (strBytes " ") 1) ∧
    scanSuffix .mysql false 0 (strBytes "1e+x") = .ok (.tok ⟨.named "LEX_ERROR", strBytes "1e+"⟩ (strBytes "x") 0) ∧
    scanSuffix .postgresql false 0 (strBytes "$") = .ok (.tok ⟨.named "DOLLAR_SIGN", strBytes "$"⟩ [] 0) := by decide +kernel

/-- `/*!50000 select*/ x` hands the nested tokenizer the text `select`; `/*!*/` (the former panic) an empty text -/
example : scanSuffix .mysql false 0 (strBytes "/*!50000 select*/ x") = .ok (.special (strBytes "select") (strBytes " x")) ∧
    scanSuffix .mysql false 0 (strBytes "/*!*/") = .ok (.special [] []) := by decide +kernel

/-- an unterminated string, comment and quoted identifier are `LEX_ERROR` tokens that consume the rest – never a panic -/
example : scanSuffix .mysql false 0 (strBytes "'ab") = .ok (.tok ⟨.named "LEX_ERROR", strBytes "ab"⟩ [] 0) ∧
    scanSuffix .mysql false 0 (strBytes "/* ab") = .ok (.tok ⟨.named "LEX_ERROR", strBytes "/* ab"⟩ [] 0) ∧
    scanSuffix .mysql false 0 (strBytes "`ab") = .ok (.tok ⟨.named "LEX_ERROR", strBytes "ab"⟩ [] 0) := by decide +kernel

/-- the theorems applied to a concrete statement: 41 bytes give at most 42 tokens -/
example : ∃ ts, tokenize .mysql .mysql (strBytes "select `a`, 1.5e3 from t where b = ? -- c") = .ok ts ∧ ts.length ≤ 42 := by
  obtain ⟨ts, h⟩ := tokenizer_no_panic .mysql .mysql (strBytes "select `a`, 1.5e3 from t where b = ? -- c")
  exact ⟨ts, h, tokenizer_token_count _ _ _ ts h⟩

end Tokenizer

/-! ## acra-censor pattern matcher: comparators with pointer operands never look through a nil pointer

`AcraCensor.HandleQuery` runs the pattern matcher of `acra-censor/common/matching_logic.go` on every client statement
when an allow / deny handler has patterns. The matcher model of C05 is total by construction (a field of a nil tree is
"no match"); here the nil cases are explicit: `Censor/NilGuard.lean`, tables regenerated by factgen `censornil.go`. -/
section CensorNil
open AcraModel.Censor.NilGuard Generated

/-- the comparators that receive pointer fields the grammar can leave nil (`Where`, `Having`, `Limit`, index hints,
length and scale of a CAST / CONVERT type) – read from the call sites of `matching_logic.go` and the grammar table of
`sql.y` – and the pointer fields that are never nil in a parsed statement -/
theorem fact_optional_call_sites :
    optionalCalls.map (fun c => (c.2.1, c.2.2.1, c.2.2.2)) =
      [("areEqualLimit", "Union", "Limit"), ("areEqualWhere", "Select", "Where"), ("areEqualWhere", "Select", "Having"),
       ("areEqualLimit", "Select", "Limit"), ("areEqualWhere", "Update", "Where"), ("areEqualLimit", "Update", "Limit"),
       ("areEqualWhere", "Delete", "Where"), ("areEqualLimit", "Delete", "Limit"),
       ("areEqualIndexHints", "AliasedTableExpr", "Hints"), ("areEqualOptionalSQLVal", "ConvertType", "Length"),
       ("areEqualOptionalSQLVal", "ConvertType", "Scale")] ∧
    (CensorNil.ptrFieldCalls.filter (fun c => !optionalCalls.contains c)).map (fun c => (c.2.2.1, c.2.2.2)) =
      [("UpdateExpr", "Name"), ("SubstrExpr", "Name"), ("ConvertExpr", "Type"), ("ValuesFuncExpr", "Name"),
       ("ExistsExpr", "Subquery"), ("UpdateExpr", "Name")] := by decide +kernel

/-- every pointer field a comparator call site reads is a pointer field of `ast.go`, and its struct type was evident
to the extractor (no `?`) -/
theorem fact_call_sites_typed :
    CensorNil.ptrFieldCalls.all (fun c => CensorNil.ptrFields.any (fun f => f.1 == c.2.2.1 && f.2.1 == c.2.2.2)) = true := by
  decide +kernel

/-- **Every comparator that can receive a nil pointer guards all three nil combinations** (regenerated table): it
returns `true` when both operands are nil and `false` when exactly one is – before any dereference.
(`areEqualOptionalSQLVal` reduced to `if pattern == nil { return query == nil }` leaves "query nil, pattern set"
unguarded: pattern `CAST(x AS CHAR(10))` against `CAST(x AS CHAR)` then panics in `HandleQuery`.) -/
theorem fact_optional_comparators_guard_nil : optionalCallsGuarded = true := by decide +kernel

/-- **The pattern matcher never dereferences a nil optional operand.** For every call site of `matching_logic.go`
that hands a comparator a pointer field the grammar can leave nil, and for all four combinations of nil / non-nil
operands, the comparator does not panic – and it treats nil like Go's `==` on the pointers: two nil operands are
equal, a nil and a non-nil one are not, two non-nil ones are compared by the body. -/
theorem censor_optional_operands_never_panic {c : String × String × String × String} (hc : c ∈ optionalCalls)
    {α : Type} (body : α → α → Bool) (q p : Option α) :
    ptrCompare (guardsOf c.2.1) body q p ≠ .panic ∧
      ptrCompare (guardsOf c.2.1) body q p = .ok (match q, p with
        | some a, some b => body a b
        | none, none => true
        | _, _ => false) := by
  have h := fact_optional_comparators_guard_nil
  simp only [optionalCallsGuarded, List.all_eq_true] at h
  exact ptrCompare_total (h c hc) body q p

/-- **The check is not vacuous**: with the guard of the "query nil, pattern set" combination gone (the body reaches
`areEqualSQLVal(query, pattern)` with a nil query) the comparator panics on exactly that combination and on no other. -/
theorem seeded_guard_counterexample :
    let g : Guards := ⟨.retTrue, .deref, .retFalse⟩
    g.total = false ∧
    ptrCompare g (fun (_ _ : Nat) => true) none (some 10) = .panic ∧
    ptrCompare g (fun (_ _ : Nat) => true) none none = .ok true ∧
    ptrCompare g (fun (_ _ : Nat) => true) (some 10) none = .ok false ∧
    ptrCompare g (fun (_ _ : Nat) => true) (some 10) (some 10) = .ok true := by decide

/-- non-vacuity: the length of a CAST type is such a call site, and `CHAR` against `CHAR(10)` is "no match" -/
example : ("areEqualConvertType", "areEqualOptionalSQLVal", "ConvertType", "Length") ∈ optionalCalls ∧
    ptrCompare (guardsOf "areEqualOptionalSQLVal") (fun (a b : Nat) => a == b) none (some 10) = .ok false := by
  decide +kernel

end CensorNil

end AcraModel.Props.C14
