import AcraModel.Props.C12
import AcraModel.Props.C03
import AcraModel.Props.C10
import AcraModel.Sql.MysqlComment
/-!
# C14 — no input can crash a handler or make it consume unbounded resources

This file COLLECTS the no-panic / termination / progress theorems of the modelled decoders (they are
proved in the property files of the subsystems and restated here so that C14's obligations are
explicit). Termination of every modelled loop is a definitional obligation: the models are total
Lean functions by structural or well-founded recursion whose measure decreases on every path
(`scan`, `processStructs`, `processBlocks` in `Envelope/Detector.lean`; the readers in `Wire/`).
Decoders without a model (SQL grammars, pg_query, YAML, ASN.1) are explored by the harness only –
that part of C14 is exploration, not proof, and the evidence says so.
-/
namespace AcraModel.Props.C14
open AcraModel AcraModel.Wire.LenEnc AcraModel.Envelope

/-- MySQL length-encoded integer reader never panics. -/
theorem lenenc_int_no_panic (data : Bytes) : lengthEncodedInt data ≠ .panic :=
  C12.lenenc_int_no_panic data

/-- MySQL length-encoded string reader never panics. -/
theorem lenenc_str_no_panic (data : Bytes) : lengthEncodedString data ≠ .panic :=
  C12.lenenc_str_no_panic data

/-- … and a successful read makes progress inside the buffer (callers' row loops terminate). -/
theorem lenenc_str_progress (data : Bytes) (v : Option Bytes) (n : Nat)
    (h : lengthEncodedString data = .ok (v, n)) : 0 < n ∧ n ≤ data.length :=
  C12.lenenc_str_progress data v n h

theorem lenenc_skip_no_panic (data : Bytes) : skipLengthEncodedString data ≠ .panic :=
  C12.lenenc_skip_no_panic data

/-! ## protected values, containers, column scans (proved in `Props/C03.lean`) -/

/-- `ExtractAcraBlockFromData` never panics (length fields taken from the data are bounded). -/
theorem extractBlock_no_panic : ∀ d : Bytes, extractBlock d ≠ .panic := C03.extractBlock_no_panic
/-- `ValidateAcraStructLength` never panics. -/
theorem validateStruct_no_panic : ∀ d : Bytes, validateStruct d ≠ .panic := C03.validateStruct_no_panic
/-- `ExtractAcraStruct` never panics. -/
theorem extractStruct_no_panic : ∀ d : Bytes, extractStruct d ≠ .panic := C03.extractStruct_no_panic
/-- `DecryptRotatedAcrastruct` never panics, for every key list, context, input and crypto back end. -/
theorem decryptStructRotated_no_panic :
    ∀ (c : CryptoOps) (ctx d : Bytes) (keys : List Bytes), decryptStructRotated c ctx d keys ≠ .panic :=
  C03.decryptStructRotated_no_panic
/-- `DeserializeEncryptedData` never panics and never allocates more than the input holds. -/
theorem deserialize_no_panic : ∀ d : Bytes, deserialize d ≠ .panic := C03.deserialize_no_panic
theorem deserialize_alloc_bounded (d i : Bytes) (id : UInt8) : deserialize d = .ok (i, id) → i.length ≤ d.length :=
  C03.deserialize_output_bound d i id
/-- `ExtractSerializedContainer` never panics and, when it succeeds, tells the caller to advance by
at least one byte and at most the bytes that are there – the column scan cannot loop or run out of range. -/
theorem extractContainer_no_panic : ∀ d : Bytes, extractContainer d ≠ .panic := C03.extractContainer_no_panic
theorem extractContainer_progress (d : Bytes) (n : Int) (cont : Bytes) (hd : d.length < 2^63) :
    extractContainer d = .ok (n, cont) → 0 < n ∧ n ≤ d.length := C03.extractContainer_bounds d n cont hd
/-- reveal / protect (registry handler) never panic. -/
theorem reveal_no_panic : ∀ (c : CryptoOps) (kv : KeyView) (d : Bytes), reveal c kv d ≠ .panic := C03.reveal_no_panic
theorem protect_no_panic :
    ∀ (c : CryptoOps) (kv : KeyView) (k : Kind) (d rnd : Bytes), protect c kv k d rnd ≠ .panic := C03.protect_no_panic
/-- `EnvelopeDetector.OnColumn` (any callback list) and the compatibility wrapper never panic; their
termination is the well-founded recursion of `scan` / `processStructs` / `processBlocks`. -/
theorem onColumn_no_panic : ∀ (cbs : List Callback) (d : Bytes), d.length < 2^63 → onColumn cbs d ≠ .panic :=
  C03.onColumn_no_panic
theorem onColumnCompat_no_panic :
    ∀ (cbs : List Callback) (d : Bytes), d.length < 2^63 → onColumnCompat cbs d ≠ .panic := C03.onColumnCompat_no_panic
/-- The scan's output is bounded by the input length times the largest replacement. -/
theorem onColumn_output_bounded (cbs : List Callback) (B : Nat)
    (hc : ∀ cb ∈ cbs, ∀ x b, cb x = .replaced b → b.length ≤ B) (rest out : Bytes) (hit : Bool) :
    scan cbs rest = .ok out hit → out.length ≤ rest.length * max 1 B := C03.scan_output_bound cbs B hc rest out hit

/-! ## token generators (proved in `Props/C10.lean`) -/

/-- Token generation never panics, for every token type, length and random stream (the e-mail
generator used to slice with a negative bound for values shorter than a TLD). -/
theorem token_generator_no_panic (ty : Token.TokenType) (n : Nat) (d : Token.Draws) : Token.genToken ty n d ≠ .panic :=
  C10.generator_never_panics ty n d

/-! ## records read back from the token store (proved in `Props/C10.lean`) -/

/-- `decodeInt32` / `decodeInt64` / `bytesToGolangValue` on ANY stored payload, and the `t.`-record path of
`Deanonymize` on any record: value or error, never a panic (a short stored integer used to crash
`binary.LittleEndian.Uint32/64`). -/
theorem decode_record_no_panic (ty : Token.TokenType) (data : Bytes) :
    Token.decodeAs ty data ≠ .panic ∧ Token.decTV ty data ≠ .panic := C10.decode_record_no_panic ty data

/-! ## MySQL version comments (`sqlparser.ExtractMysqlComment`, called by the tokenizer on client SQL) -/

/-- `sqlparser/comments.go`: `ExtractMysqlComment` cuts 3 + 2 bytes (`/*!`, `*/` – what the tokenizer
guarantees to be there) and handles "nothing follows the version digits" before slicing. (How many version
digits it takes is not needed for the claim; the model reads that bound from the source.) -/
theorem fact_mysql_comment :
    Generated.SqlComment.cutFront = 3 ∧ Generated.SqlComment.cutBack = 2 ∧
    Generated.SqlComment.noTextGuard = true := by decide

/-- **No complete version comment makes `ExtractMysqlComment` panic** (ASCII model): the tokenizer
calls it with `/*!` … `*/`, i.e. at least 5 bytes; `/*!123*/`, `/*!*/`, `/*!12345*/` used to slice `sql[0:-1]`. -/
theorem extract_mysql_comment_no_panic (c : Bytes) (h : 5 ≤ c.length) : Sql.MysqlComment.extract c ≠ .panic := by
  have hg : Generated.SqlComment.noTextGuard = true := by decide
  unfold Sql.MysqlComment.extract
  rw [hg]
  exact Sql.MysqlComment.extractWith_guard_no_panic c (by
    have : Generated.SqlComment.cutFront + Generated.SqlComment.cutBack = 5 := by decide
    omega)

/-- The pinned tree (no guard): `/*!123*/` panics. -/
theorem legacy_mysql_comment_counterexample :
    Sql.MysqlComment.extractWith false [47, 42, 33, 49, 50, 51, 42, 47] = .panic ∧
    Sql.MysqlComment.extractWith true [47, 42, 33, 49, 50, 51, 42, 47] = .ok ([49, 50, 51], []) := by decide

/-! ## wire readers and rewriters (proved in `Props/C12.lean`; statements are taken over verbatim) -/

/-- PostgreSQL packet readers (general, database-side, start-up) never panic on any byte string. -/
theorem pg_read_no_panic : type_of% @C12.pg_read_no_panic := @C12.pg_read_no_panic
/-- PostgreSQL DataRow parsing and rewriting never panics. -/
theorem pg_row_no_panic : type_of% @C12.pg_row_no_panic := @C12.pg_row_no_panic
/-- PostgreSQL Parse and Bind packet readers/rewriters never panic. -/
theorem pg_parse_bind_no_panic : type_of% @C12.pg_parse_bind_no_panic := @C12.pg_parse_bind_no_panic
/-- MySQL packet reader never panics. -/
theorem mysql_read_no_panic : type_of% @C12.mysql_read_no_panic := @C12.mysql_read_no_panic
/-- MySQL text and binary row processors never panic (truncated rows are rejected). -/
theorem mysql_row_no_panic : type_of% @C12.mysql_row_no_panic := @C12.mysql_row_no_panic
/-- MySQL column-definition parser never panics. -/
theorem mysql_coldef_no_panic : type_of% @C12.coldef_no_panic := @C12.coldef_no_panic
/-- MySQL COM_STMT_EXECUTE parameter reader/rewriter never panics. -/
theorem mysql_execute_no_panic : type_of% @C12.mysql_execute_no_panic := @C12.mysql_execute_no_panic

end AcraModel.Props.C14
