import AcraModel.AuditLog.ChainLemmas
import AcraModel.AuditLog.ChainAlter
import AcraModel.AuditLog.ParseLemmas
import AcraModel.Crypto.Box
/-!
# C20 — the audit-log integrity chain verifies when intact and fails when altered

Property theorems only. Models: `AuditLog/Chain.lean` (calculator, verifier, producer at entry level),
`AuditLog/Parse.lean` (text hooks, plaintext/CEF line parser, file reader). Hash collision freedom is
never assumed globally: every alteration theorem names the two HMAC inputs / the two HMAC values on
which a collision would have to occur (hypotheses `hmac`, `hsha`), and the ratchet hypothesis
`SHA256(k) ≠ k` for the one key at hand where it is needed.

Not claimed (matches the statement): removing a suffix of the log is not detected; neither is the
replay of a complete chain. Two single-entry corner cases of the latter are `_counterexample`s below.
-/
namespace AcraModel.Props.C20
open AcraModel AcraModel.AuditLog Generated.AuditLog

/-! ## facts regenerated from the source -/

/-- `calculateHmac` feeds the entry first, then the previous integrity check. -/
theorem fact_hmacWrites : hmacWrites = ["input", "previousLogEntryIntegrityCheck"] := by decide

/-- the marker constants the line model is built from -/
theorem fact_constants : dataSplitToken = " integrity=" ∧ spaceDelimiter = " " ∧ newChainSuffix = "chain=new" ∧
    endChainSuffix = "chain=end" ∧ endOfChainMessage = "End of current audit log chain" := by decide

/-- both text parsers cut a line at the LAST occurrence of the split token (after the repair of §8 #11) -/
theorem fact_split_last : SplitMode.ofString plaintextSplitMode = .last ∧ SplitMode.ofString cefSplitMode = .last := by decide

/-- the hooks strip the formatter's trailing `\n` (plaintext) / ` \n` (CEF); only CEF trims the tag part -/
theorem fact_hooks : plaintextHookCut = 1 ∧ cefHookCut = 2 ∧ plaintextTrimsTag = false ∧ cefTrimsTag = true := by decide

/-- the file reader has no line-length limit (after the repair of the 64 KiB scanner defect) -/
theorem fact_reader : lineReader = "reader" := by decide

/-- the verifier skips exactly the three "no integrity part" errors -/
theorem fact_verifierSkips :
    verifierSkips = ["ErrCefIntegrityExtract", "ErrPlaintextIntegrityExtract", "ErrJSONIntegrityExtract"] := by decide

/-! ## honest output verifies -/

/-- **Honest logs verify (all formats, entry level).** For every key, every sequence of log calls with
chain restarts (a restart only ever follows an end-of-chain entry, as `AuditLogHandler.Write` does it),
every log whose protected entries are what the hooks emit – with any number of unprotected lines in
between – passes `VerifyIntegrityCheck` under the same key. For JSON this is the statement under the
hypothesis `RenderParse` (the parser recovers `(data, tag, markers)` of each entry), which is exactly
`hent`; for plaintext it is discharged by `render_parse_plain` in `honest_plaintext_verifies`. -/
theorem honest_verifies (c : CryptoOps) (key : Bytes) (items : List PItem) (ls : List Line)
    (hres : ∀ it ∈ items, it.resetAfter = true → it.isEnd = true)
    (hbad : ∀ l ∈ ls, l ≠ Line.bad)
    (hent : entriesOf ls = produce c key (Calc.new c key) items) :
    verify c key ls = .ok :=
  verifyFrom_honest c key ls items _ _ 0 (inStep_init c key) hres hbad hent

/-- **Render/parse for the plaintext format, for EVERY formatter output.** Whatever bytes the entry
consists of (line breaks already escaped by logrus; quotes, separators, look-alike ` integrity=…`,
`chain=new`, `chain=end` inside messages or fields), the line the hook writes is parsed back into
exactly the authenticated bytes, the tag and the chain markers. -/
theorem render_parse_plain (data tag : Bytes) (new : Bool) :
    parseLine .last false (data ++ splitTok ++ hexEnc tag ++ (if new then newSuffix else [])) =
      .entry ⟨data, tag, new, isEndData data⟩ := by
  have e : data ++ splitTok ++ hexEnc tag ++ (if new then newSuffix else []) = data ++ splitTok ++ tagPart tag new := by
    simp [tagPart, List.append_assoc]
  have hp := tagPart_parse tag new
  rw [e]
  unfold parseLine
  rw [rendered_nonempty, cut_last_rendered]
  simp only [Bool.false_eq_true, if_false, hp.1]
  cases new with
  | false => simp only [Bool.false_eq_true, if_false] at hp ⊢; rw [hp.2]
  | true => simp only [if_true] at hp ⊢; rw [hp.2]

/-- **Render/parse for the CEF format.** The same for the CEF parser, which additionally applies
`strings.TrimSpace` to the part after the split token; the tag is never empty (it is a hash). -/
theorem render_parse_cef (data tag : Bytes) (new : Bool) (hne : tag ≠ []) :
    parseLine .last true (data ++ splitTok ++ hexEnc tag ++ (if new then newSuffix else [])) =
      .entry ⟨data, tag, new, isEndData data⟩ := by
  have e : data ++ splitTok ++ hexEnc tag ++ (if new then newSuffix else []) = data ++ splitTok ++ tagPart tag new := by
    simp [tagPart, List.append_assoc]
  have hp := tagPart_parse tag new
  rw [e]
  unfold parseLine
  rw [rendered_nonempty, cut_last_rendered]
  simp only [Bool.false_eq_true, if_false, if_true, trimSpace_tagPart tag new hne, hp.1]
  cases new with
  | false => simp only [Bool.false_eq_true, if_false] at hp ⊢; rw [hp.2]
  | true => simp only [if_true] at hp ⊢; rw [hp.2]

/-- the entry-level view of a line-level history -/
def toPItem (it : LItem) : PItem := ⟨it.formatted, isEndData it.formatted, it.resetAfter⟩

/-- **Honest plaintext logs verify, whatever the messages and fields contain.** The lines written by
the plaintext hook for ANY sequence of formatter outputs and chain restarts (restarts after
end-of-chain entries), read back with the plaintext parser, verify under the same key. -/
theorem honest_plaintext_verifies (c : CryptoOps) (key : Bytes) (items : List LItem)
    (hres : ∀ it ∈ items, it.resetAfter = true → isEndData it.formatted = true) :
    verify c key ((produceLines c key (Calc.new c key) items).map (parseLine .last false)) = .ok := by
  have hmap : ∀ (its : List LItem) (st : Calc),
      (produceLines c key st its).map (parseLine .last false) =
        (produce c key st (its.map toPItem)).map Line.entry := by
    intro its
    induction its with
    | nil => intro st; rfl
    | cons it r ih =>
      intro st
      simp only [produceLines, appendIntegrity, List.map_cons, produce, toPItem]
      rw [render_parse_plain]
      congr 1
      exact ih _
  have hent : ∀ es : List Entry, entriesOf (es.map Line.entry) = es := by
    intro es; induction es with
    | nil => rfl
    | cons e r ih => simp [entriesOf, ih]
  apply honest_verifies c key (items.map toPItem)
  · intro it hit
    obtain ⟨l, hl, rfl⟩ := List.mem_map.mp hit
    exact hres l hl
  · intro l hl
    rw [hmap] at hl
    obtain ⟨e, _, rfl⟩ := List.mem_map.mp hl
    simp
  · rw [hmap, hent]

/-- **Honest plaintext log FILES verify.** The same at file level: the bytes written (each line
followed by `\n`), read back by `processLogFile` (after its repair: no line-length limit) and parsed line
by line, verify – for any formatter outputs that contain no raw line feed (logrus escapes them). -/
theorem honest_plaintext_file_verifies (c : CryptoOps) (key : Bytes) (items : List LItem)
    (hres : ∀ it ∈ items, it.resetAfter = true → isEndData it.formatted = true)
    (hlf : ∀ it ∈ items, ∀ x ∈ it.formatted, x ≠ 10) :
    verify c key ((scanLines ((produceLines c key (Calc.new c key) items).flatMap fun l => l ++ [10])).map
      (parseLine .last false)) = .ok := by
  have hclean : ∀ (its : List LItem) (st : Calc), (∀ it ∈ its, ∀ x ∈ it.formatted, x ≠ 10) →
      ∀ l ∈ produceLines c key st its, (∀ x ∈ l, x ≠ 10) ∧ l.getLast? ≠ some 13 := by
    intro its
    induction its with
    | nil => intro st _ l hl; cases hl
    | cons it r ih =>
      intro st hf l hl
      simp only [produceLines, appendIntegrity, List.mem_cons] at hl
      rcases hl with rfl | hl
      · have := rendered_clean it.formatted (st.step c it.formatted).2.1 (st.step c it.formatted).2.2
          (hf it List.mem_cons_self)
        simpa [tagPart, List.append_assoc] using this
      · exact ih _ (fun x hx => hf x (List.mem_cons_of_mem _ hx)) l hl
  have hread : scanLines ((produceLines c key (Calc.new c key) items).flatMap fun l => l ++ [10]) =
      produceLines c key (Calc.new c key) items := by
    unfold scanLines
    rw [fact_reader]
    exact scanLines_join _ (hclean items _ hlf)
  rw [hread]
  exact honest_plaintext_verifies c key items hres

/-- **Honest CEF logs verify, whatever the messages and fields contain** (for a hash with non-empty
output – true of SHA-256). -/
theorem honest_cef_verifies (c : CryptoOps) (key : Bytes) (items : List LItem)
    (hsha : ∀ m, c.sha256 m ≠ [])
    (hres : ∀ it ∈ items, it.resetAfter = true → isEndData it.formatted = true) :
    verify c key ((produceLines c key (Calc.new c key) items).map (parseLine .last true)) = .ok := by
  have hmap : ∀ (its : List LItem) (st : Calc),
      (produceLines c key st its).map (parseLine .last true) =
        (produce c key st (its.map toPItem)).map Line.entry := by
    intro its
    induction its with
    | nil => intro st; rfl
    | cons it r ih =>
      intro st
      simp only [produceLines, appendIntegrity, List.map_cons, produce, toPItem]
      rw [render_parse_cef _ _ _ (by simp only [Calc.step]; exact hsha _)]
      congr 1
      exact ih _
  have hent : ∀ es : List Entry, entriesOf (es.map Line.entry) = es := by
    intro es; induction es with
    | nil => rfl
    | cons e r ih => simp [entriesOf, ih]
  apply honest_verifies c key (items.map toPItem)
  · intro it hit
    obtain ⟨l, hl, rfl⟩ := List.mem_map.mp hit
    exact hres l hl
  · intro l hl
    rw [hmap] at hl
    obtain ⟨e, _, rfl⟩ := List.mem_map.mp hl
    simp
  · rw [hmap, hent]

/-- **The defect of the pinned tree (§8 #11), kept as a theorem about the old cutting rule.** With
`strings.Split` + `len != 2` an honest line whose entry contains the split token is not recognised
as protected at all. -/
theorem render_parse_split2_counterexample :
    parseLine .split2 false (strB "msg=\"a integrity=1\"" ++ splitTok ++ hexEnc [0xab] ++ []) = .skip := by decide

/-! ## alterations are detected -/

/-! `entryAt c st d isEnd` (the honest entry for data `d` written in calculator state `st`) and
`NoCollision c a x b y` (collision freedom on the two values at hand: the HMAC values of calculator states
`a`, `b` on data `x`, `y` do not collide under SHA-256, and the two HMAC inputs do not collide under HMAC)
are defined in `AuditLog/ChainAlter.lean`, together with `honestLines c key items` (the log of an honest
history), `pstate c key items` (the producer's calculator after it) and `vcal c key items` (the
calculator the *verifier* holds after it: the producer's when mid-chain – `vcal_of_mid` –, the fresh
one at the start of the log – `vcal_nil` –, and after the last entry of a chain that chain's calculator
one step on – `vcal_snoc` –, because the verifier restarts only when it sees `chain=new`). -/

/-- **Tamper, general form.** After any honest prefix (with restarts), a line that is not marked as a
chain start and whose tag was made in calculator state `st'` for data `d'` is rejected at its position
whenever its authenticated bytes or the chain position differ from what the tag was made for –
given no collision on the two values at hand. All concrete alterations below are instances. -/
theorem foreign_entry_detected (c : CryptoOps) (key : Bytes) (pre : List PItem) (e : Entry) (rest : List Line)
    (st' : Calc) (d' : Bytes)
    (hres : ∀ it ∈ pre, it.resetAfter = true → it.isEnd = true)
    (hmid : (stateAfter c key (Calc.new c key) pre).prev.isSome)
    (hnew : e.isNew = false) (htag : e.tag = tagOf c st' d')
    (hnc : NoCollision c (stateAfter c key (Calc.new c key) pre) e.data st' d')
    (hdiff : (stateAfter c key (Calc.new c key) pre).key ≠ st'.key ∨
      e.data ++ (stateAfter c key (Calc.new c key) pre).prev.getD [] ≠ d' ++ st'.prev.getD []) :
    verify c key ((produce c key (Calc.new c key) pre).map Line.entry ++ Line.entry e :: rest) =
      .fail pre.length .mismatch := by
  obtain ⟨hstep, hv⟩ := verifyFrom_honest_prefix c key pre (Calc.new c key) (VState.init c key) 0 (Line.entry e :: rest)
    (inStep_init c key) hres
  have hcal := hstep.cal_eq hmid
  unfold verify
  rw [hv]
  simp only [verifyFrom, Nat.zero_add]
  have := entry_foreign_fails (d' := d') c key (vsRun c key (Calc.new c key) (VState.init c key) pre) st' e hnew htag
    (by rw [hcal]; exact hnc.sha) (by rw [hcal]; exact hnc.mac) (by rw [hcal]; exact hdiff)
  rw [this]

/-- **A single-entry edit is detected at the edited entry**: same tag and markers, other content. -/
theorem edit_detected (c : CryptoOps) (key : Bytes) (pre : List PItem) (a : PItem) (d' : Bytes) (rest : List Line)
    (hres : ∀ it ∈ pre, it.resetAfter = true → it.isEnd = true)
    (hmid : (stateAfter c key (Calc.new c key) pre).prev.isSome)
    (hd : d' ≠ a.data)
    (hnc : NoCollision c (stateAfter c key (Calc.new c key) pre) d' (stateAfter c key (Calc.new c key) pre) a.data) :
    verify c key ((produce c key (Calc.new c key) pre).map Line.entry ++
        Line.entry { entryAt c (stateAfter c key (Calc.new c key) pre) a.data a.isEnd with data := d' } :: rest) =
      .fail pre.length .mismatch := by
  apply foreign_entry_detected c key pre _ rest (stateAfter c key (Calc.new c key) pre) a.data hres hmid
  · cases h : (stateAfter c key (Calc.new c key) pre).prev with
    | none => rw [h] at hmid; cases hmid
    | some _ => simp [entryAt, h]
  · rfl
  · exact hnc
  · right
    intro h
    exact hd (List.append_cancel_right h)

/-- **Removing an entry that is followed by another entry of its chain is detected at that next entry**
(also: exchanging two neighbouring entries is detected at the first of them). `a` is the removed
entry, `b` the one that follows; the only extra hypothesis is that the key ratchet moves (`SHA256(k) ≠ k`
for the key at hand). -/
theorem delete_detected (c : CryptoOps) (key : Bytes) (pre : List PItem) (a b : PItem) (rest : List Line)
    (hres : ∀ it ∈ pre, it.resetAfter = true → it.isEnd = true)
    (hmid : (stateAfter c key (Calc.new c key) pre).prev.isSome)
    (hratchet : c.sha256 (stateAfter c key (Calc.new c key) pre).key ≠ (stateAfter c key (Calc.new c key) pre).key)
    (hnc : NoCollision c (stateAfter c key (Calc.new c key) pre) b.data
      ((stateAfter c key (Calc.new c key) pre).step c a.data).1 b.data) :
    verify c key ((produce c key (Calc.new c key) pre).map Line.entry ++
        Line.entry (entryAt c ((stateAfter c key (Calc.new c key) pre).step c a.data).1 b.data b.isEnd) :: rest) =
      .fail pre.length .mismatch := by
  apply foreign_entry_detected c key pre _ rest ((stateAfter c key (Calc.new c key) pre).step c a.data).1 b.data hres hmid
  · simp [entryAt, Calc.step]
  · rfl
  · exact hnc
  · left
    simpa [Calc.step] using Ne.symm hratchet

/-- **Exchanging two neighbouring entries is detected at the first of them** (the line that now comes
first carries a tag made one ratchet step later). -/
theorem swap_adjacent_detected (c : CryptoOps) (key : Bytes) (pre : List PItem) (a b : PItem) (rest : List Line)
    (hres : ∀ it ∈ pre, it.resetAfter = true → it.isEnd = true)
    (hmid : (stateAfter c key (Calc.new c key) pre).prev.isSome)
    (hratchet : c.sha256 (stateAfter c key (Calc.new c key) pre).key ≠ (stateAfter c key (Calc.new c key) pre).key)
    (hnc : NoCollision c (stateAfter c key (Calc.new c key) pre) b.data
      ((stateAfter c key (Calc.new c key) pre).step c a.data).1 b.data) :
    verify c key ((produce c key (Calc.new c key) pre).map Line.entry ++
        Line.entry (entryAt c ((stateAfter c key (Calc.new c key) pre).step c a.data).1 b.data b.isEnd) ::
        Line.entry (entryAt c (stateAfter c key (Calc.new c key) pre) a.data a.isEnd) :: rest) =
      .fail pre.length .mismatch :=
  delete_detected c key pre a b _ hres hmid hratchet hnc

/-- **A duplicated entry is detected at the copy** (copy placed right after the original, mid-chain). -/
theorem duplicate_detected (c : CryptoOps) (key : Bytes) (pre : List PItem) (a : PItem) (rest : List Line)
    (hres : ∀ it ∈ pre ++ [a], it.resetAfter = true → it.isEnd = true)
    (hmid : (stateAfter c key (Calc.new c key) pre).prev.isSome)
    (hnr : a.resetAfter = false)
    (hratchet : c.sha256 (stateAfter c key (Calc.new c key) pre).key ≠ (stateAfter c key (Calc.new c key) pre).key)
    (hnc : NoCollision c ((stateAfter c key (Calc.new c key) pre).step c a.data).1 a.data
      (stateAfter c key (Calc.new c key) pre) a.data) :
    verify c key ((produce c key (Calc.new c key) (pre ++ [a])).map Line.entry ++
        Line.entry (entryAt c (stateAfter c key (Calc.new c key) pre) a.data a.isEnd) :: rest) =
      .fail (pre.length + 1) .mismatch := by
  have hst : ∀ (l : List PItem) (st : Calc), stateAfter c key st (l ++ [a]) = ((stateAfter c key st l).step c a.data).1 := by
    intro l
    induction l with
    | nil => intro st; simp [stateAfter, hnr]
    | cons x r ih => intro st; simp only [List.cons_append, stateAfter]; exact ih _
  have := foreign_entry_detected c key (pre ++ [a]) (entryAt c (stateAfter c key (Calc.new c key) pre) a.data a.isEnd) rest
    (stateAfter c key (Calc.new c key) pre) a.data hres (by rw [hst]; simp [Calc.step])
    (by
      cases h : (stateAfter c key (Calc.new c key) pre).prev with
      | none => rw [h] at hmid; cases hmid
      | some _ => simp [entryAt, h])
    rfl (by rw [hst]; exact hnc) (by rw [hst]; left; simpa [Calc.step] using hratchet)
  simpa using this

/-- **A copy of a chain's first entry placed right after it is detected** unless that entry is also
the end of its chain: the verifier reports the missing end-of-chain. -/
theorem duplicate_chain_start_detected (c : CryptoOps) (key : Bytes) (pre : List PItem) (a : PItem) (rest : List Line)
    (e : Entry) (hres : ∀ it ∈ pre ++ [a], it.resetAfter = true → it.isEnd = true)
    (hnew : e.isNew = true) (hend : a.isEnd = false) :
    verify c key ((produce c key (Calc.new c key) (pre ++ [a])).map Line.entry ++ Line.entry e :: rest) =
      .fail (pre.length + 1) .missingEnd := by
  obtain ⟨_, hv⟩ := verifyFrom_honest_prefix c key (pre ++ [a]) (Calc.new c key) (VState.init c key) 0 (Line.entry e :: rest)
    (inStep_init c key) hres
  have hlast : ∀ (l : List PItem) (st : Calc) (vs : VState), (vsRun c key st vs (l ++ [a])).last = some a.isEnd := by
    intro l
    induction l with
    | nil => intro st vs; simp [vsRun, vsAfter]
    | cons x r ih => intro st vs; simp only [List.cons_append, vsRun]; exact ih _ _
  unfold verify
  rw [hv]
  simp [verifyFrom, VState.entry, hnew, hlast, hend]

/-- **Verification with another key fails at the first protected entry** (no collision between the two
hashed keys on that entry). -/
theorem wrong_key_fails (c : CryptoOps) (key key' : Bytes) (a : PItem) (rest : List Line)
    (hk : c.sha256 key' ≠ c.sha256 key)
    (hnc : NoCollision c (Calc.new c key') a.data (Calc.new c key) a.data) :
    verify c key' (Line.entry (entryAt c (Calc.new c key) a.data a.isEnd) :: rest) = .fail 0 .mismatch := by
  have hne : tagOf c (Calc.new c key) a.data ≠ ((Calc.new c key').step c a.data).2.1 := by
    rw [step_tag]
    intro h
    have h1 := hnc.sha h.symm
    exact hk (hnc.mac h1).1
  simp only [Calc.new] at hne
  simp [verify, verifyFrom, VState.entry, VState.init, entryAt, Calc.new, hne]

/-- **Known limitation, as a theorem.** An entry that is at once the first and the end-of-chain entry
of its chain is a complete chain by itself: a log consisting of it twice verifies (duplication of that
single entry is NOT detected). Holds for every key and every crypto instance. -/
theorem single_entry_chain_replay_counterexample (c : CryptoOps) (key d : Bytes) :
    verify c key [.entry (entryAt c (Calc.new c key) d true), .entry (entryAt c (Calc.new c key) d true)] = .ok := by
  simp [verify, verifyFrom, VState.entry, VState.init, entryAt, Calc.new, Calc.step, tagOf, Calc.ic]

/-- **Truncation is allowed** (not a defect per the statement): every prefix of an honest log verifies. -/
theorem truncation_allowed (c : CryptoOps) (key : Bytes) (items more : List PItem)
    (hres : ∀ it ∈ items ++ more, it.resetAfter = true → it.isEnd = true) :
    verify c key ((produce c key (Calc.new c key) items).map Line.entry) = .ok := by
  have hent : ∀ es : List Entry, entriesOf (es.map Line.entry) = es := by
    intro es; induction es with
    | nil => rfl
    | cons e r ih => simp [entriesOf, ih]
  exact honest_verifies c key items _ (fun it h => hres it (List.mem_append_left _ h))
    (by intro l hl; obtain ⟨e, _, rfl⟩ := List.mem_map.mp hl; simp) (hent _)

/-! ## non-vacuity -/

/-- a crypto instance with injective hashes and a moving ratchet (`SHA(m) = 0 ‖ m`) -/
def toyOps : CryptoOps := { boxOps with sha256 := fun m => 0 :: m }

theorem toy_noCollision (a : Calc) (x : Bytes) (b : Calc) (y : Bytes) : NoCollision toyOps a x b y where
  sha := by intro h; simpa [toyOps] using h
  mac := by
    intro h
    exact Box.hashInj.hmac_inj _ _ _ _ h

/-- the hypotheses of the alteration theorems are satisfiable: a two-entry prefix, then an edited third
entry, with the toy instance -/
example : verify toyOps [1] ((produce toyOps [1] (Calc.new toyOps [1]) [⟨[10], false, false⟩, ⟨[11], false, false⟩]).map Line.entry ++
    Line.entry { entryAt toyOps (stateAfter toyOps [1] (Calc.new toyOps [1]) [⟨[10], false, false⟩, ⟨[11], false, false⟩]) [12] false with data := [13] } :: []) =
    .fail 2 .mismatch :=
  edit_detected toyOps [1] [⟨[10], false, false⟩, ⟨[11], false, false⟩] ⟨[12], false, false⟩ [13] []
    (by intro it h; simp at h; rcases h with rfl | rfl <;> simp) (by simp [stateAfter, Calc.step])
    (by decide) (toy_noCollision _ _ _ _)

/-- the ratchet hypothesis holds for the toy instance -/
example (k : Bytes) : toyOps.sha256 k ≠ k := by
  intro h
  have := congrArg List.length h
  simp [toyOps] at this

/-- honest_plaintext_verifies is about real content: a history with a look-alike token, a restart after
an end-of-chain entry, and a further entry -/
example : verify toyOps [7] ((produceLines toyOps [7] (Calc.new toyOps [7])
    [⟨strB "msg=\"x integrity=00\"", false⟩, ⟨strB "msg=\"End of current audit log chain\" chain=end", true⟩, ⟨strB "msg=next", false⟩]).map
      (parseLine .last false)) = .ok :=
  honest_plaintext_verifies toyOps [7] _ (by
    intro it h
    simp at h
    rcases h with rfl | rfl | rfl <;> first | (intro _; decide) | (intro h; cases h))

end AcraModel.Props.C20
