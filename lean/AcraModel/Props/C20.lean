import AcraModel.AuditLog.ChainLemmas
import AcraModel.AuditLog.ChainAlter
import AcraModel.AuditLog.ParseLemmas
import AcraModel.AuditLog.JsonRoundTrip
import AcraModel.AuditLog.JsonNested
import AcraModel.Crypto.Box
/-!
# C20 — the audit-log integrity chain verifies when intact and fails when altered

Property theorems only. Models: `AuditLog/Chain.lean` (calculator, verifier, producer at entry level),
`AuditLog/Parse.lean` (text hooks, plaintext/CEF line parser, file reader). Hash collision freedom is
never assumed globally: every alteration theorem names the two HMAC inputs / the two HMAC values on
which a collision would have to occur (hypotheses `hmac`, `hsha`), and the ratchet hypothesis
`SHA256(k) ≠ k` for the one key at hand where it is needed.

Not claimed (matches the statement): removing a suffix of the log is not detected; neither is the
replay of a complete chain. Two single-entry corner cases of the latter are `_counterexample`s below.
-/
namespace AcraModel.Props.C20
open AcraModel AcraModel.AuditLog Generated.AuditLog

/-! ## facts regenerated from the source -/

/-- `calculateHmac` feeds the entry first, then the previous integrity check. -/
theorem fact_hmacWrites : hmacWrites = ["input", "previousLogEntryIntegrityCheck"] := by decide

/-- the marker constants the line model is built from -/
theorem fact_constants : dataSplitToken = " integrity=" ∧ spaceDelimiter = " " ∧ newChainSuffix = "chain=new" ∧
    endChainSuffix = "chain=end" ∧ endOfChainMessage = "End of current audit log chain" := by decide

/-- both text parsers cut a line at the LAST occurrence of the split token (after the repair of §8 #11) -/
theorem fact_split_last : SplitMode.ofString plaintextSplitMode = .last ∧ SplitMode.ofString cefSplitMode = .last := by decide

/-- the hooks strip the formatter's trailing `\n` (plaintext) / ` \n` (CEF); only CEF trims the tag part -/
theorem fact_hooks : plaintextHookCut = 1 ∧ cefHookCut = 2 ∧ plaintextTrimsTag = false ∧ cefTrimsTag = true := by decide

/-- the file reader has no line-length limit (after the repair of the 64 KiB scanner defect) -/
theorem fact_reader : lineReader = "reader" := by decide

/-- the read loop of `processLogFile` hands a (non-empty) line to the verifier BEFORE `io.EOF` ends the
function – `ReadString` returns an unterminated last line together with `io.EOF` (seeded change C20-5 moves the
`io.EOF` return in front: that line is then never verified) –, and strips one `\n`, then one `\r` -/
theorem fact_reader_loop : readerLoop = stdLoop ∧ readerTrims = stdTrims := by decide

/-- the verifier skips exactly the three "no integrity part" errors -/
theorem fact_verifierSkips :
    verifierSkips = ["ErrCefIntegrityExtract", "ErrPlaintextIntegrityExtract", "ErrJSONIntegrityExtract"] := by decide

/-- JSON: `getBytes` is `json.Marshal(value)` and nothing else (no per-type fast path – seeded change C20-1) -/
theorem fact_getBytes : getBytesBody = ["return json.Marshal(key)"] := by decide

/-- JSON: `convertMapToBytes` sorts the keys and appends, for every key, delimiter ‖ key ‖ delimiter ‖
`getBytes(value)` ‖ delimiter -/
theorem fact_convertMapToBytes : convSortsKeys = true ∧ convValueBytes = "getBytes(parsed[key])" ∧
    convAppends = ["[]byte(JSONKeyValueDelimiter)", "keyBytes", "[]byte(JSONKeyValueDelimiter)", "valueBytes", "[]byte(JSONKeyValueDelimiter)"] ∧
    jsonDelimiter = "delimiter" ∧ integrityKey = "integrity" ∧ chainKey = "chain" ∧ newChainValue = "new" ∧ endChainValue = "end" := by decide

/-- JSON: hook and parser decode the entry with the same function, an `encoding/json` decoder with `UseNumber`
(number literals are kept as written – repair 51) that rejects data after the value -/
theorem fact_jsonDecode : jsonHookDecodesWith = "unmarshalLogEntry" ∧ jsonParserDecodesWith = "unmarshalLogEntry" ∧
    jsonDecodeCalls = ["json.NewDecoder", "decoder.UseNumber", "decoder.Decode", "decoder.Token"] := by decide

/-! ## honest output verifies -/

/-- **Honest logs verify (all formats, entry level).** For every key, every sequence of log calls with
chain restarts (a restart only ever follows an end-of-chain entry, as `AuditLogHandler.Write` does it),
every log whose protected entries are what the hooks emit – with any number of unprotected lines in
between – passes `VerifyIntegrityCheck` under the same key. For JSON this is the statement under the
hypothesis `RenderParse` (the parser recovers `(data, tag, markers)` of each entry), which is exactly
`hent`; for plaintext it is discharged by `render_parse_plain` in `honest_plaintext_verifies`. -/
theorem honest_verifies (c : CryptoOps) (key : Bytes) (items : List PItem) (ls : List Line)
    (hres : ∀ it ∈ items, it.resetAfter = true → it.isEnd = true)
    (hbad : ∀ l ∈ ls, l ≠ Line.bad)
    (hent : entriesOf ls = produce c key (Calc.new c key) items) :
    verify c key ls = .ok :=
  verifyFrom_honest c key ls items _ _ 0 (inStep_init c key) hres hbad hent

/-- **Render/parse for the plaintext format, for EVERY formatter output.** Whatever bytes the entry
consists of (line breaks already escaped by logrus; quotes, separators, look-alike ` integrity=…`,
`chain=new`, `chain=end` inside messages or fields), the line the hook writes is parsed back into
exactly the authenticated bytes, the tag and the chain markers. -/
theorem render_parse_plain (data tag : Bytes) (new : Bool) :
    parseLine .last false (data ++ splitTok ++ hexEnc tag ++ (if new then newSuffix else [])) =
      .entry ⟨data, tag, new, isEndData data⟩ := by
  have e : data ++ splitTok ++ hexEnc tag ++ (if new then newSuffix else []) = data ++ splitTok ++ tagPart tag new := by
    simp [tagPart, List.append_assoc]
  have hp := tagPart_parse tag new
  rw [e]
  unfold parseLine
  rw [rendered_nonempty, cut_last_rendered]
  simp only [Bool.false_eq_true, if_false, hp.1]
  cases new with
  | false => simp only [Bool.false_eq_true, if_false] at hp ⊢; rw [hp.2]
  | true => simp only [if_true] at hp ⊢; rw [hp.2]

/-- **Render/parse for the CEF format.** The same for the CEF parser, which additionally applies
`strings.TrimSpace` to the part after the split token; the tag is never empty (it is a hash). -/
theorem render_parse_cef (data tag : Bytes) (new : Bool) (hne : tag ≠ []) :
    parseLine .last true (data ++ splitTok ++ hexEnc tag ++ (if new then newSuffix else [])) =
      .entry ⟨data, tag, new, isEndData data⟩ := by
  have e : data ++ splitTok ++ hexEnc tag ++ (if new then newSuffix else []) = data ++ splitTok ++ tagPart tag new := by
    simp [tagPart, List.append_assoc]
  have hp := tagPart_parse tag new
  rw [e]
  unfold parseLine
  rw [rendered_nonempty, cut_last_rendered]
  simp only [Bool.false_eq_true, if_false, if_true, trimSpace_tagPart tag new hne, hp.1]
  cases new with
  | false => simp only [Bool.false_eq_true, if_false] at hp ⊢; rw [hp.2]
  | true => simp only [if_true] at hp ⊢; rw [hp.2]

/-- the entry-level view of a line-level history -/
def toPItem (it : LItem) : PItem := ⟨it.formatted, isEndData it.formatted, it.resetAfter⟩

/-- **Honest plaintext logs verify, whatever the messages and fields contain.** The lines written by
the plaintext hook for ANY sequence of formatter outputs and chain restarts (restarts after
end-of-chain entries), read back with the plaintext parser, verify under the same key. -/
theorem honest_plaintext_verifies (c : CryptoOps) (key : Bytes) (items : List LItem)
    (hres : ∀ it ∈ items, it.resetAfter = true → isEndData it.formatted = true) :
    verify c key ((produceLines c key (Calc.new c key) items).map (parseLine .last false)) = .ok := by
  have hmap : ∀ (its : List LItem) (st : Calc),
      (produceLines c key st its).map (parseLine .last false) =
        (produce c key st (its.map toPItem)).map Line.entry := by
    intro its
    induction its with
    | nil => intro st; rfl
    | cons it r ih =>
      intro st
      simp only [produceLines, appendIntegrity, List.map_cons, produce, toPItem]
      rw [render_parse_plain]
      congr 1
      exact ih _
  have hent : ∀ es : List Entry, entriesOf (es.map Line.entry) = es := by
    intro es; induction es with
    | nil => rfl
    | cons e r ih => simp [entriesOf, ih]
  apply honest_verifies c key (items.map toPItem)
  · intro it hit
    obtain ⟨l, hl, rfl⟩ := List.mem_map.mp hit
    exact hres l hl
  · intro l hl
    rw [hmap] at hl
    obtain ⟨e, _, rfl⟩ := List.mem_map.mp hl
    simp
  · rw [hmap, hent]

/-- **Honest plaintext log FILES verify.** The same at file level: the bytes written (each line
followed by `\n`), read back by `processLogFile` (after its repair: no line-length limit) and parsed line
by line, verify – for any formatter outputs that contain no raw line feed (logrus escapes them). -/
theorem honest_plaintext_file_verifies (c : CryptoOps) (key : Bytes) (items : List LItem)
    (hres : ∀ it ∈ items, it.resetAfter = true → isEndData it.formatted = true)
    (hlf : ∀ it ∈ items, ∀ x ∈ it.formatted, x ≠ 10) :
    verify c key ((scanLines ((produceLines c key (Calc.new c key) items).flatMap fun l => l ++ [10])).map
      (parseLine .last false)) = .ok := by
  have hclean : ∀ (its : List LItem) (st : Calc), (∀ it ∈ its, ∀ x ∈ it.formatted, x ≠ 10) →
      ∀ l ∈ produceLines c key st its, (∀ x ∈ l, x ≠ 10) ∧ l.getLast? ≠ some 13 := by
    intro its
    induction its with
    | nil => intro st _ l hl; cases hl
    | cons it r ih =>
      intro st hf l hl
      simp only [produceLines, appendIntegrity, List.mem_cons] at hl
      rcases hl with rfl | hl
      · have := rendered_clean it.formatted (st.step c it.formatted).2.1 (st.step c it.formatted).2.2
          (hf it List.mem_cons_self)
        simpa [tagPart, List.append_assoc] using this
      · exact ih _ (fun x hx => hf x (List.mem_cons_of_mem _ hx)) l hl
  have hread : scanLines ((produceLines c key (Calc.new c key) items).flatMap fun l => l ++ [10]) =
      produceLines c key (Calc.new c key) items := by
    unfold scanLines
    rw [fact_reader, fact_reader_loop.1, fact_reader_loop.2]
    exact scanLines_join _ (hclean items _ hlf)
  rw [hread]
  exact honest_plaintext_verifies c key items hres

/-! ### from entry lists to FILE BYTES -/

/-- **The file reader yields every line.** For EVERY file content: the raw chunks `processLogFile` hands to its
delivering branch, put one after the other, ARE the file (no byte is dropped – an unterminated last line
included); every chunk is non-empty with no `\n` before its last byte, and every chunk but the last ends in
`\n` (so the chunks are the maximal newline-free pieces with their terminators); what the verifier receives
are these chunks with the suffixes of `readerTrims` removed. The statement order of the loop is the regenerated
`readerLoop`; with `return-eof` in front of `deliver` (seeded change C20-5) the first conjunct is false for
every file that does not end in `\n`. -/
theorem reader_yields_every_line (file : Bytes) :
    (readChunks readerLoop file []).flatten = file ∧
    (∀ ch ∈ readChunks readerLoop file [], ch ≠ [] ∧ ∀ x ∈ ch.dropLast, x ≠ 10) ∧
    (∀ ch ∈ (readChunks readerLoop file []).dropLast, ch.getLast? = some 10) ∧
    scanLines file = (readChunks readerLoop file []).map (trimLine readerTrims) := by
  refine ⟨?_, ?_, ?_, ?_⟩
  · rw [fact_reader_loop.1]; simpa using readChunks_std_flatten file []
  · rw [fact_reader_loop.1]; exact readChunks_std_shape file [] (by simp)
  · rw [fact_reader_loop.1]; exact readChunks_std_terminated file []
  · unfold scanLines scanLinesWith
    rw [fact_reader]
    simp

/-- **What the verifier decides about a FILE is what `verify` decides about ALL of its lines** – the lines
being the file split at every `\n`, an unterminated last line counting as a line, one trailing `\r` removed
(`rawLines`/`dropCR`: the specification of line splitting, independent of the loop's statement order). -/
theorem file_verify_checks_every_line (c : CryptoOps) (key : Bytes) (parse : Bytes → Line) (file : Bytes) :
    verifyFile c key parse file = verify c key (((rawLines file []).map dropCR).map parse) := by
  unfold verifyFile scanLines
  rw [fact_reader, fact_reader_loop.1, fact_reader_loop.2, scanLinesWith_std]

/-- **Lifting.** A file made of the lines `ls` (no line feed inside a line, no trailing carriage return) – each
followed by `\n`, or the same file WITHOUT the final `\n` (last line non-empty) – gets the verdict of the entry
list parsed from all of `ls`. Every entry-level theorem of this file (`edit_detected`, `delete_detected`,
`swap_detected`, `duplicate_detected`, `wrong_key_fails` …) therefore holds of the file bytes, in both shapes,
the last line included. -/
theorem file_verdict_is_lines_verdict (c : CryptoOps) (key : Bytes) (parse : Bytes → Line) (ls : List Bytes) (term : Bool)
    (hclean : ∀ l ∈ ls, (∀ x ∈ l, x ≠ 10) ∧ l.getLast? ≠ some 13)
    (hlast : term = false → ls.getLast? ≠ some []) :
    verifyFile c key parse (fileOf ls term) = verify c key (ls.map parse) := by
  unfold verifyFile scanLines
  rw [fact_reader, fact_reader_loop.1, fact_reader_loop.2, scanLines_fileOf ls term hclean hlast]

/-- the same for several files read one after the other (`acra-log-verifier` with a list of rotated files):
one verifier run over the lines of all files in order; each file with or without its final `\n` -/
theorem files_verdict_is_lines_verdict (c : CryptoOps) (key : Bytes) (parse : Bytes → Line) (fs : List (List Bytes × Bool))
    (hclean : ∀ f ∈ fs, ∀ l ∈ f.1, (∀ x ∈ l, x ≠ 10) ∧ l.getLast? ≠ some 13)
    (hlast : ∀ f ∈ fs, f.2 = false → f.1.getLast? ≠ some []) :
    verifyFiles c key parse (fs.map fun f => fileOf f.1 f.2) = verify c key ((fs.flatMap fun f => f.1).map parse) := by
  unfold verifyFiles
  congr 2
  induction fs with
  | nil => rfl
  | cons f r ih =>
    simp only [List.map_cons, List.flatMap_cons]
    rw [ih (fun g hg => hclean g (List.mem_cons_of_mem _ hg)) (fun g hg => hlast g (List.mem_cons_of_mem _ hg))]
    congr 1
    unfold scanLines
    rw [fact_reader, fact_reader_loop.1, fact_reader_loop.2,
      scanLines_fileOf f.1 f.2 (hclean f List.mem_cons_self) (hlast f List.mem_cons_self)]

/-- the lines the plaintext hook writes, read by the plaintext parser, are the honest entries -/
theorem plaintext_lines_parse (c : CryptoOps) (key : Bytes) (items : List LItem) :
    (produceLines c key (Calc.new c key) items).map (parseLine .last false) = honestLines c key (items.map toPItem) := by
  have hmap : ∀ (its : List LItem) (st : Calc),
      (produceLines c key st its).map (parseLine .last false) =
        (produce c key st (its.map toPItem)).map Line.entry := by
    intro its
    induction its with
    | nil => intro st; rfl
    | cons it r ih =>
      intro st
      simp only [produceLines, appendIntegrity, List.map_cons, produce, toPItem]
      rw [render_parse_plain]
      congr 1
      exact ih _
  exact hmap items _

/-- the lines the plaintext hook writes contain no line feed and do not end in a carriage return (when the
formatter outputs contain no line feed – logrus escapes them) -/
theorem plaintext_lines_clean (c : CryptoOps) (key : Bytes) : ∀ (its : List LItem) (st : Calc),
    (∀ it ∈ its, ∀ x ∈ it.formatted, x ≠ 10) →
    ∀ l ∈ produceLines c key st its, (∀ x ∈ l, x ≠ 10) ∧ l.getLast? ≠ some 13 := by
  intro its
  induction its with
  | nil => intro st _ l hl; cases hl
  | cons it r ih =>
    intro st hf l hl
    simp only [produceLines, appendIntegrity, List.mem_cons] at hl
    rcases hl with rfl | hl
    · have := rendered_clean it.formatted (st.step c it.formatted).2.1 (st.step c it.formatted).2.2
        (hf it List.mem_cons_self)
      simpa [tagPart, List.append_assoc] using this
    · exact ih _ (fun x hx => hf x (List.mem_cons_of_mem _ hx)) l hl

/-- **Honest CEF logs verify, whatever the messages and fields contain** (for a hash with non-empty
output – true of SHA-256). -/
theorem honest_cef_verifies (c : CryptoOps) (key : Bytes) (items : List LItem)
    (hsha : ∀ m, c.sha256 m ≠ [])
    (hres : ∀ it ∈ items, it.resetAfter = true → isEndData it.formatted = true) :
    verify c key ((produceLines c key (Calc.new c key) items).map (parseLine .last true)) = .ok := by
  have hmap : ∀ (its : List LItem) (st : Calc),
      (produceLines c key st its).map (parseLine .last true) =
        (produce c key st (its.map toPItem)).map Line.entry := by
    intro its
    induction its with
    | nil => intro st; rfl
    | cons it r ih =>
      intro st
      simp only [produceLines, appendIntegrity, List.map_cons, produce, toPItem]
      rw [render_parse_cef _ _ _ (by simp only [Calc.step]; exact hsha _)]
      congr 1
      exact ih _
  have hent : ∀ es : List Entry, entriesOf (es.map Line.entry) = es := by
    intro es; induction es with
    | nil => rfl
    | cons e r ih => simp [entriesOf, ih]
  apply honest_verifies c key (items.map toPItem)
  · intro it hit
    obtain ⟨l, hl, rfl⟩ := List.mem_map.mp hit
    exact hres l hl
  · intro l hl
    rw [hmap] at hl
    obtain ⟨e, _, rfl⟩ := List.mem_map.mp hl
    simp
  · rw [hmap, hent]

/-! ### JSON -/

/-- what `render_parse_json_partial` assumes of a decoded formatter output `o` written in calculator state
`st`: it is a Go map (`Canonical`: the model's representation), keys are valid UTF-8 and values are strings
of valid UTF-8, number literals, booleans or `null` (`FlatObj` – whatever logrus' encoder made of the logged
values: invalid UTF-8 arrives as U+FFFD, `[]byte` as base64 text, errors as their text); and the registered
known findings are excluded: no key `integrity`, no key `chain` on the first entry of a chain
(`honest-fails:json:chain-starts-with-end-message` is the case `chain: end` there), no `chain: "new"`
elsewhere (`honest-fails:json:field-named-integrity-or-chain`). -/
structure JsonClass (st : Calc) (o : Obj) : Prop where
  canonical : Canonical o
  flat : FlatObj o
  noIntegrity : intKeyB ∉ keysOf o
  noChainAtStart : st.prev.isNone = true → chainKeyB ∉ keysOf o
  noChainNew : getKey chainKeyB o ≠ some (.str newValB)

/-- **Render/parse for the JSON format, given that decoding inverts encoding on the line at hand.** For ANY
decoded formatter output (nested arrays and objects included) outside the two known findings: if
`unmarshalLogEntry` reads the map the hook marshalled back as that map, then `ParseEntry` recovers exactly
the bytes the hook authenticated, the tag and the chain markers. -/
theorem render_parse_json_of_roundtrip (c : CryptoOps) (st : Calc) (o : Obj)
    (hint : intKeyB ∉ keysOf o) (hchain : st.prev.isNone = true → chainKeyB ∉ keysOf o)
    (hnew : getKey chainKeyB o ≠ some (.str newValB))
    (hrt : decodeTop (marshal (.obj (jsonHookMap c st o))) = some (some (jsonHookMap c st o))) :
    jsonParse (jsonHookObj c st o).2 =
      .entry ⟨conv o, (st.step c (conv o)).2.1, (st.step c (conv o)).2.2, jIsEnd o⟩ := by
  unfold jsonParse jsonHookObj
  simp only [marshal_obj_nonempty, Bool.false_eq_true, if_false, hrt]
  exact jsonParseObj_hookMap c st o hint hchain hnew

/-- **Render/parse for the JSON format, proved for scalar field values.** For every decoded formatter output
whose values are strings (ANY valid UTF-8: quotes, backslashes, control characters, `<`, `>`, `&`, U+2028/9,
line breaks, look-alike `integrity`/`chain` texts), number literals, booleans and `null`, and whose keys do
not collide with the hook's own keys (`JsonClass`), the line the hook writes is parsed back into exactly
the bytes the hook authenticated, the tag and the chain markers. No assumption on `encoding/json` is left:
encoder and decoder are modelled and `decodeTop_marshal` is proved.

`_partial`: values that are arrays or objects (slices, maps, structs passed as fields) are not covered by
the PROOF of `decodeTop (marshal m) = m` (for them the statement is `render_parse_json_of_roundtrip`, with
that equation as hypothesis; it is checked by correspondence on generated nested values).

Superseded by `render_parse_json` below, which proves the equation for nested values too (`AuditLog/JsonNested.lean`);
kept because `honest_json_verifies` and the scalar class `JsonClass` are referred to elsewhere. -/
theorem render_parse_json_partial (c : CryptoOps) (st : Calc) (o : Obj) (h : JsonClass st o) :
    jsonParse (jsonHookObj c st o).2 =
      .entry ⟨conv o, (st.step c (conv o)).2.1, (st.step c (conv o)).2.2, jIsEnd o⟩ := by
  obtain ⟨hc, hf⟩ := hookMap_class c st o h.canonical h.flat
  exact render_parse_json_of_roundtrip c st o h.noIntegrity h.noChainAtStart h.noChainNew
    (decodeTop_marshal _ hc hf)

/-- every entry of a history is in the class, in the calculator state it is written in -/
def JsonHonest (c : CryptoOps) (key : Bytes) : Calc → List JItem → Prop
  | _, [] => True
  | st, it :: r => JsonClass st it.fields ∧
    JsonHonest c key (if it.resetAfter then Calc.new c key else (st.step c (conv it.fields)).1) r

/-- the entry-level view of a JSON history -/
def toPItemJ (it : JItem) : PItem := ⟨conv it.fields, jIsEnd it.fields, it.resetAfter⟩

/-- **Honest JSON logs verify, whatever the messages and scalar fields contain.** The lines written by the
JSON hook for any sequence of decoded formatter outputs of the class and chain restarts (restarts after
end-of-chain entries), read back with the JSON parser, verify under the same key. -/
theorem honest_json_verifies (c : CryptoOps) (key : Bytes) (items : List JItem)
    (hcls : JsonHonest c key (Calc.new c key) items)
    (hres : ∀ it ∈ items, it.resetAfter = true → jIsEnd it.fields = true) :
    verify c key ((produceJson c key (Calc.new c key) items).map jsonParse) = .ok := by
  have hmap : ∀ (its : List JItem) (st : Calc), JsonHonest c key st its →
      (produceJson c key st its).map jsonParse = (produce c key st (its.map toPItemJ)).map Line.entry := by
    intro its
    induction its with
    | nil => intro st _; rfl
    | cons it r ih =>
      intro st hh
      obtain ⟨h1, h2⟩ := hh
      simp only [produceJson, List.map_cons, produce, toPItemJ]
      rw [render_parse_json_partial c st it.fields h1]
      congr 1
      exact ih _ h2
  have hent : ∀ es : List Entry, entriesOf (es.map Line.entry) = es := by
    intro es; induction es with
    | nil => rfl
    | cons e r ih => simp [entriesOf, ih]
  apply honest_verifies c key (items.map toPItemJ)
  · intro it hit
    obtain ⟨l, hl, rfl⟩ := List.mem_map.mp hit
    exact hres l hl
  · intro l hl
    rw [hmap items _ hcls] at hl
    obtain ⟨e, _, rfl⟩ := List.mem_map.mp hl
    simp
  · rw [hmap items _ hcls, hent]

/-! #### JSON with nested values (arrays and objects as field values, to any depth) -/

/-- the class of `render_parse_json`: like `JsonClass`, with field values that may be arrays and objects nested to any
depth (`GoodObj`: valid UTF-8 keys; values: strings of valid UTF-8, number literals – readable also as array elements –,
booleans, `null`, arrays of such values, key-sorted objects of such values). The two registered known findings stay
excluded. -/
structure JsonClassN (st : Calc) (o : Obj) : Prop where
  canonical : Canonical o
  good : GoodObj o
  noIntegrity : intKeyB ∉ keysOf o
  noChainAtStart : st.prev.isNone = true → chainKeyB ∉ keysOf o
  noChainNew : getKey chainKeyB o ≠ some (.str newValB)

/-- **`unmarshalLogEntry ∘ json.Marshal = id` for nested values** – the hypothesis of `render_parse_json_of_roundtrip`,
now proved for arrays and objects as values (by recursion over the value; the decoder's fuel, the length of the line,
always suffices). -/
theorem decode_marshal_nested (o : Obj) (hc : Canonical o) (hg : GoodObj o) :
    decodeTop (marshal (.obj o)) = some (some o) :=
  decodeTop_marshal_nested o hc hg

/-- **Render/parse for the JSON format, nested values included.** For every decoded formatter output whose values are
strings, number literals, booleans, `null`, or arrays/objects of such values nested to any depth, and whose keys do not
collide with the hook's own keys, the line the hook writes is parsed back into exactly the bytes the hook authenticated,
the tag and the chain markers. (This removes the `_partial` of `render_parse_json_partial`: what stays outside is the
encoder's nesting limit of 10000 and values logrus itself could not encode.) -/
theorem render_parse_json (c : CryptoOps) (st : Calc) (o : Obj) (h : JsonClassN st o) :
    jsonParse (jsonHookObj c st o).2 =
      .entry ⟨conv o, (st.step c (conv o)).2.1, (st.step c (conv o)).2.2, jIsEnd o⟩ := by
  obtain ⟨hc, hg⟩ := hookMap_classN c st o h.canonical h.good
  exact render_parse_json_of_roundtrip c st o h.noIntegrity h.noChainAtStart h.noChainNew
    (decodeTop_marshal_nested _ hc hg)

/-- every entry of a history is in the nested class, in the calculator state it is written in -/
def JsonHonestN (c : CryptoOps) (key : Bytes) : Calc → List JItem → Prop
  | _, [] => True
  | st, it :: r => JsonClassN st it.fields ∧
    JsonHonestN c key (if it.resetAfter then Calc.new c key else (st.step c (conv it.fields)).1) r

/-- **Honest JSON logs verify, nested field values included.** -/
theorem honest_json_verifies_nested (c : CryptoOps) (key : Bytes) (items : List JItem)
    (hcls : JsonHonestN c key (Calc.new c key) items)
    (hres : ∀ it ∈ items, it.resetAfter = true → jIsEnd it.fields = true) :
    verify c key ((produceJson c key (Calc.new c key) items).map jsonParse) = .ok := by
  have hmap : ∀ (its : List JItem) (st : Calc), JsonHonestN c key st its →
      (produceJson c key st its).map jsonParse = (produce c key st (its.map toPItemJ)).map Line.entry := by
    intro its
    induction its with
    | nil => intro st _; rfl
    | cons it r ih =>
      intro st hh
      obtain ⟨h1, h2⟩ := hh
      simp only [produceJson, List.map_cons, produce, toPItemJ]
      rw [render_parse_json c st it.fields h1]
      congr 1
      exact ih _ h2
  have hent : ∀ es : List Entry, entriesOf (es.map Line.entry) = es := by
    intro es; induction es with
    | nil => rfl
    | cons e r ih => simp [entriesOf, ih]
  apply honest_verifies c key (items.map toPItemJ)
  · intro it hit
    obtain ⟨l, hl, rfl⟩ := List.mem_map.mp hit
    exact hres l hl
  · intro l hl
    rw [hmap items _ hcls] at hl
    obtain ⟨e, _, rfl⟩ := List.mem_map.mp hl
    simp
  · rw [hmap items _ hcls, hent]

/-- **Known finding `honest-fails:json:field-named-integrity-or-chain`, as a theorem about the model.** A
user field named `integrity` is overwritten by the hook's tag: what the parser authenticates then lacks the
field the hook authenticated. (Map with the single user field `integrity: "x"`, mid-chain.) -/
theorem json_integrity_field_counterexample (c : CryptoOps) (st : Calc) (hmid : st.prev.isNone = false) :
    ∃ d tag, jsonParseObj false (jsonHookMap c st [(intKeyB, .str [0x78])]) = .entry ⟨d, tag, false, false⟩ ∧
      d ≠ conv [(intKeyB, .str [0x78])] := by
  refine ⟨[], (st.step c (conv [(intKeyB, .str [0x78])])).2.1, ?_, by decide⟩
  have hflag : (st.step c (conv [(intKeyB, JVal.str [0x78])])).2.2 = false := hmid
  unfold jsonHookMap
  simp only [hflag, Bool.false_eq_true, if_false, setKey, if_true]
  unfold jsonParseObj
  simp [getKey, hexDec_hexEnc, eraseKey, convWith]

/-- **Known finding `edit-undetected:json:duplicate-key-shadowed`, as a theorem about the decoder.** A member
put in front of the members of an object literal has no effect on the decoded map when its key occurs
again later (the last duplicate wins) – hence none on what `ParseEntry` returns: the line can be extended
that way without verification failing. -/
theorem duplicate_key_shadow_undetected_counterexample (k : Bytes) (v : JVal) (members : List (Bytes × JVal))
    (h : hasKey k (normalize members) = true) : normalize ((k, v) :: members) = normalize members := by
  simp [normalize, h]

/-- **The defect of the pinned tree (§8 #11), kept as a theorem about the old cutting rule.** With
`strings.Split` + `len != 2` an honest line whose entry contains the split token is not recognised
as protected at all. -/
theorem render_parse_split2_counterexample :
    parseLine .split2 false (strB "msg=\"a integrity=1\"" ++ splitTok ++ hexEnc [0xab] ++ []) = .skip := by decide

/-! ## alterations are detected -/

/-! `entryAt c st d isEnd` (the honest entry for data `d` written in calculator state `st`) and
`NoCollision c a x b y` (collision freedom on the two values at hand: the HMAC values of calculator states
`a`, `b` on data `x`, `y` do not collide under SHA-256, and the two HMAC inputs do not collide under HMAC)
are defined in `AuditLog/ChainAlter.lean`, together with `honestLines c key items` (the log of an honest
history), `pstate c key items` (the producer's calculator after it) and `vcal c key items` (the
calculator the *verifier* holds after it: the producer's when mid-chain – `vcal_of_mid` –, the fresh
one at the start of the log – `vcal_nil` –, and after the last entry of a chain that chain's calculator
one step on – `vcal_snoc` –, because the verifier restarts only when it sees `chain=new`). -/

/-- **Tamper, general form.** After any honest prefix (with restarts), a line that is not marked as a
chain start and whose tag was made in calculator state `st'` for data `d'` is rejected at its position
whenever its authenticated bytes or the chain position differ from what the tag was made for –
given no collision on the two values at hand. All concrete alterations below are instances. -/
theorem foreign_entry_detected (c : CryptoOps) (key : Bytes) (pre : List PItem) (e : Entry) (rest : List Line)
    (st' : Calc) (d' : Bytes)
    (hres : ∀ it ∈ pre, it.resetAfter = true → it.isEnd = true)
    (hmid : (stateAfter c key (Calc.new c key) pre).prev.isSome)
    (hnew : e.isNew = false) (htag : e.tag = tagOf c st' d')
    (hnc : NoCollision c (stateAfter c key (Calc.new c key) pre) e.data st' d')
    (hdiff : (stateAfter c key (Calc.new c key) pre).key ≠ st'.key ∨
      e.data ++ (stateAfter c key (Calc.new c key) pre).prev.getD [] ≠ d' ++ st'.prev.getD []) :
    verify c key ((produce c key (Calc.new c key) pre).map Line.entry ++ Line.entry e :: rest) =
      .fail pre.length .mismatch := by
  obtain ⟨hstep, hv⟩ := verifyFrom_honest_prefix c key pre (Calc.new c key) (VState.init c key) 0 (Line.entry e :: rest)
    (inStep_init c key) hres
  have hcal := hstep.cal_eq hmid
  unfold verify
  rw [hv]
  simp only [verifyFrom, Nat.zero_add]
  have := entry_foreign_fails (d' := d') c key (vsRun c key (Calc.new c key) (VState.init c key) pre) st' e hnew htag
    (by rw [hcal]; exact hnc.sha) (by rw [hcal]; exact hnc.mac) (by rw [hcal]; exact hdiff)
  rw [this]

/-- **Tamper, general form at EVERY position** (first entry of the log, first or last entry of a later
chain, mid-chain). After any honest history `pre` (with restarts) a line that is not marked as a chain
start and whose tag was made in calculator state `st'` for data `d'` is rejected at its position whenever
the calculator the verifier holds there (`vcal`) differs from `st'` in the key or in the HMAC input –
given no collision on the two values at hand. -/
theorem foreign_entry_detected_at (c : CryptoOps) (key : Bytes) (pre : List PItem) (e : Entry) (rest : List Line)
    (st' : Calc) (d' : Bytes)
    (hres : ∀ it ∈ pre, it.resetAfter = true → it.isEnd = true)
    (hnew : e.isNew = false) (htag : e.tag = tagOf c st' d')
    (hnc : NoCollision c (vcal c key pre) e.data st' d')
    (hdiff : (vcal c key pre).key ≠ st'.key ∨ e.data ++ (vcal c key pre).prev.getD [] ≠ d' ++ st'.prev.getD []) :
    verify c key (honestLines c key pre ++ Line.entry e :: rest) = .fail pre.length .mismatch := by
  rw [verify_prefix_entry c key pre e rest hres,
    entry_old_foreign c key (vstate c key pre) st' d' e hnew htag hnc hdiff]

/-- **A single-entry edit is detected at the edited entry, at EVERY position**: same tag and chain-start
marker, other content (the end-of-chain marker, which both text formats derive from the content, may
change with it: `e'` is arbitrary). No exclusion: first and last entries of the log and of every chain
are covered. -/
theorem edit_detected (c : CryptoOps) (key : Bytes) (pre : List PItem) (a : PItem) (d' : Bytes) (e' : Bool) (rest : List Line)
    (hres : ∀ it ∈ pre, it.resetAfter = true → it.isEnd = true)
    (hd : d' ≠ a.data)
    (hnc : NoCollision c (pstate c key pre) d' (pstate c key pre) a.data) :
    verify c key (honestLines c key pre ++
        Line.entry { entryAt c (pstate c key pre) a.data e' with data := d' } :: rest) =
      .fail pre.length .mismatch := by
  rw [verify_prefix_entry c key pre _ rest hres,
    entry_inStep_eval c key (pstate c key pre) (vstate c key pre) _ (vstate_inStep c key pre hres) rfl]
  have hne : tagOf c (pstate c key pre) a.data ≠ tagOf c (pstate c key pre) d' := by
    intro h
    exact hd (List.append_cancel_right (hnc.tag_inj h.symm).2)
  simp [entryAt, hne]

/-- a value whose JSON text does not start with a quote: everything but a string (numbers as the decoder
produces them start with `-` or a digit) -/
def NotStringLike (v : JVal) : Prop := ∃ ch r, marshal v = ch :: r ∧ ch ≠ 0x22

/-- **JSON: changing the TYPE of a value without changing its characters changes the authenticated bytes**
(`"3"` ↔ `3`, `"true"` ↔ `true`, `"null"` ↔ `null`): `getBytes` is `json.Marshal`, whose output for a
string starts with a quote and for nothing else. This is what seeded change C20-1 broke. -/
theorem json_retype_changes_bytes (k s : Bytes) (v : JVal) (o : Obj) (hv : NotStringLike v) :
    conv (setKey k (.str s) o) ≠ conv (setKey k v o) := by
  intro e
  have := (convWith_setKey_inj false k o (.str s) v).mp e
  obtain ⟨ch, r, hm, hne⟩ := hv
  simp only [getBytes] at this
  rw [hm] at this
  simp only [marshal, encStr, List.cons_append, List.nil_append] at this
  exact hne (List.cons.inj this).1.symm

/-- **JSON: a re-typed value is detected at the edited entry, at every position** (tag and markers kept,
the value of one key changed from the string `s` to any non-string `v` – same characters or not). -/
theorem json_retype_detected (c : CryptoOps) (key : Bytes) (pre : List PItem) (k s : Bytes) (v : JVal) (o : Obj)
    (isEnd e' reset : Bool) (rest : List Line)
    (hres : ∀ it ∈ pre, it.resetAfter = true → it.isEnd = true)
    (hv : NotStringLike v)
    (hnc : NoCollision c (pstate c key pre) (conv (setKey k v o)) (pstate c key pre) (conv (setKey k (.str s) o))) :
    verify c key (honestLines c key pre ++
        Line.entry { entryAt c (pstate c key pre) (conv (setKey k (.str s) o)) e' with data := conv (setKey k v o) } :: rest) =
      .fail pre.length .mismatch :=
  edit_detected c key pre ⟨conv (setKey k (.str s) o), isEnd, reset⟩ (conv (setKey k v o)) e' rest hres
    (fun e => json_retype_changes_bytes k s v o hv e.symm) hnc

/-- **JSON: any change of a number literal changes the authenticated bytes** (repair 51: the literal is
authenticated as written, not its `float64` value): `9007199254740993` ≠ `9007199254740992`, `0.1` ≠ `0.10`. -/
theorem json_number_edit_changes_bytes (k l l' : Bytes) (o : Obj) (hl : l ≠ []) (hl' : l' ≠ []) (hne : l ≠ l') :
    conv (setKey k (.num l) o) ≠ conv (setKey k (.num l') o) := by
  intro e
  have := (convWith_setKey_inj false k o (.num l) (.num l')).mp e
  have h1 : l.isEmpty = false := by cases l <;> simp_all
  have h2 : l'.isEmpty = false := by cases l' <;> simp_all
  simp [getBytes, marshal, h1, h2] at this
  exact hne this

/-- **Seeded change C20-1 as a theorem: with a raw-bytes fast path for strings in `getBytes` re-typing is
NOT detected.** Under that variant of `getBytes` the string `s` and the number literal `s` give the same
authenticated bytes, for every key and every map. `fact_getBytes` is what excludes the variant. -/
theorem retype_undetected_with_string_fast_path_counterexample (k s : Bytes) (o : Obj) (hs : s ≠ []) :
    convWith true (setKey k (.str s) o) = convWith true (setKey k (.num s) o) := by
  rw [convWith_setKey_inj]
  have h1 : s.isEmpty = false := by cases s <;> simp_all
  simp [getBytes, marshal, h1]

/-- **Removing an entry that is followed by another entry of its chain is detected at that next entry,
wherever the removed entry stands** (mid-chain, first entry of the log, first entry of a later chain).
`a` is the removed entry, `b` the one that follows in the same chain. Hypothesis `hratchet`: the key the
verifier holds at the position differs from the key `b`'s tag was made with (one ratchet step after `a`).
Mid-chain and at the start of the log the verifier holds the producer's calculator, so this is
`SHA256(k) ≠ k` for the key at hand (`delete_detected_mid`, `delete_first_of_log_detected`); for the first
entry of a later chain the verifier still holds the previous chain's calculator one step on, so it reads
`SHA256ⁿ⁺¹(key) ≠ SHA256²(key)` for a previous chain of `n` entries – true for a ratchet that does not
cycle **unless `n = 1`**. Excluded therefore: the first entry of a chain that directly follows a
single-entry chain (known finding `single-entry-chain-replay`, `delete_after_single_entry_chain_counterexample`).
Removing the *last* entry of a chain: `delete_chain_end_detected`; of the log: `truncation_allowed`. -/
theorem delete_detected (c : CryptoOps) (key : Bytes) (pre : List PItem) (a b : PItem) (rest : List Line)
    (hres : ∀ it ∈ pre, it.resetAfter = true → it.isEnd = true)
    (hratchet : (vcal c key pre).key ≠ c.sha256 (pstate c key pre).key)
    (hnc : NoCollision c (vcal c key pre) b.data ((pstate c key pre).step c a.data).1 b.data) :
    verify c key (honestLines c key pre ++
        Line.entry (entryAt c ((pstate c key pre).step c a.data).1 b.data b.isEnd) :: rest) =
      .fail pre.length .mismatch := by
  apply foreign_entry_detected_at c key pre _ rest ((pstate c key pre).step c a.data).1 b.data hres
  · simp [entryAt, Calc.step]
  · rfl
  · exact hnc
  · left; simpa [Calc.step] using hratchet

/-- `delete_detected` mid-chain, in the form it had before it was generalised -/
theorem delete_detected_mid (c : CryptoOps) (key : Bytes) (pre : List PItem) (a b : PItem) (rest : List Line)
    (hres : ∀ it ∈ pre, it.resetAfter = true → it.isEnd = true)
    (hmid : (stateAfter c key (Calc.new c key) pre).prev.isSome)
    (hratchet : c.sha256 (stateAfter c key (Calc.new c key) pre).key ≠ (stateAfter c key (Calc.new c key) pre).key)
    (hnc : NoCollision c (stateAfter c key (Calc.new c key) pre) b.data
      ((stateAfter c key (Calc.new c key) pre).step c a.data).1 b.data) :
    verify c key ((produce c key (Calc.new c key) pre).map Line.entry ++
        Line.entry (entryAt c ((stateAfter c key (Calc.new c key) pre).step c a.data).1 b.data b.isEnd) :: rest) =
      .fail pre.length .mismatch := by
  have hv := vcal_of_mid c key pre hres hmid
  exact delete_detected c key pre a b rest hres (by rw [hv]; exact Ne.symm hratchet) (by rw [hv]; exact hnc)

/-- removing the very first entry of the log (followed by an entry of its chain) is detected at position 0 -/
theorem delete_first_of_log_detected (c : CryptoOps) (key : Bytes) (a b : PItem) (rest : List Line)
    (hratchet : c.sha256 (c.sha256 key) ≠ c.sha256 key)
    (hnc : NoCollision c (Calc.new c key) b.data (((Calc.new c key)).step c a.data).1 b.data) :
    verify c key (Line.entry (entryAt c ((Calc.new c key).step c a.data).1 b.data b.isEnd) :: rest) =
      .fail 0 .mismatch :=
  delete_detected c key [] a b rest (by intro it h; cases h) (by simpa [vcal_nil, pstate, stateAfter, Calc.new] using Ne.symm hratchet) hnc

/-- **Removing the last entry of a chain of two or more entries is detected** at the next line, the first
entry of the following chain (any entry marked `chain=new`): the verifier reports the missing
end-of-chain, because the entry `z` before the removed one is not an end-of-chain entry. -/
theorem delete_chain_end_detected (c : CryptoOps) (key : Bytes) (pre : List PItem) (z : PItem) (rest : List Line)
    (e : Entry) (hres : ∀ it ∈ pre ++ [z], it.resetAfter = true → it.isEnd = true)
    (hnew : e.isNew = true) (hz : z.isEnd = false) :
    verify c key (honestLines c key (pre ++ [z]) ++ Line.entry e :: rest) = .fail (pre.length + 1) .missingEnd := by
  rw [verify_prefix_entry c key (pre ++ [z]) e rest hres, entry_new c key _ e hnew, vlast_snoc, hz]
  simp

/-- **Known finding `single-entry-chain-replay`, deletion form (1).** A chain that consists of one entry
(first and end-of-chain at once) can be removed as a whole: what remains is the honest log of the history
without that entry. -/
theorem delete_single_entry_chain_counterexample (c : CryptoOps) (key : Bytes) (pre post : List PItem) (a : PItem)
    (hres : ∀ it ∈ pre ++ post, it.resetAfter = true → it.isEnd = true)
    (hstart : pstate c key pre = Calc.new c key) (ha : a.resetAfter = true) :
    -- the honest log of `pre ++ a :: post` with `a`'s line removed …
    honestLines c key pre ++ (produce c key (pstate c key (pre ++ [a])) post).map Line.entry =
      honestLines c key (pre ++ post) ∧
    -- … verifies
    verify c key (honestLines c key (pre ++ post)) = .ok := by
  constructor
  · rw [honestLines_append, pstate_snoc, hstart]
    simp [nextCalc, ha]
  · have hent : ∀ es : List Entry, entriesOf (es.map Line.entry) = es := by
      intro es; induction es with
      | nil => rfl
      | cons e r ih => simp [entriesOf, ih]
    exact honest_verifies c key (pre ++ post) _ hres
      (by intro l hl; obtain ⟨e, _, rfl⟩ := List.mem_map.mp hl; simp) (hent _)

/-- **Known finding `single-entry-chain-replay`, deletion form (2): the position excluded from
`delete_detected`.** History: a single-entry chain with content `d`, then a chain whose first entry has
the same content `d` and is followed by `b`. Removing that first entry is not detected: `b` verifies
against the calculator the verifier still holds from the single-entry chain. For every key and every
crypto instance. -/
theorem delete_after_single_entry_chain_counterexample (c : CryptoOps) (key d db : Bytes) (eb : Bool) :
    verify c key [.entry (entryAt c (Calc.new c key) d true),
                  .entry (entryAt c ((Calc.new c key).step c d).1 db eb)] = .ok := by
  simp [verify, verifyFrom, VState.entry, VState.init, entryAt, Calc.new, Calc.step, tagOf, Calc.ic]

/-- **Exchanging two neighbouring entries is detected at the first of them** (the line that now comes
first carries a tag made one ratchet step later). Mid-chain form; `swap_detected` covers every pair of
positions of a chain. -/
theorem swap_adjacent_detected (c : CryptoOps) (key : Bytes) (pre : List PItem) (a b : PItem) (rest : List Line)
    (hres : ∀ it ∈ pre, it.resetAfter = true → it.isEnd = true)
    (hmid : (stateAfter c key (Calc.new c key) pre).prev.isSome)
    (hratchet : c.sha256 (stateAfter c key (Calc.new c key) pre).key ≠ (stateAfter c key (Calc.new c key) pre).key)
    (hnc : NoCollision c (stateAfter c key (Calc.new c key) pre) b.data
      ((stateAfter c key (Calc.new c key) pre).step c a.data).1 b.data) :
    verify c key ((produce c key (Calc.new c key) pre).map Line.entry ++
        Line.entry (entryAt c ((stateAfter c key (Calc.new c key) pre).step c a.data).1 b.data b.isEnd) ::
        Line.entry (entryAt c (stateAfter c key (Calc.new c key) pre) a.data a.isEnd) :: rest) =
      .fail pre.length .mismatch :=
  delete_detected_mid c key pre a b _ hres hmid hratchet hnc

/-- **Exchanging two entries at ARBITRARY positions `i < j` of one chain is detected at position `i` or at
the next entry after it.** History `pre ++ a :: mid ++ b :: …` with `a` (position `i = pre.length`), `mid`
and `b` (position `j`) in one chain; in the altered log `b`'s line stands at `i` and `a`'s line at `j`
(whatever follows is arbitrary). Hypotheses, all about the finitely many values at hand: the ratchet keys
of positions `i`, `j` differ, and so do the keys one step on (`hk2`, only needed when there is an entry
between them); no collision between `b`'s tag and what the verifier computes at `i`, nor between the tag
of the entry after `a` and what the verifier computes at `i+1`.

Excluded (`hexcl`): `j = i+1`, `i` is the first entry of a chain, the verifier's key there equals `b`'s
key – for a ratchet that does not cycle this means that the chain before it has exactly ONE entry – and
`b` is an end-of-chain entry. That is the known finding `single-entry-chain-replay`
(`swap_after_single_entry_chain_counterexample`). -/
theorem swap_detected (c : CryptoOps) (key : Bytes) (pre : List PItem) (a : PItem) (mid : List PItem) (b : PItem)
    (rest : List Line)
    (hres : ∀ it ∈ pre, it.resetAfter = true → it.isEnd = true)
    (ha : a.resetAfter = false) (hmidc : ∀ m ∈ mid, m.resetAfter = false)
    (hk1 : (pstate c key pre).key ≠ (pstate c key (pre ++ a :: mid)).key)
    (hk2 : mid ≠ [] → c.sha256 (pstate c key pre).key ≠ c.sha256 (pstate c key (pre ++ a :: mid)).key)
    (hnc1 : NoCollision c (vcal c key pre) b.data (pstate c key (pre ++ a :: mid)) b.data)
    (hnc2 : ∀ m ∈ mid.head?, NoCollision c ((vcal c key pre).step c b.data).1 m.data
      ((pstate c key pre).step c a.data).1 m.data)
    (hexcl : mid = [] → (pstate c key pre).prev.isNone →
      (vcal c key pre).key = (pstate c key (pre ++ a :: mid)).key → b.isEnd = false) :
    ∃ k kind, verify c key (honestLines c key pre ++
        Line.entry (entryAt c (pstate c key (pre ++ a :: mid)) b.data b.isEnd) ::
        ((produce c key ((pstate c key pre).step c a.data).1 mid).map Line.entry ++
          Line.entry (entryAt c (pstate c key pre) a.data a.isEnd) :: rest)) = .fail k kind ∧
      pre.length ≤ k ∧ k ≤ pre.length + 1 := by
  have hjs := pstate_chain_prev_some c key pre a mid ha hmidc
  have hbnew : (entryAt c (pstate c key (pre ++ a :: mid)) b.data b.isEnd).isNew = false :=
    entryAt_isNew_false c _ _ _ hjs
  rw [verify_prefix_entry c key pre _ _ hres, entry_old c key _ _ hbnew]
  by_cases ht : (entryAt c (pstate c key (pre ++ a :: mid)) b.data b.isEnd).tag =
      tagOf c (vstate c key pre).cal (entryAt c (pstate c key (pre ++ a :: mid)) b.data b.isEnd).data
  · -- accepted at `i`: the verifier's key there is `b`'s key
    rw [if_pos ht]
    have hkey : (vcal c key pre).key = (pstate c key (pre ++ a :: mid)).key := (hnc1.tag_inj ht.symm).1
    rcases pstate_cases c key pre with hmid | hstart
    · exact absurd (by rw [← vcal_of_mid c key pre hres hmid]; exact hkey) hk1
    · refine ⟨pre.length + 1, ?_⟩
      cases mid with
      | nil =>
        have hend := hexcl rfl (by rw [hstart]; rfl) hkey
        have hanew : (entryAt c (pstate c key pre) a.data a.isEnd).isNew = true := by rw [hstart]; rfl
        refine ⟨.missingEnd, ?_, by omega, by omega⟩
        simp only [produce, List.map_nil, List.nil_append, verifyFrom]
        rw [entry_new c key _ _ hanew]
        simp [entryAt, hend]
      | cons m mid' =>
        refine ⟨.mismatch, ?_, by omega, by omega⟩
        rw [produce_cons]
        simp only [List.map_cons, List.cons_append, verifyFrom]
        rw [entry_old_foreign c key _ ((pstate c key pre).step c a.data).1 m.data _ (by simp [entryAt, Calc.step]) rfl
          (hnc2 m (by simp)) (Or.inl ?_)]
        have := hk2 (by simp)
        show c.sha256 (vcal c key pre).key ≠ c.sha256 (pstate c key pre).key
        rw [hkey]; exact Ne.symm this
  · rw [if_neg ht]
    exact ⟨pre.length, .mismatch, rfl, by omega, by omega⟩

/-- `swap_detected` when `i` is mid-chain or the first entry of the log: detection exactly at `i`, no
exclusion (the verifier holds the producer's calculator there). -/
theorem swap_detected_at_i (c : CryptoOps) (key : Bytes) (pre : List PItem) (a : PItem) (mid : List PItem) (b : PItem)
    (rest : List Line)
    (hres : ∀ it ∈ pre, it.resetAfter = true → it.isEnd = true)
    (hpos : (pstate c key pre).prev.isSome ∨ pre = [])
    (ha : a.resetAfter = false) (hmidc : ∀ m ∈ mid, m.resetAfter = false)
    (hk1 : (pstate c key pre).key ≠ (pstate c key (pre ++ a :: mid)).key)
    (hnc1 : NoCollision c (pstate c key pre) b.data (pstate c key (pre ++ a :: mid)) b.data) :
    verify c key (honestLines c key pre ++
        Line.entry (entryAt c (pstate c key (pre ++ a :: mid)) b.data b.isEnd) :: rest) = .fail pre.length .mismatch := by
  have hv : vcal c key pre = pstate c key pre := by
    rcases hpos with h | rfl
    · exact vcal_of_mid c key pre hres h
    · rfl
  have hjs := pstate_chain_prev_some c key pre a mid ha hmidc
  apply foreign_entry_detected_at c key pre _ rest (pstate c key (pre ++ a :: mid)) b.data hres
  · exact entryAt_isNew_false c _ _ _ hjs
  · rfl
  · rw [hv]; exact hnc1
  · left; rw [hv]; exact hk1

/-- **Known finding `single-entry-chain-replay`, swap form: the position excluded from `swap_detected`.**
History: a single-entry chain with content `d`; then a chain whose first entry has the same content `d`
and whose second entry `b` is an end-of-chain entry. Exchanging these two entries is not detected. -/
theorem swap_after_single_entry_chain_counterexample (c : CryptoOps) (key d db : Bytes) (ea : Bool) :
    verify c key [.entry (entryAt c (Calc.new c key) d true),
                  .entry (entryAt c ((Calc.new c key).step c d).1 db true),
                  .entry (entryAt c (Calc.new c key) d ea)] = .ok := by
  simp [verify, verifyFrom, VState.entry, VState.init, entryAt, Calc.new, Calc.step, tagOf, Calc.ic]

/-- what `reorder_detected` assumes about the finitely many values at hand: for every position (after
`x`) of the chain segment and every entry `b` standing later in it, the key the verifier holds at that
position differs from the key `b`'s tag was made with, and there is no collision between `b`'s tag and
what the verifier computes for `b`'s content at that position. (Inside a chain and at the start of the log
the first part says that the ratchet does not return to an earlier key; at the first entry of a later
chain it excludes that the previous chain has as many entries as lie before `b` in this one – for one
entry that is the known finding `single-entry-chain-replay`, for more it is the replay of a complete
chain, which the statement does not claim to detect.) -/
def ReorderHyp (c : CryptoOps) (key : Bytes) (pre seg : List PItem) : Prop :=
  ∀ (x : List PItem) (a : PItem) (z : List PItem) (b : PItem) (w : List PItem), seg = x ++ a :: (z ++ b :: w) →
    (vcal c key (pre ++ x)).key ≠ (pstate c key (pre ++ x ++ a :: z)).key ∧
    NoCollision c (vcal c key (pre ++ x)) b.data (pstate c key (pre ++ x ++ a :: z)) b.data

/-- **Any reordering of the entries of a chain is detected at the first displaced entry.** `seg` is a
run of entries of one chain after any honest history `pre`; `seg'` is an ARBITRARY permutation of its log
lines other than the identity. Verification fails exactly at the first position where `seg'` differs from
the honest order (so: no later than the first displaced entry's successor), whatever follows. -/
theorem reorder_detected (c : CryptoOps) (key : Bytes) (pre seg : List PItem) (seg' : List Entry) (rest : List Line)
    (hres : ∀ it ∈ pre, it.resetAfter = true → it.isEnd = true)
    (hchain : ∀ m ∈ seg, m.resetAfter = false)
    (hperm : seg'.Perm (produce c key (pstate c key pre) seg))
    (hne : seg' ≠ produce c key (pstate c key pre) seg)
    (hyp : ReorderHyp c key pre seg) :
    ∃ (x : List PItem) (a : PItem) (y : List PItem) (e' : Entry) (r' : List Entry),
      seg = x ++ a :: y ∧ seg' = produce c key (pstate c key pre) x ++ e' :: r' ∧
      e' ≠ entryAt c (pstate c key (pre ++ x)) a.data a.isEnd ∧
      verify c key (honestLines c key pre ++ seg'.map Line.entry ++ rest) = .fail (pre.length + x.length) .mismatch := by
  obtain ⟨common, e, e', r, r', h1, h2, h3, h4⟩ := perm_first_diff _ _ hperm hne
  obtain ⟨x, a, y, hs, hc, he, hr⟩ := produce_split c key common seg _ e r h1
  rw [hr] at h4
  obtain ⟨z, b, w, hy, hb⟩ := mem_produce c key y _ e' h4
  have hax : a.resetAfter = false := hchain a (by rw [hs]; simp)
  have hzc : ∀ m ∈ z, m.resetAfter = false := fun m hm => hchain m (by rw [hs, hy]; simp [hm])
  have hst : stateAfter c key (nextCalc c key (stateAfter c key (pstate c key pre) x) a) z = pstate c key (pre ++ x ++ a :: z) := by
    rw [pstate_append, pstate_append]; rfl
  rw [hst] at hb
  have hpx : stateAfter c key (pstate c key pre) x = pstate c key (pre ++ x) := (pstate_append c key pre x).symm
  rw [hpx] at he
  refine ⟨x, a, y, e', r', hs, by rw [h2, hc], by rw [← he]; exact h3, ?_⟩
  obtain ⟨hk, hnc⟩ := hyp x a z b w (by rw [hs, hy])
  have hresx : ∀ it ∈ pre ++ x, it.resetAfter = true → it.isEnd = true := by
    intro it hit hra
    rcases List.mem_append.mp hit with h | h
    · exact hres it h hra
    · have := hchain it (by rw [hs]; simp [h])
      rw [this] at hra; cases hra
  have hjs := pstate_chain_prev_some c key (pre ++ x) a z hax hzc
  have hlog : honestLines c key pre ++ seg'.map Line.entry ++ rest =
      honestLines c key (pre ++ x) ++ Line.entry e' :: (r'.map Line.entry ++ rest) := by
    rw [h2, hc, honestLines_append]
    simp [List.append_assoc]
  rw [hlog, ← List.length_append]
  apply foreign_entry_detected_at c key (pre ++ x) e' _ (pstate c key (pre ++ x ++ a :: z)) b.data hresx
  · rw [hb]; exact entryAt_isNew_false c _ _ _ hjs
  · rw [hb]; rfl
  · rw [hb]; exact hnc
  · left; exact hk

/-- **The same for a WHOLE chain including its last entry**, after which the producer restarts: the log
lines do not depend on the restart flag of the last item, so `reorder_detected` applies to the run with
that flag cleared. The first displaced position is reported as an offset `n` into the chain. -/
theorem reorder_chain_detected (c : CryptoOps) (key : Bytes) (pre init : List PItem) (l : PItem) (seg' : List Entry) (rest : List Line)
    (hres : ∀ it ∈ pre, it.resetAfter = true → it.isEnd = true)
    (hchain : ∀ m ∈ init, m.resetAfter = false)
    (hperm : seg'.Perm (produce c key (pstate c key pre) (init ++ [l])))
    (hne : seg' ≠ produce c key (pstate c key pre) (init ++ [l]))
    (hyp : ReorderHyp c key pre (init ++ [{ l with resetAfter := false }])) :
    ∃ n, n ≤ init.length ∧
      verify c key (honestLines c key pre ++ seg'.map Line.entry ++ rest) = .fail (pre.length + n) .mismatch := by
  have hprod : produce c key (pstate c key pre) (init ++ [l]) =
      produce c key (pstate c key pre) (init ++ [{ l with resetAfter := false }]) := by
    rw [produce_append, produce_append]
    rfl
  rw [hprod] at hperm hne
  obtain ⟨x, a, y, e', r', hs, _, _, hv⟩ := reorder_detected c key pre (init ++ [{ l with resetAfter := false }]) seg' rest hres
    (by
      intro m hm
      rcases List.mem_append.mp hm with h | h
      · exact hchain m h
      · simp at h; subst h; rfl)
    hperm hne hyp
  refine ⟨x.length, ?_, hv⟩
  have := congrArg List.length hs
  simp at this
  omega
/-- **A duplicated entry is detected at the copy, wherever the original stands inside or at the end of a
chain** (copy placed right after the original, which is not the first entry of its chain; it may be the
last one: the verifier keeps the calculator one step on until it sees `chain=new`). The first entry of a
chain: `duplicate_chain_start_detected`. -/
theorem duplicate_detected (c : CryptoOps) (key : Bytes) (pre : List PItem) (a : PItem) (rest : List Line)
    (hres : ∀ it ∈ pre ++ [a], it.resetAfter = true → it.isEnd = true)
    (hmid : (stateAfter c key (Calc.new c key) pre).prev.isSome)
    (hratchet : c.sha256 (stateAfter c key (Calc.new c key) pre).key ≠ (stateAfter c key (Calc.new c key) pre).key)
    (hnc : NoCollision c ((stateAfter c key (Calc.new c key) pre).step c a.data).1 a.data
      (stateAfter c key (Calc.new c key) pre) a.data) :
    verify c key ((produce c key (Calc.new c key) (pre ++ [a])).map Line.entry ++
        Line.entry (entryAt c (stateAfter c key (Calc.new c key) pre) a.data a.isEnd) :: rest) =
      .fail (pre.length + 1) .mismatch := by
  have := foreign_entry_detected_at c key (pre ++ [a]) (entryAt c (pstate c key pre) a.data a.isEnd) rest
    (pstate c key pre) a.data hres
    (entryAt_isNew_false c _ _ _ hmid)
    rfl (by rw [vcal_snoc]; exact hnc) (by rw [vcal_snoc]; left; simpa [Calc.step, pstate] using hratchet)
  simpa [honestLines, pstate] using this

/-- **A copy of a mid-chain entry placed ANYWHERE later in the log is detected at the copy** (`mid`: the
honest entries between the original and the copy, possibly across chain restarts), given that the key
the verifier holds there is not the original's key. -/
theorem duplicate_later_detected (c : CryptoOps) (key : Bytes) (pre : List PItem) (a : PItem) (mid : List PItem) (rest : List Line)
    (hres : ∀ it ∈ pre ++ a :: mid, it.resetAfter = true → it.isEnd = true)
    (hmid : (pstate c key pre).prev.isSome)
    (hkey : (vcal c key (pre ++ a :: mid)).key ≠ (pstate c key pre).key)
    (hnc : NoCollision c (vcal c key (pre ++ a :: mid)) a.data (pstate c key pre) a.data) :
    verify c key (honestLines c key (pre ++ a :: mid) ++
        Line.entry (entryAt c (pstate c key pre) a.data a.isEnd) :: rest) =
      .fail (pre ++ a :: mid).length .mismatch := by
  apply foreign_entry_detected_at c key (pre ++ a :: mid) _ rest (pstate c key pre) a.data hres
  · exact entryAt_isNew_false c _ _ _ hmid
  · rfl
  · exact hnc
  · left; exact hkey

/-- **A copy of a chain's first entry placed right after it is detected** unless that entry is also
the end of its chain (`single_entry_chain_replay_counterexample`): the verifier reports the missing
end-of-chain. More generally any line marked `chain=new` after an entry that is not an end-of-chain entry. -/
theorem duplicate_chain_start_detected (c : CryptoOps) (key : Bytes) (pre : List PItem) (a : PItem) (rest : List Line)
    (e : Entry) (hres : ∀ it ∈ pre ++ [a], it.resetAfter = true → it.isEnd = true)
    (hnew : e.isNew = true) (hend : a.isEnd = false) :
    verify c key ((produce c key (Calc.new c key) (pre ++ [a])).map Line.entry ++ Line.entry e :: rest) =
      .fail (pre.length + 1) .missingEnd :=
  delete_chain_end_detected c key pre a rest e hres hnew hend

/-- **A copy of a chain's first entry placed ANYWHERE later in the log is detected no later than the
next protected entry after the copy**, whenever such an entry exists and is the first of a chain (the
copy stands at a chain boundary; elsewhere it fails at once with the missing end-of-chain) – unless the
copied entry is also the end of its chain. `all` is the honest history before the copy, `a` the copied
first entry of some chain, `n` the next entry. -/
theorem chain_start_replay_detected_by_next_entry (c : CryptoOps) (key : Bytes) (all : List PItem) (a : PItem)
    (n : Entry) (rest : List Line)
    (hres : ∀ it ∈ all, it.resetAfter = true → it.isEnd = true)
    (hn : n.isNew = true) (hend : a.isEnd = false) :
    ∃ k kind, verify c key (honestLines c key all ++
        Line.entry (entryAt c (Calc.new c key) a.data a.isEnd) :: Line.entry n :: rest) = .fail k kind ∧
      all.length ≤ k ∧ k ≤ all.length + 1 := by
  rw [verify_prefix_entry c key all _ _ hres]
  cases he : (vstate c key all).entry c key (entryAt c (Calc.new c key) a.data a.isEnd) with
  | error k => exact ⟨all.length, k, rfl, by omega, by omega⟩
  | ok st' =>
    have hlast : st'.last = some false := by
      rw [entry_new c key _ _ (by rfl)] at he
      split at he
      · cases he
      · split at he
        · cases he; simp [entryAt, hend]
        · cases he
    refine ⟨all.length + 1, .missingEnd, ?_, by omega, by omega⟩
    simp only [verifyFrom]
    rw [entry_new c key _ n hn, if_pos hlast]

/-- **Known finding `chain-start-replay-at-end-of-log`: the position excluded from the theorem above.**
A copy of the first entry of any chain of the log, appended after an end-of-chain entry at the very end of
the log, is accepted: it is a valid one-entry prefix of a new chain, and truncation is allowed. For every
key, every crypto instance and every honest history whose last entry is an end-of-chain entry. -/
theorem chain_start_replay_at_end_of_log_counterexample (c : CryptoOps) (key : Bytes) (all : List PItem) (z a : PItem)
    (hres : ∀ it ∈ all ++ [z], it.resetAfter = true → it.isEnd = true) (hz : z.isEnd = true) :
    verify c key (honestLines c key (all ++ [z]) ++ [Line.entry (entryAt c (Calc.new c key) a.data a.isEnd)]) = .ok := by
  rw [verify_prefix_entry c key (all ++ [z]) _ _ hres, entry_new c key _ _ (by rfl), vlast_snoc, hz]
  simp [entryAt, verifyFrom]

/-- **Verification with another key fails at the first protected entry** (no collision between the two
hashed keys on that entry). -/
theorem wrong_key_fails (c : CryptoOps) (key key' : Bytes) (a : PItem) (rest : List Line)
    (hk : c.sha256 key' ≠ c.sha256 key)
    (hnc : NoCollision c (Calc.new c key') a.data (Calc.new c key) a.data) :
    verify c key' (Line.entry (entryAt c (Calc.new c key) a.data a.isEnd) :: rest) = .fail 0 .mismatch := by
  have hne : tagOf c (Calc.new c key) a.data ≠ ((Calc.new c key').step c a.data).2.1 := by
    rw [step_tag]
    intro h
    have h1 := hnc.sha h.symm
    exact hk (hnc.mac h1).1
  simp only [Calc.new] at hne
  simp [verify, verifyFrom, VState.entry, VState.init, entryAt, Calc.new, hne]

/-- **Known limitation, as a theorem.** An entry that is at once the first and the end-of-chain entry
of its chain is a complete chain by itself: a log consisting of it twice verifies (duplication of that
single entry is NOT detected). Holds for every key and every crypto instance. -/
theorem single_entry_chain_replay_counterexample (c : CryptoOps) (key d : Bytes) :
    verify c key [.entry (entryAt c (Calc.new c key) d true), .entry (entryAt c (Calc.new c key) d true)] = .ok := by
  simp [verify, verifyFrom, VState.entry, VState.init, entryAt, Calc.new, Calc.step, tagOf, Calc.ic]

/-! ### alterations of the FILE (byte level), the last line included -/

/-- the plaintext line of the entry `a` written in calculator state `st` with its authenticated part replaced
by `d'` (integrity value and chain marker kept) -/
def editedLine (c : CryptoOps) (st : Calc) (a d' : Bytes) : Bytes :=
  d' ++ splitTok ++ hexEnc (st.step c a).2.1 ++ (if (st.step c a).2.2 then newSuffix else [])

/-- **An edited entry is detected in the FILE – at every position, the LAST line included, with or without a
final line break.** Plaintext format, byte level: after any honest history `pre` the line of the next entry `a`
gets another authenticated part `d'` (tag kept); whatever lines follow (`post`, arbitrary bytes – none when the
edited entry is the last one), and whether or not the file ends in `\n`, `acra-log-verifier` fails at that line. -/
theorem plaintext_file_edit_detected (c : CryptoOps) (key : Bytes) (pre : List LItem) (a d' : Bytes) (post : List Bytes)
    (term : Bool)
    (hres : ∀ it ∈ pre, it.resetAfter = true → isEndData it.formatted = true)
    (hlf : ∀ it ∈ pre, ∀ x ∈ it.formatted, x ≠ 10) (hd'lf : ∀ x ∈ d', x ≠ 10)
    (hpost : ∀ l ∈ post, (∀ x ∈ l, x ≠ 10) ∧ l.getLast? ≠ some 13)
    (hlast : term = false → post.getLast? ≠ some [])
    (hd : d' ≠ a)
    (hnc : NoCollision c (pstate c key (pre.map toPItem)) d' (pstate c key (pre.map toPItem)) a) :
    verifyFile c key (parseLine .last false)
        (fileOf (produceLines c key (Calc.new c key) pre ++
          editedLine c (pstate c key (pre.map toPItem)) a d' :: post) term) =
      .fail pre.length .mismatch := by
  have hedclean := rendered_clean d' ((pstate c key (pre.map toPItem)).step c a).2.1
    ((pstate c key (pre.map toPItem)).step c a).2.2 hd'lf
  have hedeq : d' ++ splitTok ++ tagPart ((pstate c key (pre.map toPItem)).step c a).2.1
      ((pstate c key (pre.map toPItem)).step c a).2.2 = editedLine c (pstate c key (pre.map toPItem)) a d' := by
    simp [editedLine, tagPart, List.append_assoc]
  rw [hedeq] at hedclean
  have hne : editedLine c (pstate c key (pre.map toPItem)) a d' ≠ [] := by
    intro h
    have := rendered_nonempty d' (hexEnc ((pstate c key (pre.map toPItem)).step c a).2.1 ++
      (if ((pstate c key (pre.map toPItem)).step c a).2.2 then newSuffix else []))
    rw [← List.append_assoc] at this
    unfold editedLine at h
    rw [h] at this
    cases this
  rw [file_verdict_is_lines_verdict]
  · rw [List.map_append, List.map_cons, plaintext_lines_parse]
    have hpar : parseLine .last false (editedLine c (pstate c key (pre.map toPItem)) a d') =
        Line.entry { entryAt c (pstate c key (pre.map toPItem)) a (isEndData d') with data := d' } := by
      unfold editedLine
      rw [render_parse_plain]
      rfl
    rw [hpar]
    have := edit_detected c key (pre.map toPItem) ⟨a, false, false⟩ d' (isEndData d') (post.map (parseLine .last false))
      (by
        intro it hit
        obtain ⟨l, hl, rfl⟩ := List.mem_map.mp hit
        exact hres l hl) hd hnc
    simpa using this
  · intro l hl
    rcases List.mem_append.mp hl with h | h
    · exact plaintext_lines_clean c key pre _ hlf l h
    · rcases List.mem_cons.mp h with rfl | h
      · exact hedclean
      · exact hpost l h
  · intro ht
    cases post with
    | nil =>
      rw [List.getLast?_append]
      simp [hne]
    | cons q r =>
      have := hlast ht
      rw [List.getLast?_append]
      simpa using this

/-- **A last line cut inside its integrity value is detected** (plaintext, byte level; with or without a final
line break). The file ends in the line of entry `a` cut after a proper part `p` of its hex integrity value
(`p` may be empty): the verifier fails AT THAT LINE – with a parse error when `p` has odd length, with a mismatch
otherwise – for a hash whose outputs all have one length (true of SHA-256). (A line cut before ` integrity=`
is an unprotected line: that is truncation of the log, which the statement does not claim – `truncation_allowed`.) -/
theorem plaintext_file_cut_last_line_detected (c : CryptoOps) (key : Bytes) (pre : List LItem) (a p q : Bytes) (term : Bool)
    (hres : ∀ it ∈ pre, it.resetAfter = true → isEndData it.formatted = true)
    (hlf : ∀ it ∈ pre, ∀ x ∈ it.formatted, x ≠ 10) (half : ∀ x ∈ a, x ≠ 10)
    (hlen : ∀ m m', (c.sha256 m).length = (c.sha256 m').length)
    (hcut : hexEnc (tagOf c (pstate c key (pre.map toPItem)) a) = p ++ q) (hq : q ≠ []) :
    ∃ k, verifyFile c key (parseLine .last false)
        (fileOf (produceLines c key (Calc.new c key) pre ++ [a ++ splitTok ++ p]) term) = .fail pre.length k := by
  have hpmem : ∀ x ∈ p, x ∈ hexEnc (tagOf c (pstate c key (pre.map toPItem)) a) := by
    intro x hx; rw [hcut]; exact List.mem_append_left _ hx
  have hp32 : ∀ x ∈ p, x ≠ 32 := fun x hx => hexEnc_ne_space _ x (hpmem x hx)
  have hpplain : ∀ x ∈ p, plainByte x = true := fun x hx => hexEnc_plain _ x (hpmem x hx)
  have hres' : ∀ it ∈ pre.map toPItem, it.resetAfter = true → it.isEnd = true := by
    intro it hit
    obtain ⟨l, hl, rfl⟩ := List.mem_map.mp hit
    exact hres l hl
  rw [file_verdict_is_lines_verdict]
  · rw [List.map_append, List.map_cons, List.map_nil, plaintext_lines_parse, parse_cut_tag a p hp32]
    cases hdec : hexDec p with
    | none =>
      refine ⟨.parse, ?_⟩
      have hv := verifyFrom_honest_prefix c key (pre.map toPItem) (Calc.new c key) (VState.init c key) 0 [Line.bad]
        (inStep_init c key) hres'
      unfold verify honestLines
      rw [hv.2]
      simp [verifyFrom]
    | some t =>
      refine ⟨.mismatch, ?_⟩
      have hv := verify_prefix_entry c key (pre.map toPItem) ⟨a, t, false, isEndData a⟩ [] hres'
      simp only [] at hv ⊢
      rw [hv, entry_old c key _ _ rfl]
      have hne : t ≠ tagOf c (vstate c key (pre.map toPItem)).cal a := by
        intro e
        have h1 := hexDec_length p.length p t (Nat.le_refl _) hdec
        have h2 := hexEnc_length (tagOf c (pstate c key (pre.map toPItem)) a)
        rw [hcut, List.length_append] at h2
        have h3 : (tagOf c (vstate c key (pre.map toPItem)).cal a).length =
            (tagOf c (pstate c key (pre.map toPItem)) a).length := hlen _ _
        have h4 : 0 < q.length := List.length_pos_iff.mpr hq
        rw [← e] at h3
        omega
      simp [hne]
  · intro l hl
    rcases List.mem_append.mp hl with h | h
    · exact plaintext_lines_clean c key pre _ hlf l h
    · rw [List.mem_singleton] at h
      subst h
      exact cut_line_clean a p half hpplain
  · intro _ h
    rw [List.getLast?_concat] at h
    have hn := rendered_nonempty a p
    rw [Option.some.inj h] at hn
    cases hn

/-- **Seeded change C20-5 as a theorem about the model.** With the `io.EOF` return standing BEFORE the delivering
branch the reader hands out only the terminated lines: whatever stands in an unterminated last line (here an
entry whose integrity value is garbage) is never seen by the verifier. Excluded by `fact_reader_loop`. -/
theorem eof_return_before_deliver_drops_last_line_counterexample :
    scanLinesWith "reader" ["read", "return-eof", "return-any-err", "deliver"] stdTrims (strB "a\nb integrity=zz") = [strB "a"] ∧
    scanLinesWith "reader" stdLoop stdTrims (strB "a\nb integrity=zz") = [strB "a", strB "b integrity=zz"] := by
  decide

/-- **Truncation is allowed** (not a defect per the statement): every prefix of an honest log verifies. -/
theorem truncation_allowed (c : CryptoOps) (key : Bytes) (items more : List PItem)
    (hres : ∀ it ∈ items ++ more, it.resetAfter = true → it.isEnd = true) :
    verify c key ((produce c key (Calc.new c key) items).map Line.entry) = .ok := by
  have hent : ∀ es : List Entry, entriesOf (es.map Line.entry) = es := by
    intro es; induction es with
    | nil => rfl
    | cons e r ih => simp [entriesOf, ih]
  exact honest_verifies c key items _ (fun it h => hres it (List.mem_append_left _ h))
    (by intro l hl; obtain ⟨e, _, rfl⟩ := List.mem_map.mp hl; simp) (hent _)

/-! ## non-vacuity -/

/-- a crypto instance with injective hashes and a moving ratchet (`SHA(m) = 0 ‖ m`) -/
def toyOps : CryptoOps := { boxOps with sha256 := fun m => 0 :: m }

theorem toy_noCollision (a : Calc) (x : Bytes) (b : Calc) (y : Bytes) : NoCollision toyOps a x b y where
  sha := by intro h; simpa [toyOps] using h
  mac := by
    intro h
    exact Box.hashInj.hmac_inj _ _ _ _ h

/-- the hypotheses of the alteration theorems are satisfiable: a two-entry prefix, then an edited third
entry, with the toy instance -/
example : verify toyOps [1] ((produce toyOps [1] (Calc.new toyOps [1]) [⟨[10], false, false⟩, ⟨[11], false, false⟩]).map Line.entry ++
    Line.entry { entryAt toyOps (stateAfter toyOps [1] (Calc.new toyOps [1]) [⟨[10], false, false⟩, ⟨[11], false, false⟩]) [12] false with data := [13] } :: []) =
    .fail 2 .mismatch :=
  edit_detected toyOps [1] [⟨[10], false, false⟩, ⟨[11], false, false⟩] ⟨[12], false, false⟩ [13] false []
    (by intro it h; simp at h; rcases h with rfl | rfl <;> simp)
    (by decide) (toy_noCollision _ _ _ _)

/-! ### non-vacuity of the every-position theorems -/

/-- a history with a restart: a chain of two entries (the second one its end-of-chain entry), then the
first entries of the next chain -/
def hist2 : List PItem := [⟨[10], false, false⟩, ⟨[11], true, true⟩]

theorem hist2_res : ∀ it ∈ hist2, it.resetAfter = true → it.isEnd = true := by
  intro it h; simp [hist2] at h; rcases h with rfl | rfl <;> simp

/-- `swap_detected` at the FIRST entry of a later chain, non-adjacent positions (`i` = 2, `j` = 4) -/
example : ∃ k kind, verify toyOps [1] (honestLines toyOps [1] hist2 ++
      Line.entry (entryAt toyOps (pstate toyOps [1] (hist2 ++ ⟨[12], false, false⟩ :: [⟨[13], false, false⟩])) [14] false) ::
      ((produce toyOps [1] ((pstate toyOps [1] hist2).step toyOps [12]).1 [⟨[13], false, false⟩]).map Line.entry ++
        Line.entry (entryAt toyOps (pstate toyOps [1] hist2) [12] false) :: [])) = .fail k kind ∧ 2 ≤ k ∧ k ≤ 3 :=
  swap_detected toyOps [1] hist2 ⟨[12], false, false⟩ [⟨[13], false, false⟩] ⟨[14], false, false⟩ [] hist2_res rfl
    (by intro m h; simp at h; subst h; rfl) (by decide) (by intro _; decide) (toy_noCollision _ _ _ _)
    (fun _ _ => toy_noCollision _ _ _ _) (by intro h; cases h)

/-- `swap_detected`, adjacent positions at the first entry of a later chain, the second entry being an
end-of-chain entry: the exclusion `hexcl` does not bite because the chain before has two entries -/
example : ∃ k kind, verify toyOps [1] (honestLines toyOps [1] hist2 ++
      Line.entry (entryAt toyOps (pstate toyOps [1] (hist2 ++ ⟨[12], false, false⟩ :: [])) [14] true) ::
      ((produce toyOps [1] ((pstate toyOps [1] hist2).step toyOps [12]).1 []).map Line.entry ++
        Line.entry (entryAt toyOps (pstate toyOps [1] hist2) [12] false) :: [])) = .fail k kind ∧ 2 ≤ k ∧ k ≤ 3 :=
  swap_detected toyOps [1] hist2 ⟨[12], false, false⟩ [] ⟨[14], true, true⟩ [] hist2_res rfl
    (by intro m h; cases h) (by decide) (by intro h; exact absurd rfl h) (toy_noCollision _ _ _ _)
    (fun _ h => by cases h) (by intro _ _ h; exact absurd h (by decide))

/-- `delete_detected` at the first entry of a later chain (the chain before has two entries) and at the
first entry of the log -/
example : verify toyOps [1] (honestLines toyOps [1] hist2 ++
    Line.entry (entryAt toyOps ((pstate toyOps [1] hist2).step toyOps [12]).1 [13] false) :: []) = .fail 2 .mismatch :=
  delete_detected toyOps [1] hist2 ⟨[12], false, false⟩ ⟨[13], false, false⟩ [] hist2_res (by decide) (toy_noCollision _ _ _ _)

example : verify toyOps [1] (Line.entry (entryAt toyOps ((Calc.new toyOps [1]).step toyOps [12]).1 [13] false) :: []) = .fail 0 .mismatch :=
  delete_first_of_log_detected toyOps [1] ⟨[12], false, false⟩ ⟨[13], false, false⟩ [] (by decide) (toy_noCollision _ _ _ _)

/-- `edit_detected` at the first entry of a later chain (the edit also flips the end-of-chain marker) -/
example : verify toyOps [1] (honestLines toyOps [1] hist2 ++
    Line.entry { entryAt toyOps (pstate toyOps [1] hist2) [12] true with data := [13] } :: []) = .fail 2 .mismatch :=
  edit_detected toyOps [1] hist2 ⟨[12], false, false⟩ [13] true [] hist2_res (by decide) (toy_noCollision _ _ _ _)

/-- `duplicate_detected` for the LAST entry of a chain (the copy stands between two chains) -/
example : verify toyOps [1] ((produce toyOps [1] (Calc.new toyOps [1]) ([⟨[10], false, false⟩] ++ [⟨[11], true, true⟩])).map Line.entry ++
    Line.entry (entryAt toyOps (stateAfter toyOps [1] (Calc.new toyOps [1]) [⟨[10], false, false⟩]) [11] true) :: []) = .fail 2 .mismatch :=
  duplicate_detected toyOps [1] [⟨[10], false, false⟩] ⟨[11], true, true⟩ [] hist2_res (by decide) (by decide) (toy_noCollision _ _ _ _)

/-- under the toy instance (injective hashes, a ratchet that lengthens the key at every step) the
hypotheses of `reorder_detected` hold for EVERY chain segment that starts mid-chain or at the start of
the log -/
theorem toy_reorderHyp (key : Bytes) (pre seg : List PItem)
    (hres : ∀ it ∈ pre, it.resetAfter = true → it.isEnd = true)
    (hchain : ∀ m ∈ seg, m.resetAfter = false)
    (hpos : (pstate toyOps key pre).prev.isSome ∨ pre = []) : ReorderHyp toyOps key pre seg := by
  intro x a z b w hs
  refine ⟨?_, toy_noCollision _ _ _ _⟩
  have hx : ∀ m ∈ x, m.resetAfter = false := fun m hm => hchain m (by rw [hs]; simp [hm])
  have ha : a.resetAfter = false := hchain a (by rw [hs]; simp)
  have hz : ∀ m ∈ z, m.resetAfter = false := fun m hm => hchain m (by rw [hs]; simp [hm])
  have hresx : ∀ it ∈ pre ++ x, it.resetAfter = true → it.isEnd = true := by
    intro it hit hra
    rcases List.mem_append.mp hit with h | h
    · exact hres it h hra
    · rw [hx it h] at hra; cases hra
  have hv : vcal toyOps key (pre ++ x) = pstate toyOps key (pre ++ x) := by
    cases x with
    | nil =>
      rw [List.append_nil]
      rcases hpos with h | rfl
      · exact vcal_of_mid toyOps key pre hres h
      · rfl
    | cons x0 x' =>
      exact vcal_of_mid toyOps key _ hresx
        (pstate_chain_prev_some toyOps key pre x0 x' (hx x0 (by simp)) (fun m hm => hx m (by simp [hm])))
  have hlen : ∀ (l : List PItem) (st : Calc), (∀ m ∈ l, m.resetAfter = false) →
      (stateAfter toyOps key st l).key.length = st.key.length + l.length := by
    intro l
    induction l with
    | nil => intro st _; rfl
    | cons m r ih =>
      intro st hm
      simp only [stateAfter, hm m List.mem_cons_self, Bool.false_eq_true, if_false]
      rw [ih _ (fun y hy => hm y (List.mem_cons_of_mem _ hy))]
      simp [Calc.step, toyOps]
      omega
  rw [hv, pstate_append toyOps key (pre ++ x) (a :: z)]
  intro h
  have := congrArg List.length h
  rw [hlen (a :: z) _ (by intro m hm; rcases List.mem_cons.mp hm with rfl | hm; exact ha; exact hz m hm)] at this
  simp at this

/-- `reorder_detected` on a concrete rotation of three mid-chain entries (`e0 e1 e2 ↦ e1 e2 e0`) -/
example : ∃ n, verify toyOps [1] (honestLines toyOps [1] [⟨[10], false, false⟩] ++
      [entryAt toyOps ((pstate toyOps [1] [⟨[10], false, false⟩]).step toyOps [12]).1 [13] false,
       entryAt toyOps ((((pstate toyOps [1] [⟨[10], false, false⟩]).step toyOps [12]).1).step toyOps [13]).1 [14] false,
       entryAt toyOps (pstate toyOps [1] [⟨[10], false, false⟩]) [12] false].map Line.entry ++ []) = .fail n .mismatch := by
  obtain ⟨x, a, y, e', r', _, _, _, h⟩ :=
    reorder_detected toyOps [1] [⟨[10], false, false⟩] [⟨[12], false, false⟩, ⟨[13], false, false⟩, ⟨[14], false, false⟩]
      [entryAt toyOps ((pstate toyOps [1] [⟨[10], false, false⟩]).step toyOps [12]).1 [13] false,
       entryAt toyOps ((((pstate toyOps [1] [⟨[10], false, false⟩]).step toyOps [12]).1).step toyOps [13]).1 [14] false,
       entryAt toyOps (pstate toyOps [1] [⟨[10], false, false⟩]) [12] false] []
      (by intro it h; simp at h; subst h; simp)
      (by intro m h; simp at h; rcases h with rfl | rfl | rfl <;> rfl)
      (((List.Perm.swap _ _ []).cons _).trans (List.Perm.swap _ _ [_]))
      (by
        intro h
        have := congrArg (fun l => l.head?.map (·.data)) h
        simp [produce_cons, entryAt] at this)
      (toy_reorderHyp [1] _ _ (by intro it h; simp at h; subst h; simp)
        (by intro m h; simp at h; rcases h with rfl | rfl | rfl <;> rfl) (Or.inl (by decide)))
  exact ⟨_, h⟩

/-- `reorder_chain_detected` on the whole FIRST chain of a log, exchanging its last two entries (the last
one is the end-of-chain entry after which the producer restarts) -/
example : ∃ n, n ≤ 2 ∧ verify toyOps [1] (honestLines toyOps [1] [] ++
      [entryAt toyOps (Calc.new toyOps [1]) [12] false,
       entryAt toyOps ((((Calc.new toyOps [1]).step toyOps [12]).1).step toyOps [13]).1 [14] true,
       entryAt toyOps ((Calc.new toyOps [1]).step toyOps [12]).1 [13] false].map Line.entry ++ []) = .fail (0 + n) .mismatch :=
  reorder_chain_detected toyOps [1] [] [⟨[12], false, false⟩, ⟨[13], false, false⟩] ⟨[14], true, true⟩ _ []
    (by intro it h; cases h)
    (by intro m h; simp at h; rcases h with rfl | rfl <;> rfl)
    ((List.Perm.swap _ _ []).cons _)
    (by
      intro h
      have := congrArg (fun l => l[1]?.map (·.data)) h
      simp [produce_cons, entryAt] at this)
    (toy_reorderHyp [1] _ _ (by intro it h; cases h)
      (by intro m h; simp at h; rcases h with rfl | rfl | rfl <;> rfl) (Or.inr rfl))

/-- the ratchet hypothesis holds for the toy instance -/
example (k : Bytes) : toyOps.sha256 k ≠ k := by
  intro h
  have := congrArg List.length h
  simp [toyOps] at this

/-- honest_plaintext_verifies is about real content: a history with a look-alike token, a restart after
an end-of-chain entry, and a further entry -/
example : verify toyOps [7] ((produceLines toyOps [7] (Calc.new toyOps [7])
    [⟨strB "msg=\"x integrity=00\"", false⟩, ⟨strB "msg=\"End of current audit log chain\" chain=end", true⟩, ⟨strB "msg=next", false⟩]).map
      (parseLine .last false)) = .ok :=
  honest_plaintext_verifies toyOps [7] _ (by
    intro it h
    simp at h
    rcases h with rfl | rfl | rfl <;> first | (intro _; decide) | (intro h; cases h))

/-! ### non-vacuity of the JSON theorems -/

/-- a decoded formatter output with an adversarial message and fields of every scalar kind (sorted keys):
`{"amount":0.1,"level":"info","msg":"x\n\" integrity=00 <&>","n":-12,"ok":true,"user":null}` -/
def sampleFields : Obj :=
  [(strB "amount", .num (strB "0.1")), (strB "level", .str (strB "info")),
   (strB "msg", .str (strB "x\n\" integrity=00 <&>")), (strB "n", .num (strB "-12")),
   (strB "ok", .bool true), (strB "user", .null)]

theorem numLit_0_1 : NumLit (strB "0.1") :=
  (numLit_frac [0x30] [0x31] (by decide) (by decide) (by decide) (by decide) (by decide)).1

theorem sample_class (st : Calc) : JsonClass st sampleFields where
  canonical := by
    unfold Canonical sampleFields
    simp only [List.pairwise_cons]
    decide
  flat := by
    intro kv hkv
    simp only [sampleFields, List.mem_cons, List.mem_nil_iff, or_false] at hkv
    have va : ∀ s : String, (∀ x ∈ strB s, x.toNat < 0x80) → ValidUtf8 (strB s) := fun s h => validUtf8_ascii _ h
    rcases hkv with rfl | rfl | rfl | rfl | rfl | rfl
    · exact ⟨va _ (by decide), .num _ numLit_0_1⟩
    · exact ⟨va _ (by decide), .str _ (va _ (by decide))⟩
    · exact ⟨va _ (by decide), .str _ (va _ (by decide))⟩
    · exact ⟨va _ (by decide), .num _ (numLit_int [0x31, 0x32] (by decide) (by decide) (by decide)).2⟩
    · exact ⟨va _ (by decide), .bool true⟩
    · exact ⟨va _ (by decide), .null⟩
  noIntegrity := by decide
  noChainAtStart := fun _ => by decide
  noChainNew := by
    rw [(getKey_none_iff _ _).mpr (by decide)]
    simp

/-- `honest_json_verifies` on a history of two such entries -/
example : verify toyOps [7] ((produceJson toyOps [7] (Calc.new toyOps [7])
    [⟨sampleFields, false⟩, ⟨sampleFields, false⟩]).map jsonParse) = .ok :=
  honest_json_verifies toyOps [7] _ ⟨sample_class _, sample_class _, trivial⟩ (by
    intro it h
    simp at h
    rcases h with rfl | rfl <;> (intro h; cases h))

/-- `json_retype_changes_bytes` on `"3"` ↦ `3` -/
example : conv (setKey (strB "n") (.str (strB "3")) sampleFields) ≠ conv (setKey (strB "n") (.num (strB "3")) sampleFields) :=
  json_retype_changes_bytes _ _ _ _ ⟨0x33, [], by decide, by decide⟩

/-! ### non-vacuity of the file-level theorems -/

/-- `plaintext_file_edit_detected`: the LAST entry of a two-entry log edited, file without final line break -/
example : verifyFile toyOps [7] (parseLine .last false)
    (fileOf (produceLines toyOps [7] (Calc.new toyOps [7]) [⟨strB "msg=a", false⟩] ++
      [editedLine toyOps (pstate toyOps [7] ([⟨strB "msg=a", false⟩].map toPItem)) (strB "msg=b") (strB "msg=X")]) false) =
    .fail 1 .mismatch :=
  plaintext_file_edit_detected toyOps [7] [⟨strB "msg=a", false⟩] (strB "msg=b") (strB "msg=X") [] false
    (by intro it h; simp at h; subst h; intro h; cases h)
    (by intro it h; simp at h; subst h; decide) (by decide) (by intro l h; cases h) (by intro _; simp) (by decide)
    (toy_noCollision _ _ _ _)

/-- a hash with outputs of one length (the hypothesis `hlen` of `plaintext_file_cut_last_line_detected`) -/
def lenOps : CryptoOps := { boxOps with sha256 := fun _ => [1, 2] }

/-- `plaintext_file_cut_last_line_detected`: the last line cut in the middle of its integrity value `0102` -/
example : ∃ k, verifyFile lenOps [7] (parseLine .last false)
    (fileOf (produceLines lenOps [7] (Calc.new lenOps [7]) [⟨strB "msg=a", false⟩] ++
      [strB "msg=b" ++ splitTok ++ strB "01"]) false) = .fail 1 k :=
  plaintext_file_cut_last_line_detected lenOps [7] [⟨strB "msg=a", false⟩] (strB "msg=b") (strB "01") (strB "02") false
    (by intro it h; simp at h; subst h; intro h; cases h)
    (by intro it h; simp at h; subst h; decide) (by decide) (fun _ _ => rfl) (by decide) (by decide)

/-- `file_verdict_is_lines_verdict` / `files_verdict_is_lines_verdict` on two rotated files, the first without its
final line break -/
example : verifyFiles toyOps [7] (parseLine .last false) [fileOf [strB "x", strB "y"] false, fileOf [strB "z"] true] =
    verify toyOps [7] ([strB "x", strB "y", strB "z"].map (parseLine .last false)) :=
  files_verdict_is_lines_verdict toyOps [7] _ [([strB "x", strB "y"], false), ([strB "z"], true)]
    (by decide) (by decide)

/-! ### non-vacuity of the nested JSON theorems -/

/-- `{"ids":[1,-2.5,"a\n",[true,null],{"k":[]}],"msg":"m","o":{"a":{"b":"x"},"n":0}}` – arrays in arrays, objects in arrays,
objects in objects, empty array, numbers as array elements -/
def nestedFields : Obj :=
  [(strB "ids", .arr [.num (strB "1"), .num (strB "-2.5"), .str (strB "a\n"), .arr [.bool true, .null], .obj [(strB "k", .arr [])]]),
   (strB "msg", .str (strB "m")),
   (strB "o", .obj [(strB "a", .obj [(strB "b", .str (strB "x"))]), (strB "n", .num (strB "0"))])]

theorem nested_good : GoodObj nestedFields := by
  have va : ∀ s : String, (∀ x ∈ strB s, x.toNat < 0x80) → ValidUtf8 (strB s) := fun s h => validUtf8_ascii _ h
  have n1 : NumLitV (strB "1") := (numLitV_int [0x31] (by decide) (by decide) (by decide)).1
  have n0 : NumLitV (strB "0") := (numLitV_int [0x30] (by decide) (by decide) (by decide)).1
  have n25 : NumLitV (strB "-2.5") := (numLitV_frac [0x32] [0x35] (by decide) (by decide) (by decide) (by decide) (by decide)).2
  intro kv hkv
  simp only [nestedFields, List.mem_cons, List.mem_nil_iff, or_false] at hkv
  rcases hkv with rfl | rfl | rfl
  · refine ⟨va _ (by decide), .arr _ ?_⟩
    intro x hx
    simp only [List.mem_cons, List.mem_nil_iff, or_false] at hx
    rcases hx with rfl | rfl | rfl | rfl | rfl
    · exact .scalar _ (.num _ n1)
    · exact .scalar _ (.num _ n25)
    · exact .scalar _ (.str _ (va _ (by decide)))
    · refine .arr _ ?_
      intro y hy
      simp only [List.mem_cons, List.mem_nil_iff, or_false] at hy
      rcases hy with rfl | rfl
      · exact .scalar _ (.bool true)
      · exact .scalar _ .null
    · refine .obj _ (by simp [Canonical]) ?_ ?_
      · intro kv h; simp at h; subst h; exact va _ (by decide)
      · intro kv h; simp at h; subst h; exact .arr _ (by intro z hz; cases hz)
  · exact ⟨va _ (by decide), .scalar _ (.str _ (va _ (by decide)))⟩
  · refine ⟨va _ (by decide), .obj _ ?_ ?_ ?_⟩
    · unfold Canonical
      simp only [List.pairwise_cons]
      decide
    · intro kv h
      simp only [List.mem_cons, List.mem_nil_iff, or_false] at h
      rcases h with rfl | rfl <;> exact va _ (by decide)
    · intro kv h
      simp only [List.mem_cons, List.mem_nil_iff, or_false] at h
      rcases h with rfl | rfl
      · refine .obj _ (by simp [Canonical]) ?_ ?_
        · intro kv h; simp at h; subst h; exact va _ (by decide)
        · intro kv h; simp at h; subst h; exact .scalar _ (.str _ (va _ (by decide)))
      · exact .scalar _ (.num _ n0)

theorem nested_class (st : Calc) : JsonClassN st nestedFields where
  canonical := by
    unfold Canonical nestedFields
    simp only [List.pairwise_cons]
    decide
  good := nested_good
  noIntegrity := by decide
  noChainAtStart := fun _ => by decide
  noChainNew := by
    rw [(getKey_none_iff _ _).mpr (by decide)]
    simp

/-- `honest_json_verifies_nested` on a history of two such entries -/
example : verify toyOps [7] ((produceJson toyOps [7] (Calc.new toyOps [7])
    [⟨nestedFields, false⟩, ⟨nestedFields, false⟩]).map jsonParse) = .ok :=
  honest_json_verifies_nested toyOps [7] _ ⟨nested_class _, nested_class _, trivial⟩ (by
    intro it h
    simp at h
    rcases h with rfl | rfl <;> (intro h; cases h))

end AcraModel.Props.C20
