import AcraModel.AuditLog.Parse
/-!
# C20 — the audit-log integrity chain verifies when intact and fails when altered
-/
namespace AcraModel.Props.C20
open AcraModel AcraModel.AuditLog Generated.AuditLog

/-- `calculateHmac` feeds the entry first, then the previous integrity check. -/
theorem fact_hmacWrites : hmacWrites = ["input", "previousLogEntryIntegrityCheck"] := by decide

end AcraModel.Props.C20
