import AcraModel.Censor.MatchTyping
/-!
# Lemmas for the proof of `match_generalise`

1. the interpreter: a comparator body none of whose steps stops with `false` returns `true`;
2. `isGen`: shape of a generalisation (placeholder or node-by-node), alignment of children, rigidity;
3. `wf`: children conform to their declared types.
-/
namespace AcraModel.Censor.Match
open AcraModel AcraModel.Censor Generated.CensorTable

/-! ## 1. the interpreter -/

def Res.notFalse : Res → Bool
  | .ret false => false
  | _ => true

variable (call : String → Tree → Tree → Bool) (esc : String → Tree → Bool) (q p : Tree)

theorem eachAt_notFalse (i : Nat) (body : List AStep)
    (h : ∀ a ∈ body, (atomAt call esc q p (some i) a).notFalse = true) :
    (eachAt call esc q p i body).notFalse = true := by
  induction body with
  | nil => rfl
  | cons a as ih =>
    simp only [eachAt]
    have ha := h a (List.mem_cons_self ..)
    split
    · exact ih fun a' ha' => h a' (List.mem_cons_of_mem _ ha')
    · next b hb => rw [hb] at ha; exact ha

theorem loopOver_notFalse (body : List AStep) (is : List Nat)
    (h : ∀ i ∈ is, ∀ a ∈ body, (atomAt call esc q p (some i) a).notFalse = true) :
    (loopOver call esc q p body is).notFalse = true := by
  induction is with
  | nil => rfl
  | cons i is ih =>
    simp only [loopOver]
    have hi := eachAt_notFalse call esc q p i body (h i (List.mem_cons_self ..))
    split
    · exact ih fun j hj => h j (List.mem_cons_of_mem _ hj)
    · next b hb => rw [hb] at hi; exact hi

/-- a step that does not stop with `false` -/
def cstepGood : CStep → Prop
  | .atom a => (atomAt call esc q p none a).notFalse = true
  | .range o body => ∃ l, selO none q p o = some l ∧
      ∀ i, i < l.kids.length → ∀ a ∈ body, (atomAt call esc q p (some i) a).notFalse = true

/-- **no step stops with `false` ⇒ the body returns `true`** -/
theorem runC_true (steps : List CStep) (h : ∀ s ∈ steps, cstepGood call esc q p s) :
    runC call esc q p true steps = true := by
  induction steps with
  | nil => rfl
  | cons s rest ih =>
    have hs := h s (List.mem_cons_self ..)
    have hrest := ih fun s' hs' => h s' (List.mem_cons_of_mem _ hs')
    cases s with
    | atom a =>
      simp only [runC]
      simp only [cstepGood] at hs
      split
      · exact hrest
      · next b hb =>
        rw [hb] at hs
        cases b with
        | true => rfl
        | false => simp [Res.notFalse] at hs
    | range o body =>
      obtain ⟨l, hl, hall⟩ := hs
      simp only [runC, hl]
      have := loopOver_notFalse call esc q p body (List.range l.kids.length)
        (fun i hi a ha => hall i (List.mem_range.mp hi) a ha)
      split
      · exact hrest
      · next b hb =>
        rw [hb] at this
        cases b with
        | true => rfl
        | false => simp [Res.notFalse] at this

/-- a prefix of passing steps followed by a step that stops with `true` -/
theorem runC_true_of_ret (fin : Bool) (pre : List CStep) (a : AStep) (post : List CStep)
    (hpre : ∀ s ∈ pre, ∃ a', s = .atom a' ∧ atomAt call esc q p none a' = .pass)
    (ha : atomAt call esc q p none a = .ret true) :
    runC call esc q p fin (pre ++ .atom a :: post) = true := by
  induction pre with
  | nil => simp [runC, ha]
  | cons s rest ih =>
    obtain ⟨a', rfl, hp⟩ := hpre s (List.mem_cons_self ..)
    simp only [List.cons_append, runC, hp]
    exact ih fun s' hs' => hpre s' (List.mem_cons_of_mem _ hs')

end AcraModel.Censor.Match

namespace AcraModel.Censor
open AcraModel Generated.CensorTable AcraModel.Censor.Match

/-! ## 2. `isGen` -/

theorem isGen_leaf {aw wh : Bool} {p : Tree} {b : Bytes} (h : isGen aw wh p (.leaf b) = true) : p = .leaf b := by
  rw [isGen.eq_1] at h
  simpa using h

theorem isGen_node {aw wh : Bool} {p : Tree} {k : String} {ks : List Tree} (h : isGen aw wh p (.node k ks) = true) :
    p ∈ placeholdersFor wh k ∨ ∃ ps, p = .node k ps ∧ isGenKids aw k 0 ps ks = true := by
  rw [isGen.eq_2] at h
  simp only [Bool.or_eq_true, List.contains_iff_mem, Bool.and_eq_true, beq_iff_eq, Bool.not_eq_true'] at h
  rcases h with h | h
  · exact Or.inl h
  · cases p with
    | leaf b => simp [Tree.isLeaf] at h
    | node k' ps =>
      simp only [Tree.kind, Tree.kids] at h
      exact Or.inr ⟨ps, by rw [h.1.2], h.2⟩

theorem isGen_of_structural {aw wh : Bool} {k : String} {ps ks : List Tree} (h : isGenKids aw k 0 ps ks = true) :
    isGen aw wh (.node k ps) (.node k ks) = true := by
  rw [isGen.eq_2]
  simp [Tree.isLeaf, Tree.kind, Tree.kids, h]

theorem isGen_of_placeholder {aw wh : Bool} {p : Tree} {k : String} {ks : List Tree} (h : p ∈ placeholdersFor wh k) :
    isGen aw wh p (.node k ks) = true := by
  rw [isGen.eq_2]
  simp [h]

theorem placeholdersFor_true {p : Tree} {k : String} (h : p ∈ placeholdersFor true k) :
    p = wherePattern ∨ p ∈ placeholdersFor false k := by
  simp only [placeholdersFor, List.mem_append] at h ⊢
  rcases h with h | h
  · exact Or.inr (Or.inl h)
  · simp at h; exact Or.inl h

/-- in the WHERE slot a generalisation is `%%WHERE%%` or an ordinary generalisation -/
theorem isGen_wh {aw : Bool} {p t : Tree} (h : isGen aw true p t = true) : p = wherePattern ∨ isGen aw false p t = true := by
  cases t with
  | leaf b => exact Or.inr (by rw [isGen.eq_1] at h ⊢; exact h)
  | node k ks =>
    rcases isGen_node h with h | ⟨ps, rfl, hk⟩
    · rcases placeholdersFor_true h with h | h
      · exact Or.inl h
      · exact Or.inr (isGen_of_placeholder h)
    · exact Or.inr (isGen_of_structural hk)

theorem whereSlot_false (k : String) (j : Nat) : whereSlot false k j = false := by simp [whereSlot]

/-- children of a node that is not a tuple: same number, pairwise generalisations -/
theorem isGenKids_plain {aw : Bool} {k : String} (hk : k ≠ "ValTuple") :
    ∀ (j : Nat) (ps ks : List Tree), isGenKids aw k j ps ks = true →
      ps.length = ks.length ∧ ∀ i x y, ks[i]? = some x → ps[i]? = some y → isGen aw (whereSlot aw k (j + i)) y x = true
  | j, ps, [], h => by
    rw [isGenKids.eq_1, List.isEmpty_iff] at h
    subst h
    exact ⟨rfl, fun i x y hx => by simp at hx⟩
  | j, ps, x :: xs, h => by
    rw [isGenKids.eq_2] at h
    simp only [Bool.or_eq_true, Bool.and_eq_true, beq_iff_eq] at h
    rcases h with h | h
    · exact absurd h.1.1 hk
    · cases ps with
      | nil => simp at h
      | cons y ys =>
        simp only [List.headD_cons, List.tail_cons] at h
        obtain ⟨hlen, hall⟩ := isGenKids_plain hk (j + 1) ys xs h.2
        refine ⟨by simp [hlen], fun i x' y' hx hy => ?_⟩
        cases i with
        | zero =>
          simp only [List.getElem?_cons_zero, Option.some.injEq] at hx hy
          subst hx; subst hy
          simpa using h.1.2
        | succ i =>
          simp only [List.getElem?_cons_succ] at hx hy
          have := hall i x' y' hx hy
          rwa [show j + 1 + i = j + (i + 1) by omega] at this

/-- a list of leaves generalises to itself only -/
theorem isGenKids_leaves {aw : Bool} {k : String} :
    ∀ (j : Nat) (ps ks : List Tree), (∀ x ∈ ks, x.isLeaf = true) → isGenKids aw k j ps ks = true → ps = ks
  | j, ps, [], _, h => by rw [isGenKids.eq_1, List.isEmpty_iff] at h; exact h
  | j, ps, x :: xs, hl, h => by
    have hx : x.isLeaf = true := hl x (List.mem_cons_self ..)
    cases x with
    | node _ _ => simp [Tree.isLeaf] at hx
    | leaf b =>
      rw [isGenKids.eq_2] at h
      simp only [Tree.kind, Bool.or_eq_true, Bool.and_eq_true] at h
      rcases h with h | h
      · have : valueLike "leaf" = false := by decide
        simp [this] at h
      · cases ps with
        | nil => simp at h
        | cons y ys =>
          simp only [List.headD_cons, List.tail_cons] at h
          rw [isGen_leaf h.1.2, isGenKids_leaves (j + 1) ys xs (fun x hx => hl x (List.mem_cons_of_mem _ hx)) h.2]

end AcraModel.Censor

namespace AcraModel.Censor
open AcraModel Generated.CensorTable AcraModel.Censor.Match

/-! ## 3. `wf` -/

theorem wfFields_get : ∀ (tys : List Ty) (ks : List Tree), wfFields tys ks = true →
    tys.length = ks.length ∧ ∀ (j : Nat) (ty : Ty) (x : Tree), tys[j]? = some ty → ks[j]? = some x → conforms ty x = true ∧ wf x = true
  | [], [], _ => by
    refine ⟨rfl, ?_⟩
    intro j ty x h
    simp at h
  | [], _ :: _, h => by simp [wfFields] at h
  | _ :: _, [], h => by simp [wfFields] at h
  | ty :: tys, x :: xs, h => by
    simp only [wfFields, Bool.and_eq_true] at h
    obtain ⟨hl, hall⟩ := wfFields_get tys xs h.2
    refine ⟨by simp [hl], fun j ty' x' hty hx => ?_⟩
    cases j with
    | zero =>
      simp only [List.getElem?_cons_zero, Option.some.injEq] at hty hx
      subst hty; subst hx; exact h.1
    | succ j =>
      simp only [List.getElem?_cons_succ] at hty hx
      exact hall j ty' x' hty hx

theorem wfElems_mem (e : Ty) : ∀ (ks : List Tree), wfElems e ks = true → ∀ x ∈ ks, conforms e x = true ∧ wf x = true
  | [], _, x, hx => by cases hx
  | y :: ys, h, x, hx => by
    simp only [wfElems, Bool.and_eq_true] at h
    rcases List.mem_cons.mp hx with e' | e'
    · subst e'; exact h.1
    · exact wfElems_mem e ys h.2 x e'

theorem wfAll_mem : ∀ (ks : List Tree), wfAll ks = true → ∀ x ∈ ks, wf x = true
  | [], _, x, hx => by cases hx
  | y :: ys, h, x, hx => by
    simp only [wfAll, Bool.and_eq_true] at h
    rcases List.mem_cons.mp hx with e' | e'
    · subst e'; exact h.1
    · exact wfAll_mem ys h.2 x e'

/-- well-formedness is hereditary -/
theorem wf_kid {k : String} {ks : List Tree} (h : wf (.node k ks) = true) {x : Tree} (hx : x ∈ ks) : wf x = true := by
  rw [wf.eq_2] at h
  split at h
  · simp only [List.isEmpty_iff] at h; subst h; cases hx
  · split at h
    · exact wfAll_mem ks h x hx
    · split at h
      · next tys _ =>
        obtain ⟨i, hi⟩ := List.getElem?_of_mem hx
        have hl := (wfFields_get tys ks h).1
        have : i < tys.length := by
          rw [hl]; exact (List.getElem?_eq_some_iff.mp hi).1
        exact ((wfFields_get tys ks h).2 i tys[i] x (List.getElem?_eq_getElem this) hi).2
      · split at h
        · next e _ => exact (wfElems_mem e ks h x hx).2
        · cases ks with
          | nil => cases hx
          | cons y ys =>
            cases y with
            | leaf b => cases ys with
              | nil => simp only [List.mem_singleton] at hx; subst hx; rfl
              | cons _ _ => simp [isSingleLeaf] at h
            | node _ _ => simp [isSingleLeaf] at h
        · simp at h

/-- a struct node: its children conform to the declared field types -/
theorem wf_struct {k : String} {ks : List Tree} {tys : List Ty} (h : wf (.node k ks) = true) (hk : fieldTys k = some tys)
    (hn : (k == "nil") = false) (hl : (k == "list") = false) : wfFields tys ks = true := by
  rw [wf.eq_2] at h
  simp only [hn, hl, hk] at h
  simpa using h

/-- a named slice: its elements conform to the element type -/
theorem wf_named {k : String} {ks : List Tree} {e : Ty} (h : wf (.node k ks) = true) (hf : fieldTys k = none)
    (hk : namedTy k = some (some e)) (hn : (k == "nil") = false) (hl : (k == "list") = false) : wfElems e ks = true := by
  rw [wf.eq_2] at h
  simp only [hn, hl, hf, hk] at h
  simpa using h

mutual
theorem acc_kid_aux : ∀ (t : Tree), Match.acc t = true → ∀ k ks, t = .node k ks → ∀ x ∈ ks, Match.acc x = true
  | .leaf _, _, _, _, h, _, _ => by cases h
  | .node k ks, h, k', ks', e, x, hx => by
    cases e
    rw [Match.acc.eq_2, Bool.and_eq_true] at h
    exact accList_mem ks h.2 x hx
theorem accList_mem : ∀ (ks : List Tree), Match.accList ks = true → ∀ x ∈ ks, Match.acc x = true
  | [], _, x, hx => by cases hx
  | y :: ys, h, x, hx => by
    rw [Match.accList.eq_2, Bool.and_eq_true] at h
    rcases List.mem_cons.mp hx with e | e
    · subst e; exact h.1
    · exact accList_mem ys h.2 x e
end

theorem acc_kid {k : String} {ks : List Tree} (h : Match.acc (.node k ks) = true) {x : Tree} (hx : x ∈ ks) : Match.acc x = true :=
  acc_kid_aux _ h k ks rfl x hx

theorem acc_node {k : String} {ks : List Tree} (h : Match.acc (.node k ks) = true) : Match.accNode k ks = true := by
  rw [Match.acc.eq_2, Bool.and_eq_true] at h; exact h.1

end AcraModel.Censor
