import AcraModel.Basic.Bytes
import AcraModel.Generated.CensorTable
/-!
# Parse trees as the censor sees them

A generic tree for `sqlparser` parse trees: a struct node carries its Go type name and its fields in
declaration order (`Generated.CensorTable.structFields`, regenerated from `sqlparser/ast.go`); named
slice types carry their elements; strings, byte strings, booleans and integers are leaves; nil
pointers and nil interfaces are `node "nil" []`. The harness produces exactly this shape by reflection
over the real parse tree (`harness/internal/c05/ops.go: treeOf`).

Also here: the table-rule matcher `common.CheckTableNamesMatch` (`acra-censor/common/common.go`).
-/
namespace AcraModel.Censor
open AcraModel Generated.CensorTable

inductive Tree where
  | leaf (b : Bytes)
  | node (kind : String) (kids : List Tree)
deriving Repr, Inhabited

namespace Tree

mutual
def beq : Tree → Tree → Bool
  | .leaf a, .leaf b => a == b
  | .node k ks, .node k' ks' => k == k' && beqList ks ks'
  | _, _ => false
def beqList : List Tree → List Tree → Bool
  | [], [] => true
  | a :: as, b :: bs => beq a b && beqList as bs
  | _, _ => false
end

instance : BEq Tree := ⟨beq⟩

mutual
theorem beq_refl : ∀ t : Tree, beq t t = true
  | .leaf a => by simp [beq]
  | .node k ks => by simp [beq, beqList_refl ks]
theorem beqList_refl : ∀ ts : List Tree, beqList ts ts = true
  | [] => by simp [beqList]
  | t :: ts => by simp [beqList, beq_refl t, beqList_refl ts]
end

def kind : Tree → String
  | .leaf _ => "leaf"
  | .node k _ => k

def kids : Tree → List Tree
  | .leaf _ => []
  | .node _ ks => ks

def nil : Tree := .node "nil" []

def isNil (t : Tree) : Bool := t.kind == "nil"

def leafBytes : Tree → Bytes
  | .leaf b => b
  | .node _ _ => []

def fieldIndex (kind name : String) : Option Nat :=
  (structFields.lookup kind).bind fun fs => fs.findIdx? (· == name)

/-- `t.F` for a struct node. -/
def field (t : Tree) (name : String) : Option Tree :=
  match t with
  | .node k ks => (fieldIndex k name).bind fun i => ks[i]?
  | .leaf _ => none

mutual
def depth : Tree → Nat
  | .leaf _ => 1
  | .node _ ks => depthList ks + 1
def depthList : List Tree → Nat
  | [] => 0
  | t :: ts => max (depth t) (depthList ts)
end

end Tree

/-- bytes of an ASCII text (the constants of `common.go` and the keywords compared here are ASCII) -/
def strBytes (s : String) : Bytes := s.toList.map fun c => UInt8.ofNat c.toNat

/-- injective rendering of a byte string as a `String` (Latin-1) – used for the texts the chain compares. -/
def bytesStr (b : Bytes) : String := String.ofList (b.map fun x => Char.ofNat x.toNat)

def lowerByte (x : UInt8) : UInt8 := if 65 ≤ x.toNat ∧ x.toNat ≤ 90 then x + 32 else x

def lowerBytes (b : Bytes) : Bytes := b.map lowerByte

/-! ## `common.CheckTableNamesMatch` -/

/-- `TableIdent.String()` -/
def tableIdentStr (t : Tree) : String := bytesStr ((t.field "v").getD Tree.nil).leafBytes

/-- `sqlparser.String(TableName)`: `qualifier.name`. Assumption (trusted base): identifiers need no
back-quoting (plain, not reserved words) – the generators only produce such names. -/
def tableNameStr (t : Tree) : String :=
  let n := tableIdentStr ((t.field "Name").getD Tree.nil)
  let q := tableIdentStr ((t.field "Qualifier").getD Tree.nil)
  if n == "" then "" else if q == "" then n else q ++ "." ++ n

/-- the loop of `checkTableExprsMatch`: `break` on a partial match, count the full matches -/
def tableLoop (f : Tree → Bool × Bool) (one : Bool) (counter : Nat) : List Tree → Bool × Nat
  | [] => (one, counter)
  | x :: xs =>
    if (f x).1 then (if (f x).2 then tableLoop f true (counter + 1) xs else (true, counter)) else tableLoop f one counter xs

/-- `checkTableExprMatch` / `checkTableExprsMatch` (mutually recursive in Go through JoinTableExpr and
ParenTableExpr); `fuel` bounds the nesting depth (any value above the tree's depth gives the same result). -/
def checkTableExpr (set : List String) : Nat → Tree → Bool × Bool
  | 0, _ => (false, false)
  | fuel + 1, t =>
    match t.kind with
    | "AliasedTableExpr" =>
      let e := (t.field "Expr").getD Tree.nil
      -- setOfTables[sqlparser.String(tbl.Expr)]: a sub-select prints as "(select …)", never a configured name
      if e.kind == "TableName" && set.contains (tableNameStr e) then (true, true) else (false, false)
    | "JoinTableExpr" =>
      let l := checkTableExpr set fuel ((t.field "LeftExpr").getD Tree.nil)
      let r := checkTableExpr set fuel ((t.field "RightExpr").getD Tree.nil)
      (l.1 || r.1, l.2 && r.2)
    | "ParenTableExpr" =>
      let es := ((t.field "Exprs").getD Tree.nil).kids
      let (one, c) := tableLoop (checkTableExpr set fuel) false 0 es
      (one, c == es.length)
    | _ => (false, false)

def checkTableExprs (set : List String) (fuel : Nat) (es : List Tree) : Bool × Bool :=
  checkTableExpr set (fuel + 1) (.node "ParenTableExpr" [.node "TableExprs" es])

/-- `CheckTableNamesMatch(parsedQuery, setOfTables)` = (atLeastOneTableNameMatch, allTableNamesMatch). -/
def tablesMatch (t : Tree) (set : List String) : Bool × Bool :=
  match t.kind with
  | "Select" => checkTableExprs set t.depth ((t.field "From").getD Tree.nil).kids
  | "Insert" =>
    -- setOfTables[query.Table.Name.String()]: the bare name, the qualifier is ignored
    let n := tableIdentStr ((((t.field "Table").getD Tree.nil).field "Name").getD Tree.nil)
    let b := set.contains n
    (b, b)
  | _ => (false, false)

/-- once some element of the list matches, the loop reports "at least one" -/
theorem tableLoop_one (f : Tree → Bool × Bool) (one : Bool) (c : Nat) (xs : List Tree)
    (h : one = true ∨ ∃ x ∈ xs, (f x).1 = true) : (tableLoop f one c xs).1 = true := by
  induction xs generalizing one c with
  | nil =>
    rcases h with h | ⟨x, hx, _⟩
    · simpa [tableLoop] using h
    · cases hx
  | cons y ys ih =>
    simp only [tableLoop]
    cases hy : (f y).1
    · simp only [Bool.false_eq_true, if_false]
      apply ih
      rcases h with h | ⟨x, hx, hfx⟩
      · exact Or.inl h
      · rcases List.mem_cons.mp hx with e | e
        · subst e; simp [hy] at hfx
        · exact Or.inr ⟨x, e, hfx⟩
    · simp only [if_true]
      cases (f y).2
      · simp
      · simp only [if_true]; exact ih true (c + 1) (Or.inl rfl)

/-- a plain table of the set in the top-level FROM list of a SELECT is reported by `CheckTableNamesMatch` -/
theorem tablesMatch_top_level (t x : Tree) (set : List String)
    (hk : t.kind = "Select") (hx : x ∈ ((t.field "From").getD Tree.nil).kids)
    (hxk : x.kind = "AliasedTableExpr") (he : ((x.field "Expr").getD Tree.nil).kind = "TableName")
    (hin : set.contains (tableNameStr ((x.field "Expr").getD Tree.nil)) = true) :
    (tablesMatch t set).1 = true := by
  have hd : ∃ n, t.depth = n + 1 := by
    cases t with
    | leaf b => exact ⟨0, rfl⟩
    | node k ks => exact ⟨Tree.depthList ks, rfl⟩
  obtain ⟨n, hn⟩ := hd
  have hfx : (checkTableExpr set (n + 1) x).1 = true := by
    have hin' : tableNameStr ((x.field "Expr").getD Tree.nil) ∈ set := by simpa using hin
    simp [checkTableExpr, hxk, he, hin']
  unfold tablesMatch
  simp only [hk, checkTableExprs, hn]
  have hw : (Tree.node "ParenTableExpr" [Tree.node "TableExprs" ((t.field "From").getD Tree.nil).kids]).kind = "ParenTableExpr" := rfl
  have hf : (((Tree.node "ParenTableExpr" [Tree.node "TableExprs" ((t.field "From").getD Tree.nil).kids]).field "Exprs").getD Tree.nil).kids
      = ((t.field "From").getD Tree.nil).kids := by rfl
  simp only [checkTableExpr, hw, hf]
  exact tableLoop_one _ false 0 _ (Or.inr ⟨x, hx, hfx⟩)

end AcraModel.Censor
