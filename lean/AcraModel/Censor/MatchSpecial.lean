import AcraModel.Censor.MatchRegular
/-! # `match_generalise`: the hand-written functions and the type switches -/
namespace AcraModel.Censor.Match
open AcraModel AcraModel.Censor Generated.CensorTable

/-- a leaf-typed field of a node and of a node-by-node generalisation of it is the same leaf -/
theorem leaf_field_eq {aw : Bool} {k fn : String} {ks ps : List Tree} (hwf : wf (.node k ks) = true)
    (hgen : isGenKids aw k 0 ps ks = true) (hd : declTy k fn = some .leaf) :
    fld (.node k ps) fn = fld (.node k ks) fn := by
  obtain ⟨j, x, y, _, hx, hy, _, _, hc, _, hg⟩ := field_align hwf hgen hd
  cases x with
  | node _ _ => simp [conforms, Tree.isLeaf] at hc
  | leaf b =>
    have := isGen_leaf hg
    subst this
    simp [fld, hx, hy]

/-- what `accepts` says about a node -/
theorem accepts_node {fn : String} {q : Tree} (h : accepts fn q = true) (hn : (domOf fn).nilOk = false) :
    ∃ ks, q = .node q.kind ks ∧ (domOf fn).kinds.contains q.kind = true ∧ q.isNilNode = false := by
  simp only [accepts, Bool.and_eq_true, Bool.or_eq_true, Bool.not_eq_true'] at h
  obtain ⟨⟨_, hl⟩, h⟩ := h
  rcases h with h | h
  · rw [hn] at h; cases h.2
  · cases q with
    | leaf b => simp [Tree.isLeaf] at hl
    | node k ks => exact ⟨ks, rfl, h.2, h.1⟩

theorem domOf_SQLVal : domOf "areEqualSQLVal" = ⟨["SQLVal"], false⟩ := by decide
theorem domOf_ColIdent : domOf "areEqualColIdent" = ⟨["ColIdent"], false⟩ := by decide
theorem domOf_Subquery : domOf "areEqualSubquery" = ⟨["Subquery"], false⟩ := by decide
theorem domOf_ValTuple : domOf "areEqualValTuple" = ⟨["ValTuple"], false⟩ := by decide
theorem domOf_SelectExprs : domOf "areEqualSelectExprs" = ⟨["SelectExprs"], false⟩ := by decide

theorem kind_of_contains_single {k k' : String} (h : [k'].contains k = true) : k = k' := by
  simpa using h

/-- **rank 1**: `areEqualSQLVal`, `areEqualColIdent` -/
theorem rank1_ok {aw : Bool} {fn : String} {q p : Tree} {fuel : Nat} (hr : rank1Fns.contains fn = true)
    (hq : accepts fn q = true) (hwf : wf q = true) (hgen : isGen aw false p q = true) (hfuel : 1 ≤ fuel) :
    evalFn fuel fn q p = true := by
  obtain ⟨f, rfl⟩ : ∃ f, fuel = f + 1 := ⟨fuel - 1, by omega⟩
  simp only [rank1Fns, List.contains_cons, List.contains_nil, Bool.or_false, Bool.or_eq_true, beq_iff_eq] at hr
  rcases hr with rfl | rfl
  · obtain ⟨ks, hqe, hk, _⟩ := accepts_node hq (by rw [domOf_SQLVal])
    rw [domOf_SQLVal] at hk
    have hk' := kind_of_contains_single hk
    rw [hk'] at hqe
    subst hqe
    rw [evalFn_SQLVal]
    rcases isGen_node hgen with h | ⟨ps, rfl, hk2⟩
    · have : placeholdersFor false "SQLVal" = [valuePattern] := by rfl
      rw [this, List.mem_singleton] at h
      subst h
      have : isValuePattern valuePattern = true := by decide
      simp [this]
    · have h1 := leaf_field_eq (fn := "Type") hwf hk2 (by decide)
      have h2 := leaf_field_eq (fn := "Val") hwf hk2 (by decide)
      simp [h1, h2]
  · obtain ⟨ks, hqe, hk, _⟩ := accepts_node hq (by rw [domOf_ColIdent])
    rw [domOf_ColIdent] at hk
    have hk' := kind_of_contains_single hk
    rw [hk'] at hqe
    subst hqe
    rw [evalFn_ColIdent]
    rcases isGen_node hgen with h | ⟨ps, rfl, hk2⟩
    · have : placeholdersFor false "ColIdent" = [columnPattern] := by rfl
      rw [this, List.mem_singleton] at h
      subst h
      have : isColumnPattern columnPattern = true := by decide
      simp [this]
    · have h1 := leaf_field_eq (fn := "val") hwf hk2 (by decide)
      simp [h1]

end AcraModel.Censor.Match

namespace AcraModel.Censor.Match
open AcraModel AcraModel.Censor Generated.CensorTable

/-! ## the sites of the hand-written functions -/

theorem site_of_acc {k : String} {ks : List Tree} (hacc : acc (.node k ks) = true) {s : String × String × String}
    (hs : s ∈ specialSites) : siteAcc k ks s = true := by
  have := acc_node hacc
  simp only [accNode, Bool.and_eq_true, List.all_eq_true] at this
  exact this.2 s hs

theorem site_field {k f c : String} {ks : List Tree} (hacc : acc (.node k ks) = true) (hs : (k, f, c) ∈ specialSites)
    (hf : (f == "") = false) {x : Tree} (hx : (Tree.node k ks).field f = some x) : accepts c x = true := by
  have := site_of_acc hacc hs
  simpa [siteAcc, hf, hx] using this

theorem site_elems {k c : String} {ks : List Tree} (hacc : acc (.node k ks) = true) (hs : (k, "", c) ∈ specialSites)
    {x : Tree} (hx : x ∈ ks) : accepts c x = true := by
  have := site_of_acc hacc hs
  simp only [siteAcc, bne_self_eq_false, Bool.false_or, beq_self_eq_true, if_true, List.all_eq_true] at this
  exact this x hx

/-! ## `areEqualSubquery` -/

theorem subquery_ok {aw : Bool} {q p : Tree} {fuel : Nat}
    (hq : accepts "areEqualSubquery" q = true) (hwf : wf q = true) (hacc : acc q = true)
    (IH : ∀ x, x.depth < q.depth → wf x = true → acc x = true → P aw x)
    (hgen : isGen aw false p q = true) (hfuel : 3 * p.depth + 2 ≤ fuel) :
    evalFn fuel "areEqualSubquery" q p = true := by
  obtain ⟨f, rfl⟩ : ∃ f, fuel = f + 1 := ⟨fuel - 1, by omega⟩
  obtain ⟨ks, hqe, hk, _⟩ := accepts_node hq (by rw [domOf_Subquery])
  rw [domOf_Subquery] at hk
  rw [kind_of_contains_single hk] at hqe
  subst hqe
  rw [evalFn_Subquery]
  rcases isGen_node hgen with h | ⟨ps, rfl, hk2⟩
  · have : placeholdersFor false "Subquery" = [subqueryNode] := by rfl
    rw [this, List.mem_singleton] at h
    subst h
    have h1 : fld subqueryNode "Select" = subqueryPattern := by rfl
    rw [h1, Tree.beq_refl subqueryPattern |> fun h => (h : (subqueryPattern == subqueryPattern) = true)]
    cases evalFn f "areEqualSelectStatement" (fld (Tree.node "Subquery" ks) "Select") subqueryPattern <;> rfl
  · have hd : declTy "Subquery" "Select" = some (.iface "SelectStatement") := by rfl
    obtain ⟨j, x, y, _, hx, hy, hkx, hky, _, hwx, hg⟩ := field_align hwf hk2 hd
    rw [whereSlot_ne_select (by decide)] at hg
    have hxm := List.mem_of_getElem? hkx
    have hym := List.mem_of_getElem? hky
    have hax := site_field hacc (k := "Subquery") (f := "Select") (c := "areEqualSelectStatement") (by decide) (by decide) hx
    have := kid_call IH (Nat.lt_of_succ_le (Tree.depth_kid hxm)) (Tree.depth_kid hym) hwx (acc_kid hacc hxm) hax hg (by decide) hfuel
    simp [fld, hx, hy, this]

/-! ## lists -/

theorem all2_of_forall {F : Tree → Tree → Bool} : ∀ (ks ps : List Tree), ps.length = ks.length →
    (∀ (i : Nat) (x y : Tree), ks[i]? = some x → ps[i]? = some y → F x y = true) → all2 F ks ps = true
  | [], [], _, _ => rfl
  | [], _ :: _, h, _ => by simp at h
  | _ :: _, [], h, _ => by simp at h
  | x :: xs, y :: ys, h, hall => by
    simp only [all2, Bool.and_eq_true]
    refine ⟨hall 0 x y rfl rfl, all2_of_forall xs ys (by simpa using h) fun i x' y' hx hy => hall (i + 1) x' y' (by simpa using hx) (by simpa using hy)⟩

theorem lov_last : (listOfValuesPattern.kind == "SQLVal" && isListOfValuesPattern listOfValuesPattern) = true := by decide

/-- the elements of a tuple against a generalisation of it (with the `%%LIST_OF_VALUES%%` tail) -/
theorem valTuple_kids {aw : Bool} {F : Tree → Tree → Bool} : ∀ (j : Nat) (ps ks : List Tree),
    isGenKids aw "ValTuple" j ps ks = true →
    (∀ x ∈ ks, ∀ y ∈ ps, isGen aw false y x = true → F x y = true) →
    (∀ x ∈ ks, valueLike x.kind = true → F x listOfValuesPattern = true) →
    prefixAll F ks ps = true ∧
      (ks.length > ps.length → ∃ l, ps.getLast? = some l ∧ (l.kind == "SQLVal" && isListOfValuesPattern l) = true)
  | j, ps, [], h, _, _ => by
    rw [isGenKids.eq_1, List.isEmpty_iff] at h
    subst h
    exact ⟨rfl, fun h => by simp at h⟩
  | j, ps, x :: xs, h, hF, hL => by
    rw [isGenKids.eq_2] at h
    simp only [Bool.or_eq_true, Bool.and_eq_true, beq_iff_eq] at h
    rcases h with ⟨⟨_, hv⟩, hps⟩ | h
    · subst hps
      have := hL x (List.mem_cons_self ..) hv
      refine ⟨by simp [prefixAll, this], fun _ => ⟨listOfValuesPattern, rfl, lov_last⟩⟩
    · cases ps with
      | nil => simp at h
      | cons y ys =>
        simp only [List.headD_cons, List.tail_cons] at h
        obtain ⟨⟨_, hg⟩, hrest⟩ := h
        rw [whereSlot_ne_select (by decide)] at hg
        have hxy := hF x (List.mem_cons_self ..) y (List.mem_cons_self ..) hg
        obtain ⟨hpre, hlen⟩ := valTuple_kids (j + 1) ys xs hrest
          (fun x' hx' y' hy' => hF x' (List.mem_cons_of_mem _ hx') y' (List.mem_cons_of_mem _ hy'))
          (fun x' hx' => hL x' (List.mem_cons_of_mem _ hx'))
        refine ⟨by simp [prefixAll, hxy, hpre], fun hgt => ?_⟩
        obtain ⟨l, hl, hlv⟩ := hlen (by simpa using hgt)
        refine ⟨l, ?_, hlv⟩
        cases ys with
        | nil => simp at hl
        | cons z zs => simpa [List.getLast?_cons_cons] using hl

end AcraModel.Censor.Match

namespace AcraModel.Censor.Match
open AcraModel AcraModel.Censor Generated.CensorTable

/-! ## type switches: the hand-written cases -/

theorem typeSwitch_special {call : String → Tree → Tree → Bool} {fn : String} {q p : Tree} {sp : String → Option Bool}
    {k qa pa : String} (h : (typeSwitches.lookup fn).bind (·.find? (·.1 == p.kind)) = some (k, "special", qa, pa)) :
    typeSwitchEval call fn q p sp = (sp p.kind).getD false := by
  simp [typeSwitchEval, h]

theorem exprCase_SQLVal : (typeSwitches.lookup "areEqualExpr").bind (·.find? (·.1 == "SQLVal")) = some ("SQLVal", "special", "", "") := by decide
theorem exprCase_ColName : (typeSwitches.lookup "areEqualExpr").bind (·.find? (·.1 == "ColName")) = some ("ColName", "special", "", "") := by decide

theorem valueLike_not_nil {x : Tree} (h : valueLike x.kind = true) : x.isNil = false := by
  cases hn : x.isNil with
  | false => rfl
  | true =>
    simp only [Tree.isNil, beq_iff_eq] at hn
    rw [hn] at h
    exact absurd h (by decide)

/-- `areEqualExpr(x, p)` for a literal-like `x` and `p` = `%%VALUE%%` or `%%LIST_OF_VALUES%%` -/
theorem expr_value {x p : Tree} {f : Nat} (hx : valueLike x.kind = true) (hp : p = valuePattern ∨ p = listOfValuesPattern) :
    evalFn (f + 2) "areEqualExpr" x p = true := by
  have hpk : p.kind = "SQLVal" := by rcases hp with rfl | rfl <;> rfl
  have hpn : p.isNil = false := by rcases hp with rfl | rfl <;> rfl
  have hpv : (isValuePattern p || isListOfValuesPattern p) = true := by rcases hp with rfl | rfl <;> decide
  rw [evalFn_Expr, valueLike_not_nil hx, hpn]
  simp only [Bool.false_and, Bool.or_self, Bool.false_eq_true, if_false]
  rw [typeSwitch_special (k := "SQLVal") (qa := "") (pa := "") (by rw [hpk]; exact exprCase_SQLVal), hpk]
  simp only [exprSpecial, beq_self_eq_true, if_true]
  split
  · rw [evalFn_SQLVal]
    simp [hpv]
  · next h1 =>
    have : (x.kind == "BoolVal" || x.kind == "NullVal" || x.kind == "FuncExpr") = true := by
      simp only [valueLike, Bool.or_eq_true] at hx
      simp only [Bool.not_eq_true] at h1
      rcases hx with ((h | h) | h) | h
      · rw [h] at h1; cases h1
      · simp [h]
      · simp [h]
      · simp [h]
    simp [this, hpv]

/-! ## `areEqualValTuple`, `areEqualSelectExprs` -/

theorem valTuple_ok {aw : Bool} {q p : Tree} {fuel : Nat}
    (hq : accepts "areEqualValTuple" q = true) (hwf : wf q = true) (hacc : acc q = true)
    (IH : ∀ x, x.depth < q.depth → wf x = true → acc x = true → P aw x)
    (hgen : isGen aw false p q = true) (hfuel : 3 * p.depth + 2 ≤ fuel) :
    evalFn fuel "areEqualValTuple" q p = true := by
  obtain ⟨f, rfl⟩ : ∃ f, fuel = f + 1 := ⟨fuel - 1, by omega⟩
  obtain ⟨ks, hqe, hk, _⟩ := accepts_node hq (by rw [domOf_ValTuple])
  rw [domOf_ValTuple] at hk
  rw [kind_of_contains_single hk] at hqe
  subst hqe
  rw [evalFn_ValTuple]
  rcases isGen_node hgen with h | ⟨ps, rfl, hk2⟩
  · have : placeholdersFor false "ValTuple" = [] := by rfl
    rw [this] at h; cases h
  · have hpd := Tree.depth_pos (.node "ValTuple" ps)
    obtain ⟨f', rfl⟩ : ∃ f', f = f' + 2 := ⟨f - 2, by omega⟩
    obtain ⟨hpre, hlen⟩ := valTuple_kids (F := evalFn (f' + 2) "areEqualExpr") 0 ps ks hk2
      (fun x hx y hy hg =>
        kid_call IH (Nat.lt_of_succ_le (Tree.depth_kid hx)) (Tree.depth_kid hy) (wf_kid hwf hx) (acc_kid hacc hx)
          (site_elems hacc (k := "ValTuple") (c := "areEqualExpr") (by decide) hx) hg (by decide) hfuel)
      (fun x _ hv => expr_value hv (Or.inr rfl))
    simp only [Tree.kids, hpre, Bool.not_true, Bool.false_eq_true, if_false]
    by_cases hgt : ks.length > ps.length
    · obtain ⟨l, hl, hlv⟩ := hlen hgt
      simp [hgt, hl, hlv]
    · simp [hgt]

theorem selectExprs_ok {aw : Bool} {q p : Tree} {fuel : Nat}
    (hq : accepts "areEqualSelectExprs" q = true) (hwf : wf q = true) (hacc : acc q = true)
    (IH : ∀ x, x.depth < q.depth → wf x = true → acc x = true → P aw x)
    (hgen : isGen aw false p q = true) (hfuel : 3 * p.depth + 2 ≤ fuel) :
    evalFn fuel "areEqualSelectExprs" q p = true := by
  obtain ⟨f, rfl⟩ : ∃ f, fuel = f + 1 := ⟨fuel - 1, by omega⟩
  obtain ⟨ks, hqe, hk, _⟩ := accepts_node hq (by rw [domOf_SelectExprs])
  rw [domOf_SelectExprs] at hk
  rw [kind_of_contains_single hk] at hqe
  subst hqe
  rw [evalFn_SelectExprs]
  rcases isGen_node hgen with h | ⟨ps, rfl, hk2⟩
  · have : placeholdersFor false "SelectExprs" = [starList] := by rfl
    rw [this, List.mem_singleton] at h
    subst h
    rfl
  · split
    · rfl
    · obtain ⟨hlen, hall⟩ := isGenKids_plain (k := "SelectExprs") (by decide) 0 ps ks hk2
      apply all2_of_forall _ _ hlen
      intro i x y hx hy
      have hg := hall i x y hx hy
      rw [whereSlot_ne_select (by decide)] at hg
      have hxm := List.mem_of_getElem? hx
      have hym := List.mem_of_getElem? hy
      exact kid_call IH (Nat.lt_of_succ_le (Tree.depth_kid hxm)) (Tree.depth_kid hym) (wf_kid hwf hxm) (acc_kid hacc hxm)
        (site_elems hacc (k := "SelectExprs") (c := "areEqualSelectExpr") (by decide) hxm) hg (by decide) hfuel

end AcraModel.Censor.Match

namespace AcraModel.Censor.Match
open AcraModel AcraModel.Censor Generated.CensorTable

/-! ## type switches: the plain cases, generically -/

/-- the functions of rank < 3 on the node itself (proved before the type switches) -/
def H2 (aw : Bool) (q : Tree) : Prop :=
  ∀ c p' f', rankOf c < 3 → accepts c q = true → isGen aw false p' q = true → (rankOf c = 2 → p'.kind = q.kind) →
    need c p' ≤ f' → evalFn f' c q p' = true

theorem find?_fst {β : Type} {cases : List (String × β)} {k : String} {row : String × β}
    (h : cases.find? (·.1 == k) = some row) : row.1 = k ∧ row ∈ cases := by
  have h1 := List.find?_some h
  have h2 := List.mem_of_find?_eq_some h
  exact ⟨by simpa using h1, h2⟩

theorem find?_of_contains {β : Type} : ∀ {cases : List (String × β)} {k : String},
    (cases.map (·.1)).contains k = true → ∃ row, cases.find? (·.1 == k) = some row
  | [], k, h => by simp at h
  | c :: cs, k, h => by
    simp only [List.map_cons, List.contains_cons, Bool.or_eq_true, beq_iff_eq] at h
    by_cases hc : c.1 = k
    · exact ⟨c, by simp [List.find?_cons, hc]⟩
    · rcases h with h | h
      · exact absurd h.symm hc
      · obtain ⟨row, hr⟩ := find?_of_contains (cases := cs) h
        exact ⟨row, by simp [List.find?_cons, hc, hr]⟩

theorem okFn_of_case {c : String} (h : (rank1Fns.contains c = true ∨ rank2Specials.contains c = true) ∨ okRegular c = true) : okFn c = true := by
  simp only [okFn, Bool.or_eq_true]
  exact Or.inl h

/-- a plain case of a type switch -/
theorem switch_ok {aw : Bool} (hw : HW aw) {fn : String} {cases : List (String × String × String × String)}
    (hts : typeSwitches.lookup fn = some cases) (hst : cases.all (caseTyped fn) = true)
    {k : String} {ks : List Tree} (hwf : wf (.node k ks) = true) (hacc : acc (.node k ks) = true)
    (hnn : (Tree.node k ks).isNilNode = false)
    (IH : ∀ x, x.depth < (Tree.node k ks).depth → wf x = true → acc x = true → P aw x) (h2 : H2 aw (.node k ks))
    (hkin : (cases.map (·.1)).contains k = true) (hnex : excludedCases.contains (fn, k) = false)
    {p : Tree} (hgen : isGen aw false p (.node k ks) = true) (hpk : p.kind = k) {f : Nat} (hfuel : 3 * p.depth + 3 ≤ f + 1)
    {sp : String → Option Bool}
    (hspec : ∀ row, cases.find? (·.1 == k) = some row → row.2.1 = "special" → (sp k).getD false = true) :
    typeSwitchEval (evalFn f) fn (.node k ks) p sp = true := by
  obtain ⟨row, hfind⟩ := find?_of_contains hkin
  obtain ⟨hrk, hrm⟩ := find?_fst hfind
  obtain ⟨k0, callee, qa, pa⟩ := row
  simp only at hrk
  subst hrk
  simp only [typeSwitchEval, hts, Option.bind_some, hpk, hfind]
  by_cases hsp : callee = "special"
  · subst hsp
    simpa using hspec _ hfind rfl
  · have hsp' : (callee == "special") = false := by simpa using hsp
    simp only [hsp', Bool.false_eq_true, if_false, Tree.kind_node, bne_self_eq_false]
    have hct := List.all_eq_true.mp hst _ hrm
    simp only [caseTyped, hnex, hsp', Bool.false_or, Bool.or_eq_true, Bool.and_eq_true, beq_iff_eq, Bool.not_eq_true',
      List.isEmpty_iff, List.any_eq_true, bne_iff_ne, ne_eq, decide_eq_true_eq] at hct
    have hcacc : caseAcc k0 ks fn (k0, callee, qa, pa) = true := by
      have := acc_node hacc
      simp only [accNode, Bool.and_eq_true, List.all_eq_true] at this
      exact this.1.2 (fn, cases) (lookup_mem fn cases typeSwitches hts) _ hrm
    simp only [caseAcc, bne_self_eq_false, hnex, hsp', Bool.false_or] at hcacc
    rcases hct with ⟨⟨⟨⟨⟨hqa, hpa⟩, hnb⟩, hrank⟩, hok⟩, hdom⟩ | ⟨hph, fn', _, ⟨⟨⟨⟨⟨⟨hqa, hpa⟩, hfc⟩, _⟩, hne⟩, hws⟩, hpart⟩⟩
    · -- the whole node is handed on
      simp only [sel, hqa, hpa, selO_qWhole, selO_pWhole]
      rw [opCmp_fn hnb]
      apply h2 callee p f hrank _ hgen (fun _ => by rw [hpk]; rfl)
      · unfold need; omega
      · have hdom' : k0 ∈ (domOf callee).kinds := by simpa using hdom
        simp [accepts, okFn_of_case hok, Tree.isLeaf, hnn, Tree.kind_node, hdom']
    · -- a field of the node is compared
      rcases isGen_node hgen with h | ⟨ps, rfl, hk2⟩
      · rw [hph] at h; cases h
      · have cx : Ctx aw k0 ks ps f := ⟨hw, hwf, hacc, hk2, IH, by omega⟩
        cases hd : declTy k0 fn' with
        | none => simp [hd, partOk] at hpart
        | some ty =>
          rw [hd] at hpart
          obtain ⟨x, y, hx, hy, hxm, hym, hc, hwx, hax, hg⟩ := locate_field cx hd hws
          simp only [sel, hqa, hpa, selO_qField _ _ _ hfc, selO_pField _ _ _ hfc, hx, hy]
          rw [hqa] at hcacc
          exact part_cmp IH (Nat.lt_of_succ_le (Tree.depth_kid hxm)) (Tree.depth_kid hym) hc hwx hax hpart (by simpa using hne)
            (pairAcc_field hfc hcacc hx) hg cx.fuel

end AcraModel.Censor.Match
