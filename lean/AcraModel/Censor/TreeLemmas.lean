import AcraModel.Censor.Tree
/-! Helper lemmas about `Tree` (boolean equality is equality, depth of children, field access). -/
namespace AcraModel.Censor
open AcraModel

namespace Tree

mutual
theorem eq_of_beq : ∀ a b : Tree, beq a b = true → a = b
  | .leaf x, .leaf y, h => by simp [beq] at h; rw [h]
  | .leaf _, .node _ _, h => by simp [beq] at h
  | .node _ _, .leaf _, h => by simp [beq] at h
  | .node k ks, .node k' ks', h => by
    simp only [beq, Bool.and_eq_true, beq_iff_eq] at h
    rw [h.1, eq_of_beqList ks ks' h.2]
theorem eq_of_beqList : ∀ as bs : List Tree, beqList as bs = true → as = bs
  | [], [], _ => rfl
  | [], _ :: _, h => by simp [beqList] at h
  | _ :: _, [], h => by simp [beqList] at h
  | a :: as, b :: bs, h => by
    simp only [beqList, Bool.and_eq_true] at h
    rw [eq_of_beq a b h.1, eq_of_beqList as bs h.2]
end

instance : LawfulBEq Tree where
  eq_of_beq {a b} h := eq_of_beq a b h
  rfl {a} := beq_refl a

theorem depth_le_depthList {x : Tree} {ks : List Tree} (h : x ∈ ks) : x.depth ≤ depthList ks := by
  induction ks with
  | nil => cases h
  | cons y ys ih =>
    simp only [depthList]
    rcases List.mem_cons.mp h with e | e
    · subst e; exact Nat.le_max_left _ _
    · exact Nat.le_trans (ih e) (Nat.le_max_right _ _)

theorem depth_kid {k : String} {ks : List Tree} {x : Tree} (h : x ∈ ks) : x.depth + 1 ≤ (Tree.node k ks).depth := by
  simp only [depth]; exact Nat.succ_le_succ (depth_le_depthList h)

theorem depth_getElem? {k : String} {ks : List Tree} {x : Tree} {i : Nat} (h : ks[i]? = some x) :
    x.depth + 1 ≤ (Tree.node k ks).depth := depth_kid (List.mem_of_getElem? h)

theorem kind_node (k : String) (ks : List Tree) : (Tree.node k ks).kind = k := rfl

theorem depth_pos (t : Tree) : 1 ≤ t.depth := by
  cases t <;> simp [depth]

end Tree
end AcraModel.Censor
