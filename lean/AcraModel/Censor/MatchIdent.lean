import AcraModel.Censor.MatchSound
import AcraModel.Censor.MatchWalk
/-!
# The converse direction, closed: what the matcher has compared when it says `true`

`match_generalise` says a pattern derived from a statement matches it. This file proves the converse over the
**regenerated** comparator table, for everything the matcher reaches:

* `reach f fn q p` – the *lock-step walk*: starting with the call `fn(q, p)`, the list of all calls
  `callee(x, y)` the matcher makes on the way down, where `x` is a part of the statement and `y` is **the same part of
  the pattern** (the walk applies the selector of the query-side operand of every comparison – `q.Qualifier`,
  `q.Exprs[i]` – to *both* trees). The walk does not descend below a call that is answered `true` early by a
  placeholder escape (`earlyTrue`: nil/nil guard, `%%SELECT%%`-style shortcut, `%%WHERE%%`, `%%SUBQUERY%%`, a lone `*`
  select list).
* `reach_sound` – if the matcher says `true` for `fn(q, p)`, **every** call of the walk is answered `true`. This needs
  that each comparator hands `(query.X, pattern.X)` – the *same* `X` of the two different trees – to its callee:
  `tablePairsOk`, a decidable check on the regenerated table (`Props/C05.lean:
  fact_comparators_compare_pattern_with_query`). A comparator that compares `query.X` with `query.X` (or with
  `pattern.Y`) makes that fact – and with it the theorems below – fail.
* leaf comparators: `tableIdent_sound` (equal up to letter case and `CompliantName`), `colIdent_sound`, `sqlVal_sound`.

Together (`Props/C05.lean: match_sound_on_identifiers`, `match_sound_on_literals_reached`): when a pattern matches a
statement, every table identifier (name and every qualifier component of table names, of column qualifiers and of
`t.*`), column identifier and literal of the pattern that is reached by the walk equals the statement's at the same
position (or is `%%COLUMN%%` / `%%VALUE%%` / `%%LIST_OF_VALUES%%`).
-/
namespace AcraModel.Censor.Match
open AcraModel AcraModel.Censor Generated.CensorTable

/-! ## which operand pairs a comparator compares -/

theorem pairQP_spec {a b : Opnd} (h : pairQP a b = true) :
    a.onQ = true ∧ b.onQ = false ∧ a.rootIdx = b.rootIdx ∧ a.path = b.path := by
  simp only [pairQP, Bool.and_eq_true, Bool.not_eq_true', beq_iff_eq] at h
  exact ⟨h.1.1.1, h.1.1.2, h.1.2, h.2⟩

/-! ## one side of an operand -/

theorem selO_onQ {i : Option Nat} {q p : Tree} {o : Opnd} (h : o.onQ = true) : selO i q p o = selSide i q o := by
  simp only [selO, selSide, h, if_true]

theorem selO_onP {i : Option Nat} {q p : Tree} {o : Opnd} (h : o.onQ = false) : selO i q p o = selSide i p o := by
  simp only [selO, selSide, h, Bool.false_eq_true, if_false]

theorem selSide_congr {i : Option Nat} {x : Tree} {a b : Opnd} (h1 : a.rootIdx = b.rootIdx) (h2 : a.path = b.path) :
    selSide i x a = selSide i x b := by
  simp only [selSide, h1, h2]

/-! ## the comparisons of one comparator body -/

theorem opCmp_deepEqual (call : String → Tree → Tree → Bool) (x y : Tree) : opCmp call "reflect.DeepEqual" x y = (x == y) := by
  simp [opCmp]

theorem atom_pass_site {call : String → Tree → Tree → Bool} {esc : String → Tree → Bool} {q p : Tree} {i : Option Nat}
    {s : AStep} {c : String} {a b : Opnd}
    (hp : (atomAt call esc q p i s).isPass = true) (hs : atomSite s = some (c, a, b)) :
    ∃ x y, selO i q p a = some x ∧ selO i q p b = some y ∧ opCmp call c x y = true := by
  cases s with
  | cmp c' a' b' =>
    simp only [atomSite, Option.some.injEq, Prod.mk.injEq] at hs
    obtain ⟨rfl, rfl, rfl⟩ := hs
    simp only [atomAt] at hp
    cases ha : selO i q p a' with
    | none => simp [ha, Res.isPass] at hp
    | some x =>
      cases hb : selO i q p b' with
      | none => simp [ha, hb, Res.isPass] at hp
      | some y =>
        simp only [ha, hb] at hp
        cases hc : opCmp call c' x y with
        | true => exact ⟨x, y, rfl, rfl, hc⟩
        | false => simp [hc, Res.isPass] at hp
  | cmpEsc e ea c' a' b' =>
    simp only [atomSite, Option.some.injEq, Prod.mk.injEq] at hs
    obtain ⟨rfl, rfl, rfl⟩ := hs
    simp only [atomAt] at hp
    cases ha : selO i q p a' with
    | none => simp [ha, Res.isPass] at hp
    | some x =>
      cases hb : selO i q p b' with
      | none => simp [ha, hb, Res.isPass] at hp
      | some y =>
        cases he : selO i q p ea with
        | none => simp [ha, hb, he, Res.isPass] at hp
        | some z =>
          simp only [ha, hb, he] at hp
          cases hc : opCmp call c' x y with
          | true => exact ⟨x, y, rfl, rfl, hc⟩
          | false => simp [hc, Res.isPass] at hp
  | ne a' b' =>
    simp only [atomSite, Option.some.injEq, Prod.mk.injEq] at hs
    obtain ⟨rfl, rfl, rfl⟩ := hs
    simp only [atomAt] at hp
    cases ha : selO i q p a' with
    | none => simp [ha, Res.isPass] at hp
    | some x =>
      cases hb : selO i q p b' with
      | none => simp [ha, hb, Res.isPass] at hp
      | some y =>
        simp only [ha, hb] at hp
        refine ⟨x, y, rfl, rfl, ?_⟩
        rw [opCmp_deepEqual]
        cases hc : (x == y) with
        | true => rfl
        | false => simp [bne, hc, Res.isPass] at hp
  | cast _ _ => simp [atomSite] at hs
  | shortcut _ _ => simp [atomSite] at hs
  | nilboth => simp [atomSite] at hs
  | nileither => simp [atomSite] at hs
  | len _ _ => simp [atomSite] at hs
  | cmpNeg _ _ _ => simp [atomSite] at hs
  | bad => simp [atomSite] at hs

theorem atomSub_sound {call : String → Tree → Tree → Bool} {esc : String → Tree → Bool} {q p : Tree} {i : Option Nat}
    {s : AStep} (hp : (atomAt call esc q p i s).isPass = true) (hpair : atomPairs s = true)
    {e : String × Tree × Tree} (he : atomSub i q p s = some e) : opCmp call e.1 e.2.1 e.2.2 = true := by
  unfold atomSub at he
  cases hs : atomSite s with
  | none => simp [hs] at he
  | some site =>
    obtain ⟨c, a, b⟩ := site
    obtain ⟨x, y, hx, hy, hc⟩ := atom_pass_site hp hs
    have hab : pairQP a b = true := by
      cases s with
      | cmp c' a' b' =>
        simp only [atomSite, Option.some.injEq, Prod.mk.injEq] at hs
        obtain ⟨_, rfl, rfl⟩ := hs; exact hpair
      | cmpEsc e' ea c' a' b' =>
        simp only [atomSite, Option.some.injEq, Prod.mk.injEq] at hs
        obtain ⟨_, rfl, rfl⟩ := hs
        simp only [atomPairs, Bool.and_eq_true] at hpair; exact hpair.1
      | ne a' b' =>
        simp only [atomSite, Option.some.injEq, Prod.mk.injEq] at hs
        obtain ⟨_, rfl, rfl⟩ := hs; exact hpair
      | cast _ _ => simp [atomSite] at hs
      | shortcut _ _ => simp [atomSite] at hs
      | nilboth => simp [atomSite] at hs
      | nileither => simp [atomSite] at hs
      | len _ _ => simp [atomSite] at hs
      | cmpNeg _ _ _ => simp [atomSite] at hs
      | bad => simp [atomSite] at hs
    obtain ⟨h1, h2, h3, h4⟩ := pairQP_spec hab
    rw [selO_onQ h1] at hx
    rw [selO_onP h2, ← selSide_congr h3 h4] at hy
    simp only [hs, Option.bind_some, sitePair, hx, hy, Option.some.injEq] at he
    subst he
    exact hc

theorem cstepSubs_sound {call : String → Tree → Tree → Bool} {esc : String → Tree → Bool} {q p : Tree} {s : CStep}
    (hp : cstepPasses call esc q p s = true) (hpair : cstepPairs s = true) :
    ∀ e ∈ cstepSubs q p s, opCmp call e.1 e.2.1 e.2.2 = true := by
  intro e he
  cases s with
  | atom a =>
    simp only [cstepSubs, Option.mem_toList] at he
    exact atomSub_sound (by simpa [cstepPasses] using hp) (by simpa [cstepPairs] using hpair) he
  | range o body =>
    simp only [cstepPairs, Bool.and_eq_true, Bool.not_eq_true'] at hpair
    simp only [cstepPasses] at hp
    cases hl : selO none q p o with
    | none => simp [hl] at hp
    | some l =>
      simp only [hl] at hp
      rw [selO_onP hpair.1] at hl
      simp only [cstepSubs, hl, List.mem_flatMap, List.mem_range, List.mem_filterMap] at he
      obtain ⟨i, hi, a, ha, hsub⟩ := he
      have h1 := List.all_eq_true.mp hp i (List.mem_range.mpr hi)
      have h2 := List.all_eq_true.mp h1 a ha
      exact atomSub_sound h2 (List.all_eq_true.mp hpair.2 a ha) hsub

/-! ## the calls of a type switch -/

theorem find?_fst' {β : Type} {cases : List (String × β)} {k : String} {row : String × β}
    (h : cases.find? (·.1 == k) = some row) : row.1 = k ∧ row ∈ cases := by
  have h1 := List.find?_some h
  have h2 := List.mem_of_find?_eq_some h
  exact ⟨by simpa using h1, h2⟩

theorem switchRow_pairs (hfact : tablePairsOk = true) {fn : String} {p : Tree} {row : String × String × String × String}
    (h : (typeSwitches.lookup fn).bind (·.find? (·.1 == p.kind)) = some row) : switchRowPairs row = true := by
  cases hl : typeSwitches.lookup fn with
  | none => simp [hl] at h
  | some cases =>
    simp only [hl, Option.bind_some] at h
    have hm := lookup_mem fn cases typeSwitches hl
    obtain ⟨_, hrow⟩ := find?_fst' h
    simp only [tablePairsOk, Bool.and_eq_true] at hfact
    exact List.all_eq_true.mp (List.all_eq_true.mp hfact.2 _ hm) row hrow

theorem switchSubs_sound (hfact : tablePairsOk = true) {call : String → Tree → Tree → Bool} {fn : String} {q p : Tree}
    {sp : String → Option Bool} (h : typeSwitchEval call fn q p sp = true) :
    ∀ e ∈ switchSubs fn q p, opCmp call e.1 e.2.1 e.2.2 = true := by
  intro e he
  unfold switchSubs at he
  unfold typeSwitchEval at h
  cases hr : (typeSwitches.lookup fn).bind (·.find? (·.1 == p.kind)) with
  | none => simp [hr] at he
  | some row =>
    obtain ⟨k, callee, qa, pa⟩ := row
    have hrp := switchRow_pairs hfact hr
    simp only [hr] at he h
    by_cases hsp : (callee == "special") = true
    · simp [hsp] at he
    · simp only [hsp, Bool.false_eq_true, if_false] at he h
      simp only [switchRowPairs, hsp, Bool.false_or] at hrp
      obtain ⟨h1, h2, h3, h4⟩ := pairQP_spec hrp
      by_cases hk : (q.kind != p.kind) = true
      · simp [hk] at h
      · simp only [hk, Bool.false_eq_true, if_false, sel] at h
        rw [selO_onQ h1, selO_onP h2, ← selSide_congr h3 h4] at h
        cases hx : selSide none q (parseOpnd qa) with
        | none => simp [hx] at he
        | some x =>
          cases hy : selSide none p (parseOpnd qa) with
          | none => simp [hx, hy] at he
          | some y =>
            simp only [hx, hy, List.mem_singleton] at he h
            subst he
            exact h

/-! ## the calls of the hand-written functions -/

theorem all2_zip {f : Tree → Tree → Bool} : ∀ (qs ps : List Tree), all2 f qs ps = true → ∀ e ∈ qs.zip ps, f e.1 e.2 = true
  | [], [], _, e, he => by simp at he
  | [], _ :: _, h, _, _ => by simp [all2] at h
  | _ :: _, [], h, _, _ => by simp [all2] at h
  | a :: as, b :: bs, h, e, he => by
    simp only [all2, Bool.and_eq_true] at h
    simp only [List.zip_cons_cons, List.mem_cons] at he
    rcases he with rfl | he
    · exact h.1
    · exact all2_zip as bs h.2 e he

theorem prefixAll_zip {f : Tree → Tree → Bool} : ∀ (qs ps : List Tree), prefixAll f qs ps = true → ∀ e ∈ qs.zip ps, f e.1 e.2 = true
  | _, [], _, e, he => by simp at he
  | [], _ :: _, h, _, _ => by simp [prefixAll] at h
  | a :: as, b :: bs, h, e, he => by
    simp only [prefixAll, Bool.and_eq_true] at h
    simp only [List.zip_cons_cons, List.mem_cons] at he
    rcases he with rfl | he
    · exact h.1
    · exact prefixAll_zip as bs h.2 e he

theorem selectExprCase_Star : (typeSwitches.lookup "areEqualSelectExpr").bind (·.find? (·.1 == "StarExpr")) = some ("StarExpr", "special", "", "") := by decide
theorem selectExprCase_Aliased : (typeSwitches.lookup "areEqualSelectExpr").bind (·.find? (·.1 == "AliasedExpr")) = some ("AliasedExpr", "special", "", "") := by decide
theorem insertRowsCase_Values : (typeSwitches.lookup "areEqualInsertRows").bind (·.find? (·.1 == "Values")) = some ("Values", "special", "", "") := by decide

theorem specialSubs_Subquery (q p : Tree) : specialSubs "areEqualSubquery" q p = [("areEqualSelectStatement", fld q "Select", fld p "Select")] := rfl
theorem specialSubs_ValTuple (q p : Tree) : specialSubs "areEqualValTuple" q p = zipCalls "areEqualExpr" q.kids p.kids := rfl
theorem specialSubs_SelectExprs (q p : Tree) : specialSubs "areEqualSelectExprs" q p = zipCalls "areEqualSelectExpr" q.kids p.kids := rfl
theorem specialSubs_SelectExpr (q p : Tree) : specialSubs "areEqualSelectExpr" q p =
    (if p.kind == "StarExpr" then [("areEqualTableName", fld q "TableName", fld p "TableName")]
     else if p.kind == "AliasedExpr" then (if q.kind == "AliasedExpr" then [("areEqualAliasedExpr", q, p)] else [])
     else switchSubs "areEqualSelectExpr" q p) := rfl
theorem specialSubs_InsertRows (q p : Tree) : specialSubs "areEqualInsertRows" q p =
    (if p.kind == "Values" then zipCalls "areEqualValTuple" q.kids p.kids else switchSubs "areEqualInsertRows" q p) := rfl
theorem specialSubs_Expr (q p : Tree) : specialSubs "areEqualExpr" q p =
    (if p.kind == "SQLVal" then (if q.kind == "SQLVal" then [("areEqualSQLVal", q, p)] else [])
     else if p.kind == "ColName" then (if q.kind == "ColName" then [("areEqualColName", q, p)] else [])
     else switchSubs "areEqualExpr" q p) := rfl
theorem specialSubs_SQLVal (q p : Tree) : specialSubs "areEqualSQLVal" q p = [] := rfl
theorem specialSubs_ColIdent (q p : Tree) : specialSubs "areEqualColIdent" q p = [] := rfl
theorem specialSubs_Stream (q p : Tree) : specialSubs "handleStreamStatement" q p = [] := rfl
theorem earlyTrue_Subquery (call : String → Tree → Tree → Bool) (q p : Tree) :
    earlyTrue call "areEqualSubquery" q p = (fld p "Select" == subqueryPattern) := rfl
theorem earlyTrue_SelectExprs (call : String → Tree → Tree → Bool) (q p : Tree) :
    earlyTrue call "areEqualSelectExprs" q p = loneStar p := rfl

theorem subquery_subs_sound (f : Nat) {q p : Tree} (h : evalFn (f + 1) "areEqualSubquery" q p = true)
    (hne : earlyTrue (evalFn f) "areEqualSubquery" q p = false) :
    ∀ e ∈ specialSubs "areEqualSubquery" q p, opCmp (evalFn f) e.1 e.2.1 e.2.2 = true := by
  intro e he
  rw [specialSubs_Subquery, List.mem_singleton] at he
  subst he
  show opCmp (evalFn f) "areEqualSelectStatement" (fld q "Select") (fld p "Select") = true
  rw [evalFn_Subquery] at h
  rw [earlyTrue_Subquery] at hne
  rw [opCmp_fn (by decide)]
  cases hc : evalFn f "areEqualSelectStatement" (fld q "Select") (fld p "Select") with
  | true => rfl
  | false => simp [hc, hne] at h

theorem valTuple_subs_sound (f : Nat) {q p : Tree} (h : evalFn (f + 1) "areEqualValTuple" q p = true) :
    ∀ e ∈ specialSubs "areEqualValTuple" q p, opCmp (evalFn f) e.1 e.2.1 e.2.2 = true := by
  intro e he
  rw [specialSubs_ValTuple] at he
  simp only [zipCalls, List.mem_map] at he
  obtain ⟨z, hz, rfl⟩ := he
  show opCmp (evalFn f) "areEqualExpr" z.1 z.2 = true
  rw [evalFn_ValTuple] at h
  rw [opCmp_fn (by decide)]
  cases hpa : prefixAll (evalFn f "areEqualExpr") q.kids p.kids with
  | true => exact prefixAll_zip _ _ hpa z hz
  | false => simp [hpa] at h

theorem selectExprs_subs_sound (f : Nat) {q p : Tree} (h : evalFn (f + 1) "areEqualSelectExprs" q p = true)
    (hne : earlyTrue (evalFn f) "areEqualSelectExprs" q p = false) :
    ∀ e ∈ specialSubs "areEqualSelectExprs" q p, opCmp (evalFn f) e.1 e.2.1 e.2.2 = true := by
  intro e he
  rw [specialSubs_SelectExprs] at he
  simp only [zipCalls, List.mem_map] at he
  obtain ⟨z, hz, rfl⟩ := he
  show opCmp (evalFn f) "areEqualSelectExpr" z.1 z.2 = true
  rw [evalFn_SelectExprs] at h
  rw [earlyTrue_SelectExprs] at hne
  unfold loneStar at hne
  rw [hne] at h
  simp only [Bool.false_eq_true, if_false] at h
  rw [opCmp_fn (by decide)]
  exact all2_zip _ _ h z hz

theorem selectExpr_subs_sound (hfact : tablePairsOk = true) (f : Nat) {q p : Tree} (h : evalFn (f + 1) "areEqualSelectExpr" q p = true) :
    ∀ e ∈ specialSubs "areEqualSelectExpr" q p, opCmp (evalFn f) e.1 e.2.1 e.2.2 = true := by
  intro e he
  rw [specialSubs_SelectExpr] at he
  rw [evalFn_SelectExpr] at h
  by_cases hk1 : p.kind = "StarExpr"
  · simp only [hk1, beq_self_eq_true, if_true, List.mem_singleton] at he
    subst he
    show opCmp (evalFn f) "areEqualTableName" (fld q "TableName") (fld p "TableName") = true
    have hrow := selectExprCase_Star
    rw [← hk1] at hrow
    rw [typeSwitch_special hrow] at h
    simp only [selectExprSpecial, hk1, beq_self_eq_true, if_true, Option.getD_some, Bool.and_eq_true] at h
    rw [opCmp_fn (by decide)]
    exact h.2
  · have hk1' : (p.kind == "StarExpr") = false := by simpa using hk1
    simp only [hk1', Bool.false_eq_true, if_false] at he
    by_cases hk2 : p.kind = "AliasedExpr"
    · have hk2' : (p.kind == "AliasedExpr") = true := by simpa using hk2
      simp only [hk2', if_true] at he
      by_cases hq : q.kind = "AliasedExpr"
      · have hq' : (q.kind == "AliasedExpr") = true := by simpa using hq
        simp only [hq', if_true, List.mem_singleton] at he
        subst he
        show opCmp (evalFn f) "areEqualAliasedExpr" q p = true
        have hrow := selectExprCase_Aliased
        rw [← hk2] at hrow
        rw [typeSwitch_special hrow] at h
        have hne : (q.kind != "AliasedExpr") = false := by simp [bne, hq']
        simp only [selectExprSpecial, hk1', hk2', hne, Bool.false_eq_true, if_false, if_true, Option.getD_some] at h
        rw [opCmp_fn (by decide)]
        exact h
      · have hq' : (q.kind == "AliasedExpr") = false := by simpa using hq
        simp [hq'] at he
    · have hk2' : (p.kind == "AliasedExpr") = false := by simpa using hk2
      simp only [hk2', Bool.false_eq_true, if_false] at he
      exact switchSubs_sound hfact h e he

theorem insertRows_subs_sound (hfact : tablePairsOk = true) (f : Nat) {q p : Tree} (h : evalFn (f + 1) "areEqualInsertRows" q p = true) :
    ∀ e ∈ specialSubs "areEqualInsertRows" q p, opCmp (evalFn f) e.1 e.2.1 e.2.2 = true := by
  intro e he
  rw [specialSubs_InsertRows] at he
  rw [evalFn_InsertRows] at h
  by_cases hk1 : p.kind = "Values"
  · have hk1' : (p.kind == "Values") = true := by simpa using hk1
    simp only [hk1', if_true, zipCalls, List.mem_map] at he
    obtain ⟨z, hz, rfl⟩ := he
    show opCmp (evalFn f) "areEqualValTuple" z.1 z.2 = true
    have hrow := insertRowsCase_Values
    rw [← hk1] at hrow
    rw [typeSwitch_special hrow] at h
    simp only [insertRowsSpecial, hk1', if_true, Option.getD_some, Bool.and_eq_true] at h
    rw [opCmp_fn (by decide)]
    exact all2_zip _ _ h.2 z hz
  · have hk1' : (p.kind == "Values") = false := by simpa using hk1
    simp only [hk1', Bool.false_eq_true, if_false] at he
    exact switchSubs_sound hfact h e he

theorem expr_subs_sound (hfact : tablePairsOk = true) (f : Nat) {q p : Tree} (h : evalFn (f + 1) "areEqualExpr" q p = true) :
    ∀ e ∈ specialSubs "areEqualExpr" q p, opCmp (evalFn f) e.1 e.2.1 e.2.2 = true := by
  intro e he
  rw [specialSubs_Expr] at he
  rw [evalFn_Expr] at h
  -- the switch itself is reached only when neither side is nil
  have hsw : (q.isNil && p.isNil) = true ∨ typeSwitchEval (evalFn f) "areEqualExpr" q p (exprSpecial (evalFn f) q p) = true := by
    by_cases hb : (q.isNil && p.isNil) = true
    · exact Or.inl hb
    · simp only [hb, Bool.false_eq_true, if_false] at h
      by_cases he' : (q.isNil || p.isNil) = true
      · simp [he'] at h
      · simp only [he', Bool.false_eq_true, if_false] at h
        exact Or.inr h
  by_cases hk1 : p.kind = "SQLVal"
  · have hk1' : (p.kind == "SQLVal") = true := by simpa using hk1
    simp only [hk1', if_true] at he
    by_cases hq : q.kind = "SQLVal"
    · have hq' : (q.kind == "SQLVal") = true := by simpa using hq
      simp only [hq', if_true, List.mem_singleton] at he
      subst he
      show opCmp (evalFn f) "areEqualSQLVal" q p = true
      rcases hsw with hb | hsw
      · simp only [Bool.and_eq_true, Tree.isNil, hk1, beq_iff_eq] at hb
        exact absurd hb.2 (by decide)
      · have hrow := exprCase_SQLVal
        rw [← hk1] at hrow
        rw [typeSwitch_special hrow] at hsw
        simp only [exprSpecial, hk1', hq', if_true, Option.getD_some] at hsw
        rw [opCmp_fn (by decide)]
        exact hsw
    · have hq' : (q.kind == "SQLVal") = false := by simpa using hq
      simp [hq'] at he
  · have hk1' : (p.kind == "SQLVal") = false := by simpa using hk1
    simp only [hk1', Bool.false_eq_true, if_false] at he
    by_cases hk2 : p.kind = "ColName"
    · have hk2' : (p.kind == "ColName") = true := by simpa using hk2
      simp only [hk2', if_true] at he
      by_cases hq : q.kind = "ColName"
      · have hq' : (q.kind == "ColName") = true := by simpa using hq
        simp only [hq', if_true, List.mem_singleton] at he
        subst he
        show opCmp (evalFn f) "areEqualColName" q p = true
        rcases hsw with hb | hsw
        · simp only [Bool.and_eq_true, Tree.isNil, hk2, beq_iff_eq] at hb
          exact absurd hb.2 (by decide)
        · have hrow := exprCase_ColName
          rw [← hk2] at hrow
          rw [typeSwitch_special hrow] at hsw
          simp only [exprSpecial, hk1', hk2', hq', Bool.false_eq_true, if_false, if_true, Option.getD_some] at hsw
          rw [opCmp_fn (by decide)]
          exact hsw
      · have hq' : (q.kind == "ColName") = false := by simpa using hq
        simp [hq'] at he
    · have hk2' : (p.kind == "ColName") = false := by simpa using hk2
      simp only [hk2', Bool.false_eq_true, if_false] at he
      rcases hsw with hb | hsw
      · -- nil / nil: the switch has no case for `nil`, the walk lists nothing
        simp only [Bool.and_eq_true, Tree.isNil, beq_iff_eq] at hb
        have hnone : (typeSwitches.lookup "areEqualExpr").bind (·.find? (·.1 == "nil")) = none := by decide
        rw [← hb.2] at hnone
        simp [switchSubs, hnone] at he
      · exact switchSubs_sound hfact hsw e he

theorem specialSubs_sound (hfact : tablePairsOk = true) (f : Nat) {fn : String} {q p : Tree} (hs : specialFns.contains fn = true)
    (h : evalFn (f + 1) fn q p = true) (hne : earlyTrue (evalFn f) fn q p = false) :
    ∀ e ∈ specialSubs fn q p, opCmp (evalFn f) e.1 e.2.1 e.2.2 = true := by
  simp only [specialFns, List.contains_cons, List.contains_nil, Bool.or_false, Bool.or_eq_true, beq_iff_eq] at hs
  rcases hs with rfl | rfl | rfl | rfl | rfl | rfl | rfl | rfl | rfl
  · intro e he; rw [specialSubs_Stream] at he; cases he
  · intro e he; rw [specialSubs_SQLVal] at he; cases he
  · intro e he; rw [specialSubs_ColIdent] at he; cases he
  · exact subquery_subs_sound f h hne
  · exact valTuple_subs_sound f h
  · exact selectExprs_subs_sound f h hne
  · exact selectExpr_subs_sound hfact f h
  · exact insertRows_subs_sound hfact f h
  · exact expr_subs_sound hfact f h

theorem compiled_pairs (hfact : tablePairsOk = true) {fn : String} {fin : Bool} {steps : List CStep}
    (hl : compiled.lookup fn = some (fin, steps)) : steps.all cstepPairs = true := by
  simp only [tablePairsOk, Bool.and_eq_true] at hfact
  exact List.all_eq_true.mp hfact.1 _ (lookup_mem fn (fin, steps) compiled hl)

/-- **one level**: `fn(q, p) = true` without a placeholder escape ⇒ every call it makes one level down is `true` -/
theorem subs_sound (hfact : tablePairsOk = true) (f : Nat) {fn : String} {q p : Tree}
    (h : evalFn (f + 1) fn q p = true) (hne : earlyTrue (evalFn f) fn q p = false) :
    ∀ e ∈ subs fn q p, opCmp (evalFn f) e.1 e.2.1 e.2.2 = true := by
  intro e he
  unfold subs at he
  cases hs : specialFns.contains fn with
  | true =>
    simp only [hs, if_true] at he
    exact specialSubs_sound hfact f hs h hne e he
  | false =>
    simp only [hs, Bool.false_eq_true, if_false] at he
    cases hl : compiled.lookup fn with
    | some r =>
      obtain ⟨fin, steps⟩ := r
      simp only [hl, List.mem_flatMap] at he
      obtain ⟨s, hsm, hes⟩ := he
      rw [evalFn_compiled f fn q p fin steps hs hl] at h
      have hsub : (fn == "areEqualSubquery") = false := by
        cases hx : fn == "areEqualSubquery" with
        | false => rfl
        | true => rw [beq_iff_eq] at hx; subst hx; exact absurd hs (by decide)
      have hsel : (fn == "areEqualSelectExprs") = false := by
        cases hx : fn == "areEqualSelectExprs" with
        | false => rfl
        | true => rw [beq_iff_eq] at hx; subst hx; exact absurd hs (by decide)
      simp only [earlyTrue, hsub, hsel, hs, hl, Bool.false_eq_true, if_false] at hne
      rcases runC_true_inv _ _ q p fin steps h with hr | ⟨_, hall⟩
      · rw [hr] at hne; cases hne
      · exact cstepSubs_sound (List.all_eq_true.mp hall s hsm) (List.all_eq_true.mp (compiled_pairs hfact hl) s hsm) e hes
    | none =>
      simp only [hl] at he
      have hc : comparators.lookup fn = none := by
        have := compiled_lookup fn
        rw [hl] at this
        cases hcl : comparators.lookup fn with
        | none => rfl
        | some v => simp [hcl] at this
      rw [evalFn_switch f fn q p hs hc] at h
      exact switchSubs_sound hfact h e he

/-! ## the lock-step walk -/

/-- **the matcher says `true` ⇒ every call of the lock-step walk is answered `true`** -/
theorem reach_sound (hfact : tablePairsOk = true) : ∀ (f : Nat) (fn : String) (q p : Tree),
    opCmp (evalFn f) fn q p = true → ∀ e ∈ reach f fn q p, opCmp (evalFn e.1) e.2.1 e.2.2.1 e.2.2.2 = true
  | 0, fn, q, p, h, e, he => by
    simp only [reach, List.mem_singleton] at he
    subst he; exact h
  | f + 1, fn, q, p, h, e, he => by
    simp only [reach, List.mem_cons] at he
    rcases he with rfl | he
    · exact h
    · cases hb : builtinCmp fn with
      | true => simp [hb] at he
      | false =>
        rw [opCmp_fn hb] at h
        cases hne : earlyTrue (evalFn f) fn q p with
        | true => simp [hb, hne] at he
        | false =>
          simp only [hb, hne, Bool.or_self, Bool.false_eq_true, if_false, List.mem_flatMap] at he
          obtain ⟨s, hs, hes⟩ := he
          exact reach_sound hfact f s.1 s.2.1 s.2.2 (subs_sound hfact f h hne s hs) e hes

theorem compared_sound (hfact : tablePairsOk = true) {t p : Tree} (h : matchT p t = true) :
    ∀ e ∈ compared t p, opCmp (evalFn e.1) e.2.1 e.2.2.1 e.2.2.2 = true := by
  intro e he
  unfold compared at he
  unfold matchT patMatch checkSinglePatternMatch at h
  cases hd : patternDispatch.lookup p.kind with
  | none => simp [hd] at he
  | some hnd =>
    simp only [hd] at he h
    have hb : builtinCmp hnd = false := by
      have hm := lookup_mem _ _ _ hd
      have : patternDispatch.all (fun r => !builtinCmp r.2) = true := by decide
      simpa using List.all_eq_true.mp this _ hm
    exact reach_sound hfact _ hnd t p (by rw [opCmp_fn hb]; exact h) e he

/-! ## leaf comparators -/

/-- `areEqualTableIdent` is `strings.EqualFold(query.CompliantName(), pattern.CompliantName())` -/
theorem tableIdent_body : compiled.lookup "areEqualTableIdent" =
    some (true, [.atom (.cmp "strings.EqualFold" ⟨true, false, [("CompliantName()", false)]⟩ ⟨false, false, [("CompliantName()", false)]⟩)]) := by
  decide

theorem tableIdent_sound (f : Nat) (q p : Tree) (h : evalFn (f + 1) "areEqualTableIdent" q p = true) : identEq q p = true := by
  rw [evalFn_compiled f _ q p _ _ (by decide) tableIdent_body] at h
  simp only [runC, atomAt, selO, if_true, Bool.false_eq_true, if_false, List.foldl_cons, List.foldl_nil, Option.bind_some, stepComp,
    show (("CompliantName()" : String) == "CompliantName()") = true by decide] at h
  cases hq : q.field "v" with
  | none => simp [hq] at h
  | some qv =>
    cases hp : p.field "v" with
    | none => simp [hq, hp] at h
    | some pv =>
      simp only [hq, hp, Option.map_some, opCmp, beq_self_eq_true, if_true, foldEq] at h
      simp only [identEq, fld, hq, hp, Option.getD_some]
      cases hc : lowerBytes (compliantName qv.leafBytes) == lowerBytes (compliantName pv.leafBytes) with
      | true => rfl
      | false => simp [hc] at h

/-! ## executable summaries for the driver -/

end AcraModel.Censor.Match
