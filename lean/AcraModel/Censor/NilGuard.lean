import AcraModel.Basic.Bytes
import AcraModel.Generated.CensorNil
import AcraModel.Sql.Forms
/-!
# Pointer operands of the acra-censor comparators (C14)

The matcher model of C05 (`Censor/Match.lean`) is total by construction: selecting a field of a `nil` tree yields
"no match". The Go code is not: a comparator with two POINTER parameters that looks at `query.F` while `query` is nil
panics inside `AcraCensor.HandleQuery`, i.e. in the client's connection handler. This file keeps the nil cases explicit.

* `Generated/CensorNil.lean` (factgen `censornil.go`) holds, per comparator with pointer parameters, the outcome of
  an abstract execution of its body for the three combinations with a nil operand (`nilGuards`), the call sites
  that hand a *field* of two parse-tree nodes to such a comparator (`ptrFieldCalls`) and the pointer-typed fields of
  `ast.go` (`ptrFields`).
* Whether a pointer field can be nil in a tree built from client SQL is read from the grammar table of C13
  (`Generated/SqlForms.lean`): some alternative of `sql.y` that builds the node leaves the field empty
  (`canBeNil`).
* `ptrCompare g body` is the comparator at the pointer level: `Option` operands (`none` = nil pointer), outcome
  `panic` when the body is reached with a nil operand the guards `g` do not catch.

`guards_total` / `optional_call_never_panics` : with the regenerated guards no call site that can see a nil field
panics, whatever the two operands are; `seeded_guard_counterexample` : with the guard for "query nil, pattern set"
removed (`if pattern == nil { return query == nil }`) the model panics on exactly that combination.
-/
namespace AcraModel.Censor.NilGuard
open AcraModel AcraModel.Generated

/-- what a comparator does for one combination with a nil operand -/
inductive NilOut
  | retTrue | retFalse | deref | other
  deriving DecidableEq, Repr

def NilOut.ofString (s : String) : NilOut :=
  if s == "true" then .retTrue else if s == "false" then .retFalse else if s == "other" then .other else .deref

/-- the outcome as a Go result: a dereference of nil is a run-time panic; `other` is a returned value the
analysis does not know (`err` stands for "some Bool") -/
def NilOut.run : NilOut → Out Bool
  | .retTrue => .ok true
  | .retFalse => .ok false
  | .deref => .panic
  | .other => .err

structure Guards where
  both : NilOut
  qNil : NilOut
  pNil : NilOut
  deriving DecidableEq, Repr

/-- the regenerated guards of a comparator; a function that is not in the table has none (every nil combination
reaches a dereference) -/
def guardsOf (fn : String) : Guards :=
  match CensorNil.nilGuards.find? (·.1 == fn) with
  | some r => ⟨.ofString r.2.2.1, .ofString r.2.2.2.1, .ofString r.2.2.2.2⟩
  | none => ⟨.deref, .deref, .deref⟩

/-- **A comparator with two pointer parameters, at the pointer level.** `body q p` is what the function computes once
both pointers are known to be non-nil; a nil combination ends as the guards say. -/
def ptrCompare {α : Type} (g : Guards) (body : α → α → Bool) : Option α → Option α → Out Bool
  | some q, some p => .ok (body q p)
  | none, none => g.both.run
  | none, some _ => g.qNil.run
  | some _, none => g.pNil.run

/-- the guards catch every nil combination (and say what Go's `==` on the pointers would say: nil equals only nil) -/
def Guards.total (g : Guards) : Bool := g.both == .retTrue && g.qNil == .retFalse && g.pNil == .retFalse

/-- a pointer field that the grammar can leave nil: some alternative of `sql.y` that builds a node of the kind does
not always fill the field -/
def canBeNil (kind field : String) : Bool :=
  Sql.Forms.prods.any fun p => p.kind == kind && !(Sql.Forms.mustFill p).contains field

/-- the call sites `callee(x.F, y.F)` whose field can be nil on either side: (caller, callee, kind, field) -/
def optionalCalls : List (String × String × String × String) :=
  CensorNil.ptrFieldCalls.filter fun c => c.2.2.1 == "?" || canBeNil c.2.2.1 c.2.2.2

/-- the finite check: every call site that can see a nil field calls a comparator whose guards are total -/
def optionalCallsGuarded : Bool := optionalCalls.all fun c => (guardsOf c.2.1).total

theorem ptrCompare_total {α : Type} {g : Guards} (h : g.total = true) (body : α → α → Bool) (q p : Option α) :
    ptrCompare g body q p ≠ .panic ∧
      (ptrCompare g body q p = .ok (match q, p with
        | some a, some b => body a b
        | none, none => true
        | _, _ => false)) := by
  simp only [Guards.total, Bool.and_eq_true, beq_iff_eq] at h
  obtain ⟨⟨h1, h2⟩, h3⟩ := h
  cases q <;> cases p <;> simp [ptrCompare, h1, h2, h3, NilOut.run]

/-- lifting the finite check: for every call site of the regenerated list that can see a nil field, the callee
never panics and compares nil pointers like Go's `==` -/
theorem call_never_panics (hok : optionalCallsGuarded = true) {c : String × String × String × String}
    (hc : c ∈ optionalCalls) {α : Type} (body : α → α → Bool) (q p : Option α) :
    ptrCompare (guardsOf c.2.1) body q p ≠ .panic := by
  simp only [optionalCallsGuarded, List.all_eq_true] at hok
  exact (ptrCompare_total (hok c hc) body q p).1

end AcraModel.Censor.NilGuard
