import AcraModel.Censor.Tree
/-!
# Well-typed parse trees

The typing judgement for the generic trees of `Censor/Tree.lean`, driven by the tables regenerated from
`sqlparser/ast.go` (`Generated.CensorTable.{structFields, fieldTypes, namedTypes, interfaces}`): a tree is
*well typed* when every struct node has exactly the fields of its Go type, every field / slice element holds a
value its static Go type admits (a leaf for strings, booleans, integers and byte strings; a node of the named
type; a node of an implementing type – or nil – for an interface; …).

`harness/internal/c05/ops.go: treeOf` produces the trees by reflection over the real parse tree; the driver op
`C05.typed` runs `wellTyped` on every tree the harness ships (reported in the evidence).
-/
namespace AcraModel.Censor
open AcraModel Generated.CensorTable

/-- static Go types as far as the reflection dump distinguishes them -/
inductive Ty where
  | leaf
  | struct (k : String)
  | ptr (k : String)
  | iface (i : String)
  | named (n : String)
  | list (elem : Ty)
  | other
deriving Repr, DecidableEq, Inhabited

/-- descriptor `(mode, name, elem)` of the generated tables → `Ty` -/
def tyOfDesc (d : String × String × String) : Ty :=
  let base (mode name : String) : Ty :=
    if mode == "leaf" then .leaf
    else if mode == "struct" then .struct name
    else if mode == "ptr" then .ptr name
    else if mode == "iface" then .iface name
    else if mode == "named" then .named name
    else .other
  if d.1 == "list" then .list (base d.2.2 d.2.1) else base d.1 d.2.1

/-- field types of a struct kind, in declaration order -/
def fieldTys (k : String) : Option (List Ty) :=
  (fieldTypes.lookup k).map fun fs => fs.map fun f => tyOfDesc f.2

/-- static type of field `f` of struct `k` -/
def fieldTy (k f : String) : Option Ty :=
  (fieldTypes.lookup k).bind fun fs => (fs.lookup f).map tyOfDesc

/-- what a named non-struct type is: `some (some e)` a slice of `e`, `some none` a scalar wrapper -/
def namedTy (n : String) : Option (Option Ty) :=
  (namedTypes.lookup n).map fun d => if d.1 == "list" then some (tyOfDesc (d.2.2, d.2.1, "")) else none

def impls (i : String) : List String := (interfaces.lookup i).getD []

def Tree.isNilNode : Tree → Bool
  | .node k ks => k == "nil" && ks.isEmpty
  | .leaf _ => false

def Tree.isLeaf : Tree → Bool
  | .leaf _ => true
  | .node _ _ => false

/-- shallow conformance of a value to a static type: looks at the root kind only (and, for an anonymous
slice, at the kinds of its elements) -/
def conforms : Ty → Tree → Bool
  | .leaf, t => t.isLeaf
  | .struct k, t => t.kind == k
  | .ptr k, t => t.isNilNode || t.kind == k
  | .iface i, t => t.isNilNode || (impls i).contains t.kind
  | .named n, t => t.kind == n
  | .list e, t =>
    t.kind == "list" && (match e with
      | .list _ => false
      | e => t.kids.all fun x =>
        match e with
        | .leaf => x.isLeaf
        | .struct k => x.kind == k
        | .ptr k => x.isNilNode || x.kind == k
        | .iface i => x.isNilNode || (impls i).contains x.kind
        | .named n => x.kind == n
        | _ => false)
  | .other, _ => false

/-- the content of a named scalar (`BoolVal`, `ListArg`): one leaf -/
def isSingleLeaf : List Tree → Bool
  | [.leaf _] => true
  | _ => false

mutual
/-- every node below `t` is a well-formed value of its own (dynamic) type -/
def wf : Tree → Bool
  | .leaf _ => true
  | .node k ks =>
    if k == "nil" then ks.isEmpty
    else if k == "list" then wfAll ks
    else match fieldTys k with
      | some tys => wfFields tys ks
      | none =>
        match namedTy k with
        | some (some e) => wfElems e ks
        | some none => isSingleLeaf ks
        | none => false
/-- the fields of a struct: as many as the type has, each conforming to its static type and well formed -/
def wfFields : List Ty → List Tree → Bool
  | [], [] => true
  | ty :: tys, x :: xs => conforms ty x && wf x && wfFields tys xs
  | _, _ => false
/-- the elements of a named slice -/
def wfElems (e : Ty) : List Tree → Bool
  | [] => true
  | x :: xs => conforms e x && wf x && wfElems e xs
def wfAll : List Tree → Bool
  | [] => true
  | x :: xs => wf x && wfAll xs
end

/-- statement kinds whose patterns support placeholders (the others are compared with `reflect.DeepEqual`) -/
def dmlKinds : List String := ["Select", "Union", "Insert", "Update", "Delete"]

/-- a well-typed statement tree -/
def wellTyped (t : Tree) : Bool := conforms (.iface "Statement") t && !t.isNilNode && wf t

/-- **The typing judgement.** -/
def WellTyped (t : Tree) : Prop := wellTyped t = true

/-- the node kinds the comparators of `matching_logic.go` look at: parameter types of the `handle*`/`areEqual*`
functions (struct, pointer and named types), the cases of their type switches and of `checkSinglePatternMatch` -/
def tableKinds : List String :=
  ((comparatorParams.filterMap fun (_, mode, name, _) => if mode == "iface" then none else some name)
    ++ (typeSwitches.flatMap fun (_, cases) => cases.map (·.1))
    ++ patternDispatch.map (·.1)).eraseDups

mutual
/-- node kinds occurring in a tree (with repetitions; the harness counts them) -/
def kindsOf : Tree → List String
  | .leaf _ => []
  | .node k ks => k :: kindsOfList ks
def kindsOfList : List Tree → List String
  | [] => []
  | x :: xs => kindsOf x ++ kindsOfList xs
end

end AcraModel.Censor
