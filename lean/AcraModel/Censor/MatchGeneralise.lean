import AcraModel.Censor.MatchMain
/-! # `match_generalise`: bootstrap of `isWherePattern` and the statement for `matchT` -/
namespace AcraModel.Censor.Match
open AcraModel AcraModel.Censor Generated.CensorTable

/-! ## `isWherePattern(%%WHERE%%)`: the matcher on the constant itself -/

theorem wexpr_wf : wf wexpr = true := by decide
set_option maxRecDepth 100000 in
theorem wexpr_acc : acc wexpr = true := by decide
theorem wexpr_accepts : accepts "areEqualExpr" wexpr = true := by decide
theorem wexpr_isGen : isGen false false wexpr wexpr = true := by decide

theorem HW_false : HW false := fun h => by cases h

theorem HW_true : HW true := fun _ fuel hf =>
  P_all HW_false wexpr.depth wexpr (Nat.le_refl _) wexpr_wf wexpr_acc "areEqualExpr" wexpr fuel wexpr_accepts wexpr_isGen
    (fun h => absurd h (by decide))
    (by
      unfold need
      have : rankOf "areEqualExpr" = 3 := by decide
      omega)

/-! ## the top level: `checkSinglePatternMatch` -/

/-- the DML statement kinds are dispatched to well-typed comparators that accept exactly that kind -/
theorem dml_dispatch : dmlKinds.all (fun k =>
    match patternDispatch.lookup k with
    | some h => okRegular h && (domOf h).kinds == [k] && rankOf h == 2 && !kindChanging k
    | none => false) = true := by decide

/-- **Every generalisation of a well-typed DML statement matches it.** -/
theorem matchT_of_isGen {t p : Tree} (hwt : wellTypedM t = true) (hd : dmlKinds.contains t.kind = true)
    (hg : isGen true false p t = true) : matchT p t = true := by
  simp only [wellTypedM, wellTyped, Bool.and_eq_true, Bool.not_eq_true'] at hwt
  obtain ⟨⟨⟨_, hnn⟩, hwf⟩, hacc⟩ := hwt
  have hk := List.all_eq_true.mp dml_dispatch t.kind (List.contains_iff_mem.mp hd)
  cases hl : patternDispatch.lookup t.kind with
  | none => simp [hl] at hk
  | some h =>
    simp only [hl, Bool.and_eq_true, beq_iff_eq, Bool.not_eq_true'] at hk
    obtain ⟨⟨⟨hok, hdom⟩, hr⟩, hkc⟩ := hk
    have hpk : p.kind = t.kind := isGen_kind hg hkc
    have hleaf : t.isLeaf = false := by
      cases t with
      | node _ _ => rfl
      | leaf b =>
        have : dmlKinds.contains "leaf" = false := by decide
        rw [show (Tree.leaf b).kind = "leaf" from rfl, this] at hd; cases hd
    have hacc' : accepts h t = true := by
      have hm : t.kind ∈ (domOf h).kinds := by rw [hdom]; exact List.mem_singleton.mpr rfl
      simp [accepts, okFn, hok, hleaf, hnn, hm]
    unfold matchT patMatch checkSinglePatternMatch
    rw [hpk, hl]
    exact P_all HW_true t.depth t (Nat.le_refl _) hwf hacc h p (fuelFor p) hacc' hg (fun _ => hpk)
      (by unfold need fuelFor; omega)

end AcraModel.Censor.Match
