import AcraModel.Censor.MatchSteps
/-! # `match_generalise`: the field-by-field comparators (generic over the regenerated table) -/
namespace AcraModel.Censor.Match
open AcraModel AcraModel.Censor Generated.CensorTable

theorem lookup_map_snd {α β γ : Type} [BEq α] (g : β → γ) (a : α) :
    ∀ l : List (α × β), (l.map fun e => (e.1, g e.2)).lookup a = (l.lookup a).map g
  | [] => rfl
  | (x, y) :: l => by
    simp only [List.map_cons, List.lookup_cons]
    cases a == x
    · exact lookup_map_snd g a l
    · rfl

theorem compiled_lookup (fn : String) :
    compiled.lookup fn = (comparators.lookup fn).map fun e => (e.1, compileSteps e.2) :=
  lookup_map_snd (fun e : Bool × List Row => (e.1, compileSteps e.2)) fn comparators

theorem lookup_mem {α β : Type} [BEq α] [LawfulBEq α] (a : α) (b : β) :
    ∀ l : List (α × β), l.lookup a = some b → (a, b) ∈ l
  | [], h => by cases h
  | (x, y) :: l, h => by
    simp only [List.lookup_cons] at h
    cases hx : a == x with
    | true =>
      rw [hx] at h
      simp only [Option.some.injEq] at h
      rw [beq_iff_eq] at hx
      subst hx; subst h
      exact List.mem_cons_self ..
    | false =>
      rw [hx] at h
      exact List.mem_cons_of_mem _ (lookup_mem a b l h)

theorem contains_map_fst {α β : Type} [BEq α] [LawfulBEq α] (a : α) :
    ∀ l : List (α × β), (l.map (·.1)).contains a = (l.lookup a).isSome
  | [] => rfl
  | (x, y) :: l => by
    simp only [List.map_cons, List.contains_cons, List.lookup_cons]
    cases a == x
    · simpa using contains_map_fst a l
    · rfl

/-- unfolding of `evalFn` on a field-by-field comparator, in compiled form -/
theorem evalFn_compiled (f : Nat) (fn : String) (q p : Tree) (fin : Bool) (steps : List CStep)
    (hs : specialFns.contains fn = false) (hl : compiled.lookup fn = some (fin, steps)) :
    evalFn (f + 1) fn q p = runC (evalFn f) (escEval (evalFn f)) q p fin steps := by
  rw [compiled_lookup] at hl
  cases hc : comparators.lookup fn with
  | none => simp [hc] at hl
  | some e =>
    obtain ⟨fin', rows⟩ := e
    simp only [hc, Option.map_some, Option.some.injEq, Prod.mk.injEq] at hl
    obtain ⟨rfl, rfl⟩ := hl
    simp only [evalFn, hs, hc, Bool.not_false, if_true]
    rfl

theorem rank_regular {fn : String} (hs : specialFns.contains fn = false) (ht : typeSwitches.lookup fn = none) : rankOf fn = 2 := by
  have h1 : rank1Fns.contains fn = false := by
    cases h : rank1Fns.contains fn with
    | false => rfl
    | true =>
      have : specialFns.contains fn = true := by
        simp only [rank1Fns, List.contains_cons, List.contains_nil, Bool.or_false, Bool.or_eq_true, beq_iff_eq] at h
        rcases h with h | h <;> subst h <;> decide
      rw [this] at hs; cases hs
  have h2 : switchFns.contains fn = false := by
    unfold switchFns
    rw [contains_map_fst, ht]; rfl
  simp only [rankOf, h1, h2]
  rfl

theorem shortcutsOf_append (a b : List CStep) : shortcutsOf (a ++ b) = shortcutsOf a ++ shortcutsOf b := by
  induction a with
  | nil => rfl
  | cons s rest ih =>
    cases s with
    | atom x => cases x <;> simp [shortcutsOf, ih]
    | range _ _ => simp [shortcutsOf, ih]

theorem shortcutsOf_none (l : List CStep) (h : l.all (fun s => !isShortcut s) = true) : shortcutsOf l = [] := by
  induction l with
  | nil => rfl
  | cons s rest ih =>
    simp only [List.all_cons, Bool.and_eq_true] at h
    cases s with
    | atom x => cases x <;> simp_all [shortcutsOf, isShortcut]
    | range _ _ => simp_all [shortcutsOf]

/-- casts and shortcuts in front: once a shortcut recognises `p`, the function returns `true` -/
theorem runC_prefix_shortcut {call : String → Tree → Tree → Bool} {esc : String → Tree → Bool} {k : String} {ks : List Tree} {p : Tree}
    (hk : p.kind = k) (fin : Bool) (post : List CStep) :
    ∀ pre : List CStep, (∀ s ∈ pre, isCastOrShortcut s = true ∧ cstepTyped k s = true) → p ∈ shortcutsOf pre →
      runC call esc (.node k ks) p fin (pre ++ post) = true
  | [], _, hp => by cases hp
  | s :: rest, hall, hp => by
    obtain ⟨hcs, hty⟩ := hall s (List.mem_cons_self ..)
    have hrest : p ∈ shortcutsOf rest → runC call esc (.node k ks) p fin (rest ++ post) = true :=
      fun hp' => runC_prefix_shortcut hk fin post rest (fun s' hs' => hall s' (List.mem_cons_of_mem _ hs')) hp'
    cases s with
    | range _ _ => simp [isCastOrShortcut] at hcs
    | atom a =>
      cases a with
      | cast onQ k' =>
        simp only [cstepTyped, atomTyped, Bool.and_eq_true, beq_iff_eq] at hty
        have : atomAt call esc (.node k ks) p none (.cast onQ k') = .pass := by
          cases onQ <;> simp [atomAt, Tree.kind_node, hty.2, hk]
        simp only [List.cons_append, runC, this]
        exact hrest (by simpa [shortcutsOf] using hp)
      | shortcut o ph =>
        simp only [cstepTyped, atomTyped, Bool.and_eq_true, beq_iff_eq] at hty
        obtain ⟨⟨_, ho⟩, hs⟩ := hty
        subst ho
        cases hph : placeholderStmt ph with
        | none => simp [hph] at hs
        | some c =>
          simp only [List.cons_append, runC, atomAt, selO_pWhole, hph]
          cases hpc : p == c with
          | true => simp
          | false =>
            simp only [Bool.false_eq_true, if_false]
            apply hrest
            simp only [shortcutsOf, hph, Option.toList_some, List.singleton_append, List.mem_cons] at hp
            rcases hp with h | h
            · subst h; simp at hpc
            · exact h
      | nilboth => simp [isCastOrShortcut] at hcs
      | nileither => simp [isCastOrShortcut] at hcs
      | len _ _ => simp [isCastOrShortcut] at hcs
      | ne _ _ => simp [isCastOrShortcut] at hcs
      | cmp _ _ _ => simp [isCastOrShortcut] at hcs
      | cmpNeg _ _ _ => simp [isCastOrShortcut] at hcs
      | cmpEsc _ _ _ _ _ => simp [isCastOrShortcut] at hcs
      | bad => simp [isCastOrShortcut] at hcs

/-- a step that does not look at the structure of the pattern is good for every pattern of the right kind -/
theorem cstep_good_flat {k : String} {ks : List Tree} {p : Tree} {f : Nat} (hk : p.kind = k)
    (h1 : H1 k ks p f) {s : CStep} (hty : cstepTyped k s = true) (hns : needsStructure s = false) :
    cstepGood (evalFn f) (escEval (evalFn f)) (.node k ks) p s := by
  cases s with
  | range _ _ => simp [needsStructure] at hns
  | atom a =>
    cases a with
    | cast onQ k' =>
      simp only [cstepTyped, atomTyped, Bool.and_eq_true, beq_iff_eq] at hty
      have hk' := hty.2
      subst hk'
      simp only [cstepGood]
      cases onQ <;> simp [atomAt, Tree.kind_node, hk, Res.notFalse]
    | shortcut o ph =>
      simp only [cstepTyped, atomTyped, Bool.and_eq_true, beq_iff_eq] at hty
      obtain ⟨⟨_, ho⟩, hs⟩ := hty
      subst ho
      cases hp : placeholderStmt ph with
      | none => simp [hp] at hs
      | some c =>
        simp only [cstepGood, atomAt, selO_pWhole, hp]
        split <;> rfl
    | cmp c a b =>
      simp only [needsStructure, Bool.not_eq_false', Bool.and_eq_true, beq_iff_eq] at hns
      obtain ⟨⟨ha, hb⟩, hr⟩ := hns
      subst ha; subst hb
      simp only [cstepTyped, atomTyped, pairTyped, Bool.and_eq_true, Bool.or_eq_true, bne_iff_ne, ne_eq] at hty
      have hnb : builtinCmp c = false := by
        simp only [rank1Fns, List.contains_cons, List.contains_nil, Bool.or_false, Bool.or_eq_true, beq_iff_eq] at hr
        rcases hr with h | h <;> subst h <;> decide
      have hdom : (domOf c).kinds.contains k = true := by
        simp only [rank1Fns, List.contains_cons, List.contains_nil, Bool.or_false, Bool.or_eq_true, beq_iff_eq] at hr
        rcases hty.2 with (h | h) | h
        · have h2 := h.2
          rcases hr with e | e <;> subst e <;> simp at h2 <;> simpa using h2.2
        · simp [qWhole, qField] at h
        · simp [qWhole, qField] at h
      simp only [cstepGood]
      refine cmp_pass (selO_qWhole ..) (selO_pWhole ..) ?_
      rw [opCmp_fn hnb]
      exact h1 c hr hdom
    | nilboth => simp [needsStructure] at hns
    | nileither => simp [needsStructure] at hns
    | len _ _ => simp [needsStructure] at hns
    | ne _ _ => simp [needsStructure] at hns
    | cmpNeg _ _ _ => simp [needsStructure] at hns
    | cmpEsc _ _ _ _ _ => simp [needsStructure] at hns
    | bad => simp [needsStructure] at hns

end AcraModel.Censor.Match

namespace AcraModel.Censor.Match
open AcraModel AcraModel.Censor Generated.CensorTable

theorem mem_takeWhile_pred {α : Type} (pr : α → Bool) : ∀ (l : List α) (x : α), x ∈ l.takeWhile pr → pr x = true
  | [], x, h => by cases h
  | y :: ys, x, h => by
    simp only [List.takeWhile_cons] at h
    split at h
    · next hy =>
      rcases List.mem_cons.mp h with e | e
      · subst e; exact hy
      · exact mem_takeWhile_pred pr ys x e
    · cases h

theorem take2_eq {α : Type} {l : List α} {a b : α} (h : l.take 2 = [a, b]) : l = a :: b :: l.drop 2 := by
  cases l with
  | nil => simp at h
  | cons x xs =>
    cases xs with
    | nil => simp at h
    | cons y ys =>
      simp only [List.take_succ_cons, List.take_zero, List.cons.injEq, and_true] at h
      simp [h.1, h.2]

/-- only a guarded comparator accepts nil -/
theorem nilOk_regular {fn : String} {fin : Bool} {steps : List CStep} (hs : specialFns.contains fn = false)
    (ht : typeSwitches.lookup fn = none) (hl : compiled.lookup fn = some (fin, steps)) (hn : (domOf fn).nilOk = true) :
    hasNilGuard steps = true := by
  have ne : ∀ s, specialFns.contains s = true → (fn == s) = false := fun s hs' => by
    cases h : fn == s with
    | false => rfl
    | true => rw [beq_iff_eq] at h; subst h; rw [hs'] at hs; cases hs
  unfold domOf at hn
  simp only [ne "areEqualSQLVal" (by decide), ne "areEqualColIdent" (by decide), ne "areEqualSubquery" (by decide),
    ne "areEqualValTuple" (by decide), ne "areEqualSelectExprs" (by decide), Bool.false_eq_true, if_false, ht, hl] at hn
  split at hn
  · cases hn
  · split at hn
    · exact hn
    · cases hn

theorem isNil_of_wf {k : String} {ks : List Tree} (hwf : wf (.node k ks) = true) (hn : (Tree.node k ks).isNilNode = false) :
    (k == "nil") = false := by
  cases hk : k == "nil" with
  | false => rfl
  | true =>
    rw [wf.eq_2] at hwf
    simp only [hk, if_true] at hwf
    simp [Tree.isNilNode, hk, hwf] at hn

/-- **a well-typed field-by-field comparator** returns `true` on a well-typed argument it accepts and any
generalisation of it that has the same kind -/
theorem regular_ok {aw : Bool} (hw : HW aw) {fn : String} {fin : Bool} {steps : List CStep}
    (hl : compiled.lookup fn = some (fin, steps)) (hty : fnTyped fn fin steps = true)
    {q : Tree} (hwf : wf q = true) (hacc : acc q = true) (hq : accepts fn q = true)
    (IH : ∀ x, x.depth < q.depth → wf x = true → acc x = true → P aw x)
    (H1q : ∀ c p' f', rank1Fns.contains c = true → accepts c q = true → isGen aw false p' q = true → need c p' ≤ f' → evalFn f' c q p' = true)
    {p : Tree} (hgen : isGen aw false p q = true) (hkind : p.kind = q.kind) {fuel : Nat} (hfuel : need fn p ≤ fuel) :
    evalFn fuel fn q p = true := by
  unfold fnTyped at hty
  cases hdk : (domOf fn).kinds with
  | nil => simp [hdk] at hty
  | cons k rest =>
    cases rest with
    | cons _ _ => simp [hdk] at hty
    | nil =>
      simp only [hdk, Bool.and_eq_true, Bool.not_eq_true', Option.isNone_iff_eq_none, List.all_eq_true, Bool.or_eq_true] at hty
      obtain ⟨⟨⟨⟨⟨hfin, hs⟩, ht⟩, hall⟩, hsc⟩, hph⟩ := hty
      subst hfin
      have hr := rank_regular hs ht
      have hfuel' : 3 * p.depth + 2 ≤ fuel := by unfold need at hfuel; omega
      obtain ⟨f, rfl⟩ : ∃ f, fuel = f + 1 := ⟨fuel - 1, by omega⟩
      rw [evalFn_compiled f fn q p true steps hs hl]
      simp only [accepts, Bool.and_eq_true, Bool.or_eq_true, Bool.not_eq_true'] at hq
      obtain ⟨⟨hok, hnl⟩, hq⟩ := hq
      rcases hq with ⟨hnil, hnok⟩ | ⟨hnn, hkq⟩
      · -- nil: the guard returns true
        have := isNilNode_eq hnil
        subst this
        have := isGen_nil hgen
        subst this
        have hg := nilOk_regular hs ht hl hnok
        simp only [hasNilGuard, beq_iff_eq] at hg
        rw [take2_eq hg]
        simp [runC, atomAt, Tree.isNil, Tree.nil, Tree.kind]
      · cases q with
        | leaf b => simp [Tree.isLeaf] at hnl
        | node k' ks =>
          have hk' : k' = k := by
            simp only [hdk, Tree.kind_node, List.contains_cons, List.contains_nil, Bool.or_false, beq_iff_eq] at hkq
            exact hkq
          subst hk'
          have hknil := isNil_of_wf hwf hnn
          have hpk : p.kind = k' := by rw [hkind]; rfl
          -- the rank-1 functions on this node
          have h1 : ∀ p', isGen aw false p' (.node k' ks) = true → 3 * p'.depth + 1 ≤ f → H1 k' ks p' f := fun p' hg' hf' c hc hd => by
            apply H1q c p' f hc _ hg' (by
              unfold need
              have : rankOf c = 1 := by unfold rankOf; rw [if_pos hc]
              omega)
            simp only [accepts, okFn, hc, Bool.true_or, Tree.isLeaf, hnn, Bool.not_false, Bool.true_and, Tree.kind_node, hd,
              Bool.false_and, Bool.false_or, Bool.and_self]
          -- skip the guard
          have hbody : runC (evalFn f) (escEval (evalFn f)) (.node k' ks) p true (bodyOf steps) = true →
              runC (evalFn f) (escEval (evalFn f)) (.node k' ks) p true steps = true := by
            intro hb
            unfold bodyOf at hb
            split at hb
            · next hg =>
              simp only [hasNilGuard, beq_iff_eq] at hg
              rw [take2_eq hg]
              have hq1 : (Tree.node k' ks).isNil = false := by simpa [Tree.isNil, Tree.kind_node] using hknil
              have hp1 : p.isNil = false := by simpa [Tree.isNil, hpk] using hknil
              simp only [runC, atomAt, hq1, hp1, Bool.false_and, Bool.or_self, Bool.false_eq_true, if_false]
              exact hb
            · exact hb
          apply hbody
          have hcomp : (fn, true, steps) ∈ compiled := lookup_mem fn (true, steps) compiled hl
          have hokr : okRegular fn = true := by
            unfold okRegular
            simp only [hl, fnTyped, hdk, hs, ht, Bool.not_false, Option.isNone_none, Bool.true_and, Bool.and_eq_true, List.all_eq_true, Bool.or_eq_true]
            exact ⟨⟨hall, fun x hx => by simpa using hsc x hx⟩, hph.imp (fun h => by simpa using h) id⟩
          have haccb : ∀ s ∈ bodyOf steps, cstepAcc k' ks s = true := by
            have := acc_node hacc
            simp only [accNode, Bool.and_eq_true, List.all_eq_true, Bool.or_eq_true, Bool.not_eq_true'] at this
            have := this.1.1 _ hcomp
            rcases this with h | h
            · simp [hokr, hdk] at h
            · exact h
          rcases isGen_node hgen with hplace | ⟨ps, rfl, hk⟩
          · -- a placeholder of the node's own kind
            rcases hph with hns | hsc'
            · -- nothing looks at the structure of the pattern
              simp only [Bool.not_eq_true', List.any_eq_false, Bool.not_eq_true] at hns
              apply runC_true
              intro s hs'
              exact cstep_good_flat hpk (h1 p hgen (by omega)) (hall s hs') (by simpa using hns s hs')
            · have hmem : p ∈ shortcutsOf (bodyOf steps) := by
                have := hsc' p (by simp [List.mem_filter, hplace, hpk])
                simpa using this
              have hb := (List.takeWhile_append_dropWhile (p := isCastOrShortcut) (l := bodyOf steps)).symm
              have hdw : shortcutsOf ((bodyOf steps).dropWhile isCastOrShortcut) = [] :=
                shortcutsOf_none _ (by simpa using hsc)
              have hmem' : p ∈ shortcutsOf ((bodyOf steps).takeWhile isCastOrShortcut) := by
                have h2 : shortcutsOf (bodyOf steps) = shortcutsOf ((bodyOf steps).takeWhile isCastOrShortcut) := by
                  conv => lhs; rw [hb]
                  rw [shortcutsOf_append, hdw, List.append_nil]
                rw [← h2]; exact hmem
              rw [hb]
              apply runC_prefix_shortcut hpk true _ _ _ hmem'
              intro s hs'
              exact ⟨mem_takeWhile_pred _ _ s hs', hall s ((List.takeWhile_sublist _).subset hs')⟩
          · -- node by node
            have cx : Ctx aw k' ks ps f := ⟨hw, hwf, hacc, hk, IH, by omega⟩
            apply runC_true
            intro s hs'
            exact cstep_good cx (h1 _ hgen (by omega)) (hall s hs') (haccb s hs')

end AcraModel.Censor.Match
