import AcraModel.Censor.Generalise
import AcraModel.Censor.TreeLemmas
/-!
# Typing the comparator table

What the proof of `match_generalise` needs to know about the regenerated comparator table, as *decidable checks
evaluated on the table of the current source* (`Props/C05.lean: fact_table_typed` …):

* `domOf fn` – which node kinds a function accepts as its query argument (from its `cast` step, its parameter type
  and its nil guard; for a type switch: its cases);
* `fnTyped` – every step of a field-by-field comparator has one of the recognised shapes, compares a part of the
  query with the *same* part of the pattern, applies `strings.EqualFold` only to leaves and `reflect.DeepEqual` /
  `!=` / `bytes.Equal` only to parts that cannot contain a placeholder, calls functions that need pattern and query to
  be of the same kind only where a generalisation keeps the kind, and understands `%%WHERE%%` exactly in the
  WHERE slot of a SELECT;
* `acc` – the *matcher-side* half of the typing judgement: the value in every compared position is one the function
  called on it accepts (e.g. no `StarExpr` in an `Expr` position, no nil `TableExpr`).
-/
namespace AcraModel.Censor.Match
open AcraModel AcraModel.Censor Generated.CensorTable

/-! ## classes of functions -/

def builtinCmp (c : String) : Bool := c == "strings.EqualFold" || c == "reflect.DeepEqual" || c == "bytes.Equal"

/-- hand-written leaf functions: no calls at all -/
def rank1Fns : List String := ["areEqualSQLVal", "areEqualColIdent"]

/-- hand-written functions that only call functions on children -/
def rank2Specials : List String := ["areEqualSubquery", "areEqualValTuple", "areEqualSelectExprs"]

/-- the functions that switch on the pattern's type -/
def switchFns : List String := typeSwitches.map (·.1)

def rankOf (fn : String) : Nat := if rank1Fns.contains fn then 1 else if switchFns.contains fn then 3 else 2

/-- the compiled table -/
def compiled : List (String × Bool × List CStep) := comparators.map fun e => (e.1, e.2.1, compileSteps e.2.2)

/-- the cases of a type switch that are *not* covered by the theorem: `areEqualInsertRows`, case `*ParenSelect`,
calls `handleSelectStatement` on the inner statement, which is a `SelectStatement` (a parenthesised UNION would not
match itself). The grammar never produces a `ParenSelect` as INSERT rows (`insert_data` drops the parentheses), so the
case is dead code; the typing judgement excludes it. -/
def excludedCases : List (String × String) := [("areEqualInsertRows", "ParenSelect")]

/-- kinds a generalisation may turn into a node of another kind (`%%VALUE%%` is a `SQLVal`) -/
def kindChanging (k : String) : Bool := valueLike k && k != "SQLVal"

def hasNilGuard (steps : List CStep) : Bool := steps.take 2 == [.atom .nilboth, .atom .nileither]

def castKind : List CStep → Option String
  | [] => none
  | .atom (.cast true k) :: _ => some k
  | _ :: rest => castKind rest

structure Dom where
  kinds : List String
  nilOk : Bool
deriving Repr, DecidableEq

/-- the query arguments a function accepts -/
def domOf (fn : String) : Dom :=
  if fn == "areEqualSQLVal" then ⟨["SQLVal"], false⟩
  else if fn == "areEqualColIdent" then ⟨["ColIdent"], false⟩
  else if fn == "areEqualSubquery" then ⟨["Subquery"], false⟩
  else if fn == "areEqualValTuple" then ⟨["ValTuple"], false⟩
  else if fn == "areEqualSelectExprs" then ⟨["SelectExprs"], false⟩
  else match typeSwitches.lookup fn with
    | some cases => ⟨(cases.map (·.1)).filter (fun k => !excludedCases.contains (fn, k)), fn == "areEqualExpr"⟩
    | none =>
      match compiled.lookup fn with
      | some (_, steps) =>
        match castKind steps with
        | some k => ⟨[k], false⟩
        | none =>
          match comparatorParams.lookup fn with
          | some d => ⟨[d.2.1], hasNilGuard steps⟩
          | none => ⟨[], false⟩
      | none => ⟨[], false⟩

/-! ## operand shapes -/

def qWhole : Opnd := ⟨true, false, []⟩
def pWhole : Opnd := ⟨false, false, []⟩
def qField (f : String) : Opnd := ⟨true, false, [(f, false)]⟩
def pField (f : String) : Opnd := ⟨false, false, [(f, false)]⟩
def qElem : Opnd := ⟨true, true, []⟩
def pElem : Opnd := ⟨false, true, []⟩
def qElemField (f : String) : Opnd := ⟨true, true, [(f, false)]⟩
def pElemField (f : String) : Opnd := ⟨false, true, [(f, false)]⟩
def qFieldElem (f : String) : Opnd := ⟨true, false, [(f, true)]⟩
def pFieldElem (f : String) : Opnd := ⟨false, false, [(f, true)]⟩

def fieldNames (k : String) : List String := (structFields.lookup k).getD []

/-- declared type of field `f` of struct `k`, looked up by *position* (the position `Tree.field` uses) -/
def declTy (k f : String) : Option Ty :=
  (Tree.fieldIndex k f).bind fun j => (fieldTys k).bind (·[j]?)

/-- types none of whose values contains anything a generalisation could replace -/
def rigidTy : Ty → Bool
  | .leaf => true
  | .iface i => i == ""
  | .named n => n == "Comments" && namedTy n == some (some .leaf)
  | _ => false

/-- all declared parts of a node of kind `k` are rigid (so two such nodes related by `isGen` are equal) -/
def wholeRigid (k : String) : Bool :=
  k != "Select" &&
  match fieldTys k with
  | some tys => tys.all rigidTy
  | none =>
    match namedTy k with
    | some (some e) => rigidTy e && k != "ValTuple"
    | some none => true
    | none => false

/-- kind of the elements of a list-typed value of declared type `ty` -/
def elemKindOf : Ty → Option String
  | .named n => match namedTy n with
    | some (some (.ptr k)) => some k
    | some (some (.struct k)) => some k
    | _ => none
  | .list (.ptr k) => some k
  | .list (.struct k) => some k
  | _ => none

/-- kind of a list-typed value of declared type `ty` (`list` for anonymous slices) -/
def listKindOf : Ty → Option String
  | .named n => match namedTy n with
    | some (some _) => some n
    | _ => none
  | .list _ => some "list"
  | _ => none

/-- a list kind over which the comparators loop: no placeholder replaces the list itself, no `%%LIST_OF_VALUES%%` -/
def plainList (l : String) : Bool := (placeholdersFor false l).isEmpty && l != "ValTuple" && l != "Select"

/-- a callee that needs pattern and query of the same kind is only called where generalisation keeps the kind -/
def calleeKeepsKind (c : String) : Bool := rankOf c != 2 || (domOf c).kinds.all fun k => !kindChanging k

/-- comparison `c` applied to a part of declared type `ty`, outside the WHERE slot -/
def partOk (c : String) (ty : Option Ty) : Bool :=
  match ty with
  | none => false
  | some ty =>
    if c == "strings.EqualFold" then ty == .leaf
    else if c == "reflect.DeepEqual" || c == "bytes.Equal" || c == "!=" then rigidTy ty
    else calleeKeepsKind c

/-- how a loop ranges: over the pattern itself or over one of its fields -/
inductive LoopOver where
  | none | whole | field (f : String)
deriving DecidableEq, Repr

/-- typing of one comparison `c(a, b)` in a function whose argument has kind `k` -/
def pairTyped (k : String) (lp : LoopOver) (c : String) (a b : Opnd) : Bool :=
  match lp with
  | .none =>
    (a == qWhole && b == pWhole && c != "strings.EqualFold" &&
      (if c == "reflect.DeepEqual" || c == "bytes.Equal" || c == "!=" then wholeRigid k else rank1Fns.contains c && (domOf c).kinds.contains k))
    || (fieldNames k).any (fun f => a == qField f && b == pField f && f != "CompliantName()" && f != ""
          && ((Tree.fieldIndex k f).all fun j => !whereSlot true k j) && partOk c (declTy k f))
    || (a == qField "CompliantName()" && b == pField "CompliantName()" && c == "strings.EqualFold" && declTy k "v" == some .leaf)
  | .whole =>
    (fieldTys k).isNone &&
    ((a == qElem && b == pElem && plainList k && !builtinCmp c && c != "!=" && calleeKeepsKind c)
    || (match namedTy k with
        | some (some e) =>
          match elemKindOf (.named k) with
          | some ek => plainList k && (placeholdersFor false ek).isEmpty && ek != "Select" && ek != "ValTuple" && e != .ptr "" &&
              (fieldNames ek).any fun f => a == qElemField f && b == pElemField f && f != "CompliantName()" && f != "" && partOk c (declTy ek f)
          | none => false
        | _ => false))
  | .field f0 =>
    a == qFieldElem f0 && b == pFieldElem f0 && f0 != "CompliantName()" && f0 != "" && !builtinCmp c && c != "!=" && calleeKeepsKind c
      && (match (declTy k f0).bind listKindOf with | some l => plainList l | none => false)

def atomTyped (k : String) (lp : LoopOver) : AStep → Bool
  | .cast _ k' => lp == .none && k' == k
  | .shortcut o ph => lp == .none && o == pWhole && (placeholderStmt ph).isSome
  | .nilboth => false
  | .nileither => false
  | .len a b =>
    lp == .none &&
    ((a == qWhole && b == pWhole && plainList k && (namedTy k).isSome)
     || (fieldNames k).any fun f => a == qField f && b == pField f && f != "CompliantName()" && f != "" &&
          ((Tree.fieldIndex k f).all fun j => !whereSlot true k j) &&
          (match (declTy k f).bind listKindOf with | some l => plainList l | none => false))
  | .ne a b => pairTyped k lp "!=" a b
  | .cmp c a b => c != "!=" && pairTyped k lp c a b
  | .cmpNeg _ _ _ => false
  | .cmpEsc e ea c a b =>
    lp == .none && e == "isWherePattern" && !builtinCmp c && c != "!=" && calleeKeepsKind c &&
      (fieldNames k).any fun f => a == qField f && b == pField f && ea == pField f && f != "CompliantName()" && f != "" && (declTy k f).isSome
  | .bad => false

def cstepTyped (k : String) : CStep → Bool
  | .atom a => atomTyped k .none a
  | .range o body =>
    (o == pWhole && plainList k && (namedTy k).isSome && body.all (atomTyped k .whole))
    || (fieldNames k).any fun f => o == pField f && f != "CompliantName()" && f != "" &&
         ((Tree.fieldIndex k f).all fun j => !whereSlot true k j) &&
         (match (declTy k f).bind listKindOf with | some l => plainList l | none => false) && body.all (atomTyped k (.field f))

def isCastOrShortcut : CStep → Bool
  | .atom (.cast _ _) => true
  | .atom (.shortcut _ _) => true
  | _ => false

def isShortcut : CStep → Bool
  | .atom (.shortcut _ _) => true
  | _ => false

def shortcutsOf : List CStep → List Tree
  | [] => []
  | .atom (.shortcut _ ph) :: rest => (placeholderStmt ph).toList ++ shortcutsOf rest
  | _ :: rest => shortcutsOf rest

/-- steps that look at the pattern's own structure (everything except casts, shortcuts and calls on the whole node) -/
def needsStructure : CStep → Bool
  | .atom (.cast _ _) => false
  | .atom (.shortcut _ _) => false
  | .atom (.cmp c a b) => !(a == qWhole && b == pWhole && rank1Fns.contains c)
  | _ => true

/-- the body of a comparator after its optional nil guard -/
def bodyOf (steps : List CStep) : List CStep := if hasNilGuard steps then steps.drop 2 else steps

/-- **a field-by-field comparator is well typed** (for a query argument of kind `k`) -/
def fnTyped (fn : String) (fin : Bool) (steps : List CStep) : Bool :=
  match (domOf fn).kinds with
  | [k] =>
    fin && !specialFns.contains fn && (typeSwitches.lookup fn).isNone
    && (bodyOf steps).all (cstepTyped k)
    -- a shortcut is preceded by casts and shortcuts only
    && ((bodyOf steps).dropWhile isCastOrShortcut).all (fun s => !isShortcut s)
    -- placeholders of the node's own kind are recognised by a shortcut (or nothing looks at the pattern's structure)
    && (!(bodyOf steps).any needsStructure || ((placeholdersFor false k).filter (·.kind == k)).all (shortcutsOf (bodyOf steps)).contains)
  | _ => false

/-- `fn` is a well-typed field-by-field comparator of the table -/
def okRegular (fn : String) : Bool :=
  match compiled.lookup fn with
  | some (fin, steps) => fnTyped fn fin steps
  | none => false

/-- the field-by-field comparators the theorem covers -/
def typedFns : List String := (compiled.map (·.1)).filter okRegular

/-- a plain case of a type switch is well typed -/
def caseTyped (fn : String) (c : String × String × String × String) : Bool :=
  let (k, callee, qa, pa) := c
  excludedCases.contains (fn, k) || callee == "special" ||
  ((parseOpnd qa == qWhole && parseOpnd pa == pWhole && !builtinCmp callee && rankOf callee < 3
      && (rank1Fns.contains callee || rank2Specials.contains callee || okRegular callee) && (domOf callee).kinds.contains k)
   || ((placeholdersFor false k).isEmpty &&
        (fieldNames k).any fun f => parseOpnd qa == qField f && parseOpnd pa == pField f && f != "CompliantName()" && f != ""
          && callee != "!=" && ((Tree.fieldIndex k f).all fun j => !whereSlot true k j) && partOk callee (declTy k f)))

def switchTyped (fn : String) : Bool :=
  match typeSwitches.lookup fn with
  | some cases =>
    cases.all (caseTyped fn) && (fn == "areEqualExpr" || (domOf fn).kinds.all fun k => !kindChanging k)
      && (specialFns.contains fn || (cases.all (fun c => c.2.1 != "special") && (comparators.lookup fn).isNone))
  | none => false

/-- the functions `P` is proved for -/
def okFn (fn : String) : Bool :=
  rank1Fns.contains fn || rank2Specials.contains fn || okRegular fn || switchTyped fn

/-- `fn` accepts `t` as its query argument -/
def accepts (fn : String) (t : Tree) : Bool :=
  okFn fn && !t.isLeaf && ((t.isNilNode && (domOf fn).nilOk) || (!t.isNilNode && (domOf fn).kinds.contains t.kind))

/-! ## the matcher-side half of the typing judgement -/

/-- what one comparison demands of the node `node k ks` it is applied to: the compared part exists and, when a
function is called on it, that function accepts it -/
def pairAcc (k : String) (ks : List Tree) (c : String) (a : Opnd) : Bool :=
  let ok (x : Tree) : Bool := builtinCmp c || c == "!=" || accepts c x
  if a.path.isEmpty then (if a.rootIdx then ks.all ok else true)
  else match a.path with
    | [(f, false)] =>
      if a.rootIdx then ks.all fun x => ((x.field f).map ok).getD false
      else (((Tree.node k ks).field (if f == "CompliantName()" then "v" else f)).map ok).getD false
    | [(f, true)] => (((Tree.node k ks).field f).map fun l => l.kids.all ok).getD false
    | _ => false

def atomAcc (k : String) (ks : List Tree) : AStep → Bool
  | .cmp c a _ => pairAcc k ks c a
  | .cmpEsc _ _ c a _ => pairAcc k ks c a
  | .ne a _ => pairAcc k ks "!=" a
  | _ => true

def cstepAcc (k : String) (ks : List Tree) : CStep → Bool
  | .atom a => atomAcc k ks a
  | .range _ body => body.all (atomAcc k ks)

/-- children on which the hand-written functions call another function: (kind, field or "" for the elements, callee) -/
def specialSites : List (String × String × String) :=
  [("Subquery", "Select", "areEqualSelectStatement"), ("ValTuple", "", "areEqualExpr"),
   ("SelectExprs", "", "areEqualSelectExpr"), ("StarExpr", "TableName", "areEqualTableName"),
   ("Values", "", "areEqualValTuple")]

def siteAcc (k : String) (ks : List Tree) (s : String × String × String) : Bool :=
  s.1 != k ||
  (if s.2.1 == "" then ks.all (accepts s.2.2) else (((Tree.node k ks).field s.2.1).map (accepts s.2.2)).getD false)

/-- the plain cases of the type switches that look at a field of the node (`ParenSelect.Select`, `Default.ColName`) -/
def caseAcc (k : String) (ks : List Tree) (fn : String) (c : String × String × String × String) : Bool :=
  c.1 != k || excludedCases.contains (fn, k) || c.2.1 == "special" || pairAcc k ks c.2.1 (parseOpnd c.2.2.1)

/-- node `node k ks`: every comparison any covered function makes on it finds an acceptable part -/
def accNode (k : String) (ks : List Tree) : Bool :=
  (compiled.all fun e => !((domOf e.1).kinds == [k] && okRegular e.1) || (bodyOf e.2.2).all (cstepAcc k ks))
  && (typeSwitches.all fun e => e.2.all (caseAcc k ks e.1))
  && specialSites.all (siteAcc k ks)

mutual
def acc : Tree → Bool
  | .leaf _ => true
  | .node k ks => accNode k ks && accList ks
def accList : List Tree → Bool
  | [] => true
  | x :: xs => acc x && accList xs
end

end AcraModel.Censor.Match

namespace AcraModel.Censor
open AcraModel.Censor.Match

/-- **well typed for the matcher**: well typed w.r.t. the Go types of `sqlparser/ast.go` (`wellTyped`) and every
compared position holds a value the comparator called on it has a case for (`acc`) -/
def wellTypedM (t : Tree) : Bool := wellTyped t && Match.acc t

end AcraModel.Censor
