import AcraModel.Censor.MatchLemmas
/-!
# `match_generalise`: the induction

`P aw t` – every covered function that accepts `t` returns `true` on `(t, p)` for every generalisation `p` of `t`,
given enough fuel. Proved for all well-typed `t` by induction on the depth of `t`:
field-by-field comparators generically from the typing of the regenerated table (`regular_ok`), the hand-written
functions one by one, the type switches generically over their regenerated case lists.
-/
namespace AcraModel.Censor.Match
open AcraModel AcraModel.Censor Generated.CensorTable

/-- the expression of the `%%WHERE%%` constant (`isWherePattern` runs `areEqualExpr` on it) -/
def wexpr : Tree := fld wherePattern "Expr"

/-- `isWherePattern` recognises the `%%WHERE%%` constant (needed only when `%%WHERE%%` is allowed) -/
def HW (aw : Bool) : Prop :=
  aw = true → ∀ fuel, 3 * wexpr.depth + 3 ≤ fuel → evalFn fuel "areEqualExpr" wexpr wexpr = true

def need (fn : String) (p : Tree) : Nat := 3 * p.depth + rankOf fn

def P (aw : Bool) (t : Tree) : Prop :=
  ∀ fn p fuel, accepts fn t = true → isGen aw false p t = true → (rankOf fn = 2 → p.kind = t.kind) →
    need fn p ≤ fuel → evalFn fuel fn t p = true

theorem rankOf_le (fn : String) : rankOf fn ≤ 3 := by
  unfold rankOf; split
  · omega
  · split <;> omega

theorem rankOf_pos (fn : String) : 1 ≤ rankOf fn := by
  unfold rankOf; split
  · omega
  · split <;> omega

/-! ## operands -/

theorem selO_qWhole (i : Option Nat) (q p : Tree) : selO i q p qWhole = some q := rfl
theorem selO_pWhole (i : Option Nat) (q p : Tree) : selO i q p pWhole = some p := rfl

theorem selO_qField (q p : Tree) (f : String) (hf : f ≠ "CompliantName()") :
    selO none q p (qField f) = q.field f := by
  simp [selO, qField, stepComp, hf]

theorem selO_pField (q p : Tree) (f : String) (hf : f ≠ "CompliantName()") :
    selO none q p (pField f) = p.field f := by
  simp [selO, pField, stepComp, hf]

theorem selO_qCompliant (q p : Tree) :
    selO none q p (qField "CompliantName()") = (q.field "v").map fun v => .leaf (compliantName v.leafBytes) := by
  simp [selO, qField, stepComp]

theorem selO_pCompliant (q p : Tree) :
    selO none q p (pField "CompliantName()") = (p.field "v").map fun v => .leaf (compliantName v.leafBytes) := by
  simp [selO, pField, stepComp]

theorem selO_qElem (i : Nat) (q p : Tree) : selO (some i) q p qElem = q.kids[i]? := by
  simp [selO, qElem]

theorem selO_pElem (i : Nat) (q p : Tree) : selO (some i) q p pElem = p.kids[i]? := by
  simp [selO, pElem]

theorem selO_qElemField (i : Nat) (q p : Tree) (f : String) (hf : f ≠ "CompliantName()") :
    selO (some i) q p (qElemField f) = (q.kids[i]?).bind (·.field f) := by
  simp [selO, qElemField, stepComp, hf]

theorem selO_pElemField (i : Nat) (q p : Tree) (f : String) (hf : f ≠ "CompliantName()") :
    selO (some i) q p (pElemField f) = (p.kids[i]?).bind (·.field f) := by
  simp [selO, pElemField, stepComp, hf]

theorem selO_qFieldElem (i : Nat) (q p : Tree) (f : String) (hf : f ≠ "") :
    selO (some i) q p (qFieldElem f) = (q.field f).bind (·.kids[i]?) := by
  simp [selO, qFieldElem, stepComp, hf]

theorem selO_pFieldElem (i : Nat) (q p : Tree) (f : String) (hf : f ≠ "") :
    selO (some i) q p (pFieldElem f) = (p.field f).bind (·.kids[i]?) := by
  simp [selO, pFieldElem, stepComp, hf]

/-! ## kinds that are not structs -/

theorem fieldTys_valTuple : fieldTys "ValTuple" = none := by decide
theorem fieldTys_nil : fieldTys "nil" = none := by decide
theorem fieldTys_list : fieldTys "list" = none := by decide

theorem struct_kind_ne {k : String} {tys : List Ty} (h : fieldTys k = some tys) :
    k ≠ "ValTuple" ∧ (k == "nil") = false ∧ (k == "list") = false := by
  refine ⟨?_, ?_, ?_⟩
  · intro e; subst e; rw [fieldTys_valTuple] at h; cases h
  · cases hk : k == "nil" with
    | false => rfl
    | true => rw [beq_iff_eq] at hk; subst hk; rw [fieldTys_nil] at h; cases h
  · cases hk : k == "list" with
    | false => rfl
    | true => rw [beq_iff_eq] at hk; subst hk; rw [fieldTys_list] at h; cases h

/-- the children of a struct node and of a node-by-node generalisation of it, field by field -/
theorem field_align {aw : Bool} {k f : String} {ks ps : List Tree} {ty : Ty}
    (hwf : wf (.node k ks) = true) (hgen : isGenKids aw k 0 ps ks = true) (hd : declTy k f = some ty) :
    ∃ j x y, Tree.fieldIndex k f = some j ∧ (Tree.node k ks).field f = some x ∧ (Tree.node k ps).field f = some y
      ∧ ks[j]? = some x ∧ ps[j]? = some y ∧ conforms ty x = true ∧ wf x = true ∧ isGen aw (whereSlot aw k j) y x = true := by
  unfold declTy at hd
  cases hj : Tree.fieldIndex k f with
  | none => simp [hj] at hd
  | some j =>
    cases ht : fieldTys k with
    | none => simp [hj, ht] at hd
    | some tys =>
      simp only [hj, ht, Option.bind_some] at hd
      obtain ⟨hne, hn, hl⟩ := struct_kind_ne ht
      have hwff := wf_struct hwf ht hn hl
      obtain ⟨hlen, hall⟩ := wfFields_get tys ks hwff
      have hjl : j < tys.length := (List.getElem?_eq_some_iff.mp hd).1
      have hx : ks[j]? = some ks[j] := List.getElem?_eq_getElem (by omega)
      obtain ⟨hlen2, hall2⟩ := isGenKids_plain hne 0 ps ks hgen
      have hy : ps[j]? = some ps[j] := List.getElem?_eq_getElem (by omega)
      refine ⟨j, ks[j], ps[j], rfl, ?_, ?_, hx, hy, (hall j ty _ hd hx).1, (hall j ty _ hd hx).2, ?_⟩
      · simp [Tree.field, hj, hx]
      · simp [Tree.field, hj, hy]
      · simpa using hall2 j _ _ hx hy

end AcraModel.Censor.Match

namespace AcraModel.Censor.Match
open AcraModel AcraModel.Censor Generated.CensorTable

/-! ## kinds and rigidity -/

theorem whereSlot_ne_select {aw : Bool} {k : String} (h : k ≠ "Select") (j : Nat) : whereSlot aw k j = false := by
  simp [whereSlot, h]

theorem whereSlot_mono {aw : Bool} {k : String} {j : Nat} (h : whereSlot true k j = false) : whereSlot aw k j = false := by
  cases aw
  · simp [whereSlot]
  · exact h

theorem isNilNode_eq {t : Tree} (h : t.isNilNode = true) : t = Tree.nil := by
  cases t with
  | leaf b => simp [Tree.isNilNode] at h
  | node k ks =>
    simp only [Tree.isNilNode, Bool.and_eq_true, beq_iff_eq, List.isEmpty_iff] at h
    rw [h.1, h.2]; rfl

/-- a generalisation of nil is nil -/
theorem isGen_nil {aw : Bool} {p : Tree} (h : isGen aw false p Tree.nil = true) : p = Tree.nil := by
  rcases isGen_node (k := "nil") (ks := []) h with h | ⟨ps, rfl, hk⟩
  · have : placeholdersFor false "nil" = [] := by decide
    rw [this] at h; cases h
  · rw [isGenKids.eq_1, List.isEmpty_iff] at hk
    subst hk; rfl

/-- a generalisation keeps the kind unless it turns a `BoolVal`/`NullVal`/`FuncExpr` into `%%VALUE%%` -/
theorem isGen_kind {aw : Bool} {p t : Tree} (h : isGen aw false p t = true) (hk : kindChanging t.kind = false) :
    p.kind = t.kind := by
  cases t with
  | leaf b => rw [isGen_leaf h]
  | node k ks =>
    rcases isGen_node h with h | ⟨ps, rfl, _⟩
    · simp only [Tree.kind] at hk ⊢
      simp only [placeholdersFor, List.mem_append] at h
      rcases h with ((((h | h) | h) | h) | h) | h
      · split at h
        · next hv =>
          simp only [List.mem_singleton] at h
          subst h
          simp only [kindChanging, hv, Bool.true_and, bne_eq_false_iff_eq] at hk
          rw [hk]; decide
        · cases h
      · split at h
        · next hc => simp only [List.mem_singleton] at h; subst h; rw [beq_iff_eq] at hc; rw [hc]; decide
        · cases h
      · split at h
        · next hc => simp only [List.mem_singleton] at h; subst h; rw [beq_iff_eq] at hc; rw [hc]; decide
        · cases h
      · split at h
        · next hc => simp only [List.mem_singleton] at h; subst h; rw [beq_iff_eq] at hc; rw [hc]; decide
        · cases h
      · simp only [Option.mem_toList, stmtPattern] at h
        split at h
        · next hc => rw [beq_iff_eq] at hc; cases h; rw [hc]; decide
        · split at h
          · next hc => rw [beq_iff_eq] at hc; cases h; rw [hc]; decide
          · split at h
            · next hc => rw [beq_iff_eq] at hc; cases h; rw [hc]; decide
            · split at h
              · next hc => rw [beq_iff_eq] at hc; cases h; rw [hc]; decide
              · split at h
                · next hc => rw [beq_iff_eq] at hc; cases h; rw [hc]; decide
                · cases h
      · simp at h
    · rfl

/-- a part of a rigid type generalises to itself only -/
theorem isGen_rigid {aw : Bool} {ty : Ty} {x y : Tree} (hc : conforms ty x = true) (hw : wf x = true)
    (hr : rigidTy ty = true) (h : isGen aw false y x = true) : y = x := by
  cases ty with
  | leaf =>
    cases x with
    | leaf b => exact isGen_leaf h
    | node _ _ => simp [conforms, Tree.isLeaf] at hc
  | iface i =>
    simp only [rigidTy, beq_iff_eq] at hr
    subst hr
    have : impls "" = [] := by decide
    simp only [conforms, this, List.contains_nil, Bool.or_false] at hc
    rw [isNilNode_eq hc] at h ⊢
    exact isGen_nil h
  | named n =>
    simp only [rigidTy, Bool.and_eq_true, beq_iff_eq] at hr
    obtain ⟨hn, _⟩ := hr
    subst hn
    cases x with
    | leaf b => simp [conforms, Tree.kind] at hc
    | node k ks =>
      simp only [conforms, Tree.kind, beq_iff_eq] at hc
      subst hc
      rcases isGen_node h with h | ⟨ps, rfl, hk⟩
      · have : placeholdersFor false "Comments" = [] := by decide
        rw [this] at h; cases h
      · have hf : fieldTys "Comments" = none := by decide
        have hn : namedTy "Comments" = some (some .leaf) := by decide
        have hel := wf_named hw hf hn (by decide) (by decide)
        have hleaves : ∀ x ∈ ks, x.isLeaf = true := fun x hx => by
          have := (wfElems_mem _ ks hel x hx).1
          simpa [conforms] using this
        rw [isGenKids_leaves 0 ps ks hleaves hk]
  | struct _ => simp [rigidTy] at hr
  | ptr _ => simp [rigidTy] at hr
  | list _ => simp [rigidTy] at hr
  | other => simp [rigidTy] at hr

end AcraModel.Censor.Match

namespace AcraModel.Censor.Match
open AcraModel AcraModel.Censor Generated.CensorTable

/-! ## calls on parts -/

theorem kindChanging_nil : kindChanging "nil" = false := by decide

/-- a function called on a part below the node: the induction hypothesis applies -/
theorem kid_call {aw : Bool} {q p x y : Tree} {c : String} {f : Nat}
    (IH : ∀ x, x.depth < q.depth → wf x = true → acc x = true → P aw x)
    (hxd : x.depth < q.depth) (hyd : y.depth + 1 ≤ p.depth) (hwfx : wf x = true) (haccx : acc x = true)
    (hacc : accepts c x = true) (hgen : isGen aw false y x = true) (hkeep : calleeKeepsKind c = true)
    (hfuel : 3 * p.depth + 2 ≤ f + 1) : evalFn f c x y = true := by
  apply IH x hxd hwfx haccx c y f hacc hgen
  · intro hr
    apply isGen_kind hgen
    simp only [calleeKeepsKind, hr, bne_self_eq_false, Bool.false_or, List.all_eq_true] at hkeep
    simp only [accepts, Bool.and_eq_true, Bool.or_eq_true] at hacc
    rcases hacc.2 with h | h
    · rw [isNilNode_eq h.1]; exact kindChanging_nil
    · have := hkeep x.kind (by simpa using h.2)
      simpa using this
  · unfold need
    have := rankOf_le c
    omega

theorem foldEq_self_leaf {x : Tree} (h : x.isLeaf = true) : foldEq x x = true := by
  cases x with
  | leaf b => simp [foldEq]
  | node _ _ => simp [Tree.isLeaf] at h

/-- one comparison of a part `x` of the statement with the corresponding part `y` of the pattern succeeds -/
theorem part_cmp {aw : Bool} {q p x y : Tree} {c : String} {ty : Ty} {f : Nat}
    (IH : ∀ x, x.depth < q.depth → wf x = true → acc x = true → P aw x)
    (hxd : x.depth < q.depth) (hyd : y.depth + 1 ≤ p.depth) (hc : conforms ty x = true) (hwfx : wf x = true) (haccx : acc x = true)
    (hok : partOk c (some ty) = true) (hne : (c == "!=") = false)
    (hacc : (builtinCmp c || c == "!=" || accepts c x) = true) (hgen : isGen aw false y x = true)
    (hfuel : 3 * p.depth + 2 ≤ f + 1) : opCmp (evalFn f) c x y = true := by
  unfold opCmp
  simp only [partOk] at hok
  split
  · next h1 =>
    simp only [h1, if_true, beq_iff_eq] at hok
    subst hok
    have hl : x.isLeaf = true := by simpa [conforms] using hc
    cases x with
    | leaf b => rw [isGen_leaf hgen]; simp [foldEq]
    | node _ _ => simp [Tree.isLeaf] at hl
  · next h1 =>
    simp only [h1, Bool.false_eq_true, if_false] at hok
    split
    · next h2 =>
      have : (c == "reflect.DeepEqual" || c == "bytes.Equal" || c == "!=") = true := by
        simp only [Bool.or_eq_true] at h2 ⊢; exact Or.inl h2
      simp only [this, if_true] at hok
      rw [isGen_rigid hc hwfx hok hgen]
      exact Tree.beq_refl x
    · next h2 =>
      have h2' : (c == "reflect.DeepEqual" || c == "bytes.Equal" || c == "!=") = false := by
        simp only [Bool.not_eq_true, Bool.or_eq_false_iff] at h2
        simp [h2.1, h2.2, hne]
      simp only [h2', Bool.false_eq_true, if_false] at hok
      have hb : builtinCmp c = false := by
        simp only [Bool.not_eq_true] at h1 h2
        simp only [Bool.or_eq_false_iff] at h2
        simp [builtinCmp, h1, h2.1, h2.2]
      simp only [hb, hne, Bool.false_or] at hacc
      exact kid_call IH hxd hyd hwfx haccx hacc hgen hok hfuel

/-- `!=` on a part: the two parts are equal -/
theorem part_ne {aw : Bool} {x y : Tree} {ty : Ty} (hc : conforms ty x = true) (hwfx : wf x = true)
    (hok : partOk "!=" (some ty) = true) (hgen : isGen aw false y x = true) : y = x := by
  have : rigidTy ty = true := by
    simp only [partOk] at hok
    simpa using hok
  exact isGen_rigid hc hwfx this hgen

end AcraModel.Censor.Match

namespace AcraModel.Censor.Match
open AcraModel AcraModel.Censor Generated.CensorTable

/-! ## the steps of a field-by-field comparator on a node and a node-by-node generalisation of it -/

/-- what the generic step lemmas assume: `q = node k ks` is well typed, `p = node k ps` generalises it child by child,
the induction hypothesis holds below `q`, and there is fuel for `p` -/
structure Ctx (aw : Bool) (k : String) (ks ps : List Tree) (f : Nat) : Prop where
  hw : HW aw
  wfq : wf (.node k ks) = true
  accq : acc (.node k ks) = true
  gen : isGenKids aw k 0 ps ks = true
  IH : ∀ x, x.depth < (Tree.node k ks).depth → wf x = true → acc x = true → P aw x
  fuel : 3 * (Tree.node k ps).depth + 2 ≤ f + 1

/-- field `fn` of `q` and of `p`, outside the WHERE slot -/
theorem locate_field {aw : Bool} {k fn : String} {ks ps : List Tree} {f : Nat} {ty : Ty} (cx : Ctx aw k ks ps f)
    (hd : declTy k fn = some ty) (hws : ((Tree.fieldIndex k fn).all fun j => !whereSlot true k j) = true) :
    ∃ x y, (Tree.node k ks).field fn = some x ∧ (Tree.node k ps).field fn = some y ∧ x ∈ ks ∧ y ∈ ps
      ∧ conforms ty x = true ∧ wf x = true ∧ acc x = true ∧ isGen aw false y x = true := by
  obtain ⟨j, x, y, hj, hx, hy, hkx, hky, hc, hwx, hg⟩ := field_align cx.wfq cx.gen hd
  have hxm : x ∈ ks := List.mem_of_getElem? hkx
  have hws' : whereSlot aw k j = false := by
    apply whereSlot_mono
    simp only [hj, Option.all_some, Bool.not_eq_true'] at hws
    exact hws
  rw [hws'] at hg
  exact ⟨x, y, hx, hy, hxm, List.mem_of_getElem? hky, hc, hwx, acc_kid cx.accq hxm, hg⟩

theorem pairAcc_field {k fn c : String} {ks : List Tree} {x : Tree} (hfn : fn ≠ "CompliantName()")
    (h : pairAcc k ks c (qField fn) = true) (hx : (Tree.node k ks).field fn = some x) :
    (builtinCmp c || c == "!=" || accepts c x) = true := by
  have hb : (fn == "CompliantName()") = false := by simpa using hfn
  simp only [pairAcc, qField, List.isEmpty_cons, Bool.false_eq_true, if_false, hb, hx, Option.map_some, Option.getD_some] at h
  exact h

theorem cmp_pass {call : String → Tree → Tree → Bool} {esc : String → Tree → Bool} {q p x y : Tree} {i : Option Nat} {c : String} {a b : Opnd}
    (ha : selO i q p a = some x) (hb : selO i q p b = some y) (h : opCmp call c x y = true) :
    (atomAt call esc q p i (.cmp c a b)).notFalse = true := by
  simp [atomAt, ha, hb, h, Res.notFalse]

theorem ne_pass {call : String → Tree → Tree → Bool} {esc : String → Tree → Bool} {q p x : Tree} {i : Option Nat} {a b : Opnd}
    (ha : selO i q p a = some x) (hb : selO i q p b = some x) :
    (atomAt call esc q p i (.ne a b)).notFalse = true := by
  simp [atomAt, ha, hb, Res.notFalse]

/-- `c(q.F, p.F)` -/
theorem field_cmp_good {aw : Bool} {k fn c : String} {ks ps : List Tree} {f : Nat} {esc : String → Tree → Bool} (cx : Ctx aw k ks ps f)
    (hfn : fn ≠ "CompliantName()") (hws : ((Tree.fieldIndex k fn).all fun j => !whereSlot true k j) = true)
    (hok : partOk c (declTy k fn) = true) (hne : (c == "!=") = false) (hacc : pairAcc k ks c (qField fn) = true) :
    (atomAt (evalFn f) esc (.node k ks) (.node k ps) none (.cmp c (qField fn) (pField fn))).notFalse = true := by
  cases hd : declTy k fn with
  | none => simp [hd, partOk] at hok
  | some ty =>
    rw [hd] at hok
    obtain ⟨x, y, hx, hy, hxm, hym, hc, hwx, hax, hg⟩ := locate_field cx hd hws
    refine cmp_pass (by rw [selO_qField _ _ _ hfn]; exact hx) (by rw [selO_pField _ _ _ hfn]; exact hy) ?_
    exact part_cmp cx.IH (Nat.lt_of_succ_le (Tree.depth_kid hxm)) (Tree.depth_kid hym) hc hwx hax hok hne
      (pairAcc_field hfn hacc hx) hg cx.fuel

/-- `q.F != p.F` -/
theorem field_ne_good {aw : Bool} {k fn : String} {ks ps : List Tree} {f : Nat} {esc : String → Tree → Bool} (cx : Ctx aw k ks ps f)
    (hfn : fn ≠ "CompliantName()") (hws : ((Tree.fieldIndex k fn).all fun j => !whereSlot true k j) = true)
    (hok : partOk "!=" (declTy k fn) = true) :
    (atomAt (evalFn f) esc (.node k ks) (.node k ps) none (.ne (qField fn) (pField fn))).notFalse = true := by
  cases hd : declTy k fn with
  | none => simp [hd, partOk] at hok
  | some ty =>
    rw [hd] at hok
    obtain ⟨x, y, hx, hy, _, _, hc, hwx, _, hg⟩ := locate_field cx hd hws
    have := part_ne hc hwx hok hg
    subst this
    exact ne_pass (by rw [selO_qField _ _ _ hfn]; exact hx) (by rw [selO_pField _ _ _ hfn]; exact hy)

end AcraModel.Censor.Match

namespace AcraModel.Censor.Match
open AcraModel AcraModel.Censor Generated.CensorTable

theorem wherePattern_depth : wherePattern.depth = wexpr.depth + 1 := by decide
theorem wherePattern_notNil : wherePattern.isNil = false := by decide
theorem wherePattern_type : foldEq (fld wherePattern "Type") (fld wherePattern "Type") = true := by decide

/-- `isWherePattern(%%WHERE%%)` -/
theorem esc_wherePattern {aw : Bool} (hw : HW aw) (haw : aw = true) {f : Nat} (hf : 3 * wexpr.depth + 3 ≤ f) :
    escEval (evalFn f) "isWherePattern" wherePattern = true := by
  simp only [escEval, wherePattern_notNil, wherePattern_type, beq_self_eq_true, Bool.not_false, Bool.true_and]
  exact hw haw f hf

/-- `areEqualWhere(q.Where, p.Where)` with the `%%WHERE%%` escape -/
theorem field_esc_good {aw : Bool} {k fn c : String} {ks ps : List Tree} {f : Nat} (cx : Ctx aw k ks ps f)
    (hfn : fn ≠ "CompliantName()") (hd : (declTy k fn).isSome = true)
    (hnb : builtinCmp c = false) (hne : (c == "!=") = false) (hkeep : calleeKeepsKind c = true)
    (hacc : pairAcc k ks c (qField fn) = true) :
    (atomAt (evalFn f) (escEval (evalFn f)) (.node k ks) (.node k ps) none
      (.cmpEsc "isWherePattern" (pField fn) c (qField fn) (pField fn))).notFalse = true := by
  cases hdt : declTy k fn with
  | none => simp [hdt] at hd
  | some ty =>
    obtain ⟨j, x, y, hj, hx, hy, hkx, hky, hc, hwx, hg⟩ := field_align cx.wfq cx.gen hdt
    have hxm : x ∈ ks := List.mem_of_getElem? hkx
    have hym : y ∈ ps := List.mem_of_getElem? hky
    have ha : selO none (.node k ks) (.node k ps) (qField fn) = some x := by rw [selO_qField _ _ _ hfn]; exact hx
    have hb : selO none (.node k ks) (.node k ps) (pField fn) = some y := by rw [selO_pField _ _ _ hfn]; exact hy
    have hop : opCmp (evalFn f) c x y = evalFn f c x y := by
      simp only [builtinCmp, Bool.or_eq_false_iff] at hnb
      simp [opCmp, hnb.1.1, hnb.1.2, hnb.2]
    have hacc' := pairAcc_field hfn hacc hx
    simp only [hnb, hne, Bool.false_or] at hacc'
    have call_ok : isGen aw false y x = true → opCmp (evalFn f) c x y = true := fun hg' => by
      rw [hop]
      exact kid_call cx.IH (Nat.lt_of_succ_le (Tree.depth_kid hxm)) (Tree.depth_kid hym) hwx (acc_kid cx.accq hxm) hacc' hg' hkeep cx.fuel
    simp only [atomAt, ha, hb]
    cases hwh : whereSlot aw k j with
    | false =>
      rw [hwh] at hg
      simp [call_ok hg, Res.notFalse]
    | true =>
      rw [hwh] at hg
      have haw : aw = true := by
        cases aw
        · simp [whereSlot] at hwh
        · rfl
      rcases isGen_wh hg with hy' | hg'
      · cases hcmp : opCmp (evalFn f) c x y with
        | true => simp [Res.notFalse]
        | false =>
          have hd1 := Tree.depth_kid (k := k) hym
          have hfu := cx.fuel
          rw [hy', wherePattern_depth] at hd1
          have : escEval (evalFn f) "isWherePattern" y = true := by
            rw [hy']; exact esc_wherePattern cx.hw haw (by omega)
          simp [this, Res.notFalse]
      · simp [call_ok hg', Res.notFalse]

/-- `strings.EqualFold(q.CompliantName(), p.CompliantName())` -/
theorem compliant_good {aw : Bool} {k : String} {ks ps : List Tree} {f : Nat} {esc : String → Tree → Bool} (cx : Ctx aw k ks ps f)
    (hd : declTy k "v" = some .leaf) :
    (atomAt (evalFn f) esc (.node k ks) (.node k ps) none
      (.cmp "strings.EqualFold" (qField "CompliantName()") (pField "CompliantName()"))).notFalse = true := by
  obtain ⟨j, x, y, _, hx, hy, _, _, hc, _, hg⟩ := field_align cx.wfq cx.gen hd
  cases x with
  | node _ _ => simp [conforms, Tree.isLeaf] at hc
  | leaf b =>
    have := isGen_leaf hg
    subst this
    refine cmp_pass (x := .leaf (compliantName b)) (y := .leaf (compliantName b)) ?_ ?_ ?_
    · rw [selO_qCompliant, hx]; rfl
    · rw [selO_pCompliant, hy]; rfl
    · simp [opCmp, foldEq]

theorem namedTy_nil : namedTy "nil" = none := by decide
theorem namedTy_list : namedTy "list" = none := by decide

theorem named_kind_ne {k : String} {e : Option Ty} (h : namedTy k = some e) : (k == "nil") = false ∧ (k == "list") = false := by
  constructor
  · cases hk : k == "nil" with
    | false => rfl
    | true => rw [beq_iff_eq] at hk; subst hk; rw [namedTy_nil] at h; cases h
  · cases hk : k == "list" with
    | false => rfl
    | true => rw [beq_iff_eq] at hk; subst hk; rw [namedTy_list] at h; cases h

theorem isSingleLeaf_leaves {ks : List Tree} (h : isSingleLeaf ks = true) : ∀ x ∈ ks, x.isLeaf = true := by
  cases ks with
  | nil => intro x hx; cases hx
  | cons y ys =>
    cases y with
    | node _ _ => simp [isSingleLeaf] at h
    | leaf b =>
      cases ys with
      | nil => intro x hx; simp only [List.mem_singleton] at hx; subst hx; rfl
      | cons _ _ => simp [isSingleLeaf] at h

/-- a node all of whose declared parts are rigid generalises (node by node) to itself only -/
theorem whole_rigid {aw : Bool} {k : String} {ks ps : List Tree} (hr : wholeRigid k = true)
    (hwf : wf (.node k ks) = true) (hgen : isGenKids aw k 0 ps ks = true) : ps = ks := by
  simp only [wholeRigid, Bool.and_eq_true, bne_iff_ne, ne_eq] at hr
  obtain ⟨hsel, hr⟩ := hr
  -- pointwise argument shared by the struct and the slice case
  have pointwise : k ≠ "ValTuple" → (∀ (j : Nat) (x : Tree), ks[j]? = some x → ∃ ty, rigidTy ty = true ∧ conforms ty x = true ∧ wf x = true) → ps = ks := by
    intro hvt hall
    obtain ⟨hlen, hk⟩ := isGenKids_plain hvt 0 ps ks hgen
    apply List.ext_getElem hlen
    intro j h1 h2
    have hx : ks[j]? = some ks[j] := List.getElem?_eq_getElem h2
    have hy : ps[j]? = some ps[j] := List.getElem?_eq_getElem h1
    obtain ⟨ty, hrt, hc, hw⟩ := hall j _ hx
    have := hk j _ _ hx hy
    rw [whereSlot_ne_select hsel] at this
    exact isGen_rigid hc hw hrt this
  cases ht : fieldTys k with
  | some tys =>
    rw [ht] at hr
    obtain ⟨hvt, hn, hl⟩ := struct_kind_ne ht
    obtain ⟨hlen, hall⟩ := wfFields_get tys ks (wf_struct hwf ht hn hl)
    apply pointwise hvt
    intro j x hx
    have hj : j < tys.length := by rw [hlen]; exact (List.getElem?_eq_some_iff.mp hx).1
    refine ⟨tys[j], ?_, hall j _ x (List.getElem?_eq_getElem hj) hx⟩
    exact List.all_eq_true.mp hr _ (List.getElem_mem hj)
  | none =>
    rw [ht] at hr
    cases hn : namedTy k with
    | none => simp [hn] at hr
    | some oe =>
      obtain ⟨hnn, hnl⟩ := named_kind_ne hn
      cases oe with
      | some e =>
        simp only [hn, Bool.and_eq_true, bne_iff_ne, ne_eq] at hr
        have hel := wf_named hwf ht hn hnn hnl
        apply pointwise hr.2
        intro j x hx
        have := wfElems_mem e ks hel x (List.mem_of_getElem? hx)
        exact ⟨e, hr.1, this.1, this.2⟩
      | none =>
        have hs : isSingleLeaf ks = true := by
          have := hwf
          rw [wf.eq_2] at this
          simpa [hnn, hnl, ht, hn] using this
        exact isGenKids_leaves 0 ps ks (isSingleLeaf_leaves hs) hgen

end AcraModel.Censor.Match

namespace AcraModel.Censor.Match
open AcraModel AcraModel.Censor Generated.CensorTable

/-! ## loops -/

theorem plainList_spec {l : String} (h : plainList l = true) :
    placeholdersFor false l = [] ∧ l ≠ "ValTuple" ∧ l ≠ "Select" := by
  simp only [plainList, Bool.and_eq_true, List.isEmpty_iff, bne_iff_ne, ne_eq] at h
  exact ⟨h.1.1, h.1.2, h.2⟩

/-- elements of a plain list and of a node-by-node generalisation of it -/
theorem elems_align {aw : Bool} {l : String} {ks ps : List Tree} (hpl : plainList l = true)
    (hgen : isGenKids aw l 0 ps ks = true) :
    ps.length = ks.length ∧ ∀ i, i < ps.length → ∃ x y, ks[i]? = some x ∧ ps[i]? = some y ∧ x ∈ ks ∧ y ∈ ps ∧ isGen aw false y x = true := by
  obtain ⟨_, hvt, hsel⟩ := plainList_spec hpl
  obtain ⟨hlen, hk⟩ := isGenKids_plain hvt 0 ps ks hgen
  refine ⟨hlen, fun i hi => ?_⟩
  have hx : ks[i]? = some ks[i] := List.getElem?_eq_getElem (by omega)
  have hy : ps[i]? = some ps[i] := List.getElem?_eq_getElem hi
  refine ⟨ks[i], ps[i], hx, hy, List.getElem_mem _, List.getElem_mem _, ?_⟩
  have := hk i _ _ hx hy
  rwa [whereSlot_ne_select hsel] at this

theorem opCmp_fn {call : String → Tree → Tree → Bool} {c : String} (hnb : builtinCmp c = false) (x y : Tree) :
    opCmp call c x y = call c x y := by
  simp only [builtinCmp, Bool.or_eq_false_iff] at hnb
  simp [opCmp, hnb.1.1, hnb.1.2, hnb.2]

/-- `c(q[i], p[i])` inside `for i := range p` -/
theorem elem_cmp_good {aw : Bool} {k c : String} {ks ps : List Tree} {f : Nat} {esc : String → Tree → Bool} (cx : Ctx aw k ks ps f)
    (hpl : plainList k = true) (hnb : builtinCmp c = false) (hne : (c == "!=") = false) (hkeep : calleeKeepsKind c = true)
    (hacc : pairAcc k ks c qElem = true) (i : Nat) (hi : i < ps.length) :
    (atomAt (evalFn f) esc (.node k ks) (.node k ps) (some i) (.cmp c qElem pElem)).notFalse = true := by
  obtain ⟨_, hall⟩ := elems_align hpl cx.gen
  obtain ⟨x, y, hx, hy, hxm, hym, hg⟩ := hall i hi
  refine cmp_pass (by rw [selO_qElem]; exact hx) (by rw [selO_pElem]; exact hy) ?_
  rw [opCmp_fn hnb]
  have hax : accepts c x = true := by
    simp only [pairAcc, qElem, List.isEmpty_nil, if_true, List.all_eq_true] at hacc
    have := hacc x hxm
    simpa [hnb, hne] using this
  exact kid_call cx.IH (Nat.lt_of_succ_le (Tree.depth_kid hxm)) (Tree.depth_kid hym) (wf_kid cx.wfq hxm) (acc_kid cx.accq hxm) hax hg hkeep cx.fuel

theorem structFields_nil : structFields.lookup "nil" = none := by decide

theorem field_nil (fn : String) : Tree.nil.field fn = none := by
  simp [Tree.nil, Tree.field, Tree.fieldIndex, structFields_nil]

/-- a context for a child that is itself generalised node by node -/
theorem Ctx.down {aw : Bool} {k k0 : String} {ks ps ks0 ps0 : List Tree} {f : Nat} (cx : Ctx aw k ks ps f)
    (hx : Tree.node k0 ks0 ∈ ks) (hy : Tree.node k0 ps0 ∈ ps) (hg : isGenKids aw k0 0 ps0 ks0 = true) : Ctx aw k0 ks0 ps0 f where
  hw := cx.hw
  wfq := wf_kid cx.wfq hx
  accq := acc_kid cx.accq hx
  gen := hg
  IH := fun x hxd => cx.IH x (Nat.lt_trans hxd (Nat.lt_of_succ_le (Tree.depth_kid hx)))
  fuel := by
    have := Tree.depth_kid (k := k) hy
    have := cx.fuel
    omega

/-- the elements of a named slice of (pointers to) structs `ek` -/
theorem elem_struct {aw : Bool} {k ek fn : String} {ks ps : List Tree} {f : Nat} (cx : Ctx aw k ks ps f)
    (hpl : plainList k = true) (hft : fieldTys k = none) (hek : elemKindOf (.named k) = some ek)
    (hph : placeholdersFor false ek = []) {x0 y0 v : Tree} (hxm : x0 ∈ ks) (hym : y0 ∈ ps) (hg : isGen aw false y0 x0 = true)
    (hfld : x0.field fn = some v) :
    ∃ ks0 ps0, x0 = .node ek ks0 ∧ y0 = .node ek ps0 ∧ isGenKids aw ek 0 ps0 ks0 = true := by
  -- the element conforms to the element type
  simp only [elemKindOf] at hek
  cases hn : namedTy k with
  | none => simp [hn] at hek
  | some oe =>
    cases oe with
    | none => simp [hn] at hek
    | some e =>
      obtain ⟨hnn, hnl⟩ := named_kind_ne hn
      have hc := (wfElems_mem e ks (wf_named cx.wfq hft hn hnn hnl) x0 hxm).1
      have hkind : x0.isNilNode = true ∨ x0.kind = ek := by
        simp only [hn] at hek
        cases e with
        | ptr k' =>
          simp only [Option.some.injEq] at hek; subst hek
          simpa [conforms] using hc
        | struct k' =>
          simp only [Option.some.injEq] at hek; subst hek
          right; simpa [conforms] using hc
        | leaf => simp at hek
        | iface _ => simp at hek
        | named _ => simp at hek
        | list _ => simp at hek
        | other => simp at hek
      rcases hkind with hnil | hkind
      · rw [isNilNode_eq hnil, field_nil] at hfld; cases hfld
      · cases x0 with
        | leaf b => simp [Tree.field] at hfld
        | node k0 ks0 =>
          simp only [Tree.kind] at hkind
          subst hkind
          rcases isGen_node hg with h | ⟨ps0, rfl, hk⟩
          · rw [hph] at h; cases h
          · exact ⟨ks0, ps0, rfl, rfl, hk⟩

/-- `c(q[i].F, p[i].F)` inside `for i := range p` -/
theorem elemField_cmp_good {aw : Bool} {k ek fn c : String} {ks ps : List Tree} {f : Nat} {esc : String → Tree → Bool} (cx : Ctx aw k ks ps f)
    (hpl : plainList k = true) (hft : fieldTys k = none) (hek : elemKindOf (.named k) = some ek)
    (hph : placeholdersFor false ek = []) (hsel : ek ≠ "Select") (hfn : fn ≠ "CompliantName()")
    (hok : partOk c (declTy ek fn) = true) (hne : (c == "!=") = false)
    (hacc : pairAcc k ks c (qElemField fn) = true) (i : Nat) (hi : i < ps.length) :
    (atomAt (evalFn f) esc (.node k ks) (.node k ps) (some i) (.cmp c (qElemField fn) (pElemField fn))).notFalse = true := by
  obtain ⟨_, hall⟩ := elems_align hpl cx.gen
  obtain ⟨x0, y0, hx0, hy0, hxm, hym, hg⟩ := hall i hi
  have hacc0 : ((x0.field fn).map fun x => builtinCmp c || c == "!=" || accepts c x).getD false = true := by
    simp only [pairAcc, qElemField, List.isEmpty_cons, Bool.false_eq_true, if_false, if_true, List.all_eq_true] at hacc
    exact hacc x0 hxm
  cases hv : x0.field fn with
  | none => simp [hv] at hacc0
  | some v =>
    obtain ⟨ks0, ps0, rfl, rfl, hk0⟩ := elem_struct cx hpl hft hek hph hxm hym hg hv
    have cx0 := cx.down hxm hym hk0
    cases hd : declTy ek fn with
    | none => simp [hd, partOk] at hok
    | some ty =>
      rw [hd] at hok
      have hws : ((Tree.fieldIndex ek fn).all fun j => !whereSlot true ek j) = true := by
        cases Tree.fieldIndex ek fn with
        | none => rfl
        | some j => simp [whereSlot_ne_select hsel]
      obtain ⟨x, y, hx, hy, hxm', hym', hc, hwx, hax, hg'⟩ := locate_field cx0 hd hws
      rw [hv] at hx; cases hx
      refine cmp_pass (x := v) (y := y) ?_ ?_ ?_
      · rw [selO_qElemField _ _ _ _ hfn]; simp [Tree.kids, hx0, hv]
      · rw [selO_pElemField _ _ _ _ hfn]; simp [Tree.kids, hy0, hy]
      · have hacc' : (builtinCmp c || c == "!=" || accepts c v) = true := by simpa [hv] using hacc0
        have d1 := Tree.depth_kid (k := ek) hxm'
        have d2 := Tree.depth_kid (k := k) hxm
        have d3 := Tree.depth_kid (k := ek) hym'
        have d4 := Tree.depth_kid (k := k) hym
        exact part_cmp cx.IH (by omega) (by omega) hc hwx hax hok hne hacc' hg' cx.fuel

/-- `q[i].F != p[i].F` never occurs in the table but is a shape of the typing: covered for completeness -/
theorem elemField_ne_good {aw : Bool} {k ek fn : String} {ks ps : List Tree} {f : Nat} {esc : String → Tree → Bool} (cx : Ctx aw k ks ps f)
    (hpl : plainList k = true) (hft : fieldTys k = none) (hek : elemKindOf (.named k) = some ek)
    (hph : placeholdersFor false ek = []) (hsel : ek ≠ "Select") (hfn : fn ≠ "CompliantName()")
    (hok : partOk "!=" (declTy ek fn) = true)
    (hacc : pairAcc k ks "!=" (qElemField fn) = true) (i : Nat) (hi : i < ps.length) :
    (atomAt (evalFn f) esc (.node k ks) (.node k ps) (some i) (.ne (qElemField fn) (pElemField fn))).notFalse = true := by
  obtain ⟨_, hall⟩ := elems_align hpl cx.gen
  obtain ⟨x0, y0, hx0, hy0, hxm, hym, hg⟩ := hall i hi
  have hacc0 : ((x0.field fn).map fun x => builtinCmp "!=" || "!=" == "!=" || accepts "!=" x).getD false = true := by
    simp only [pairAcc, qElemField, List.isEmpty_cons, Bool.false_eq_true, if_false, if_true, List.all_eq_true] at hacc
    exact hacc x0 hxm
  cases hv : x0.field fn with
  | none => simp [hv] at hacc0
  | some v =>
    obtain ⟨ks0, ps0, rfl, rfl, hk0⟩ := elem_struct cx hpl hft hek hph hxm hym hg hv
    have cx0 := cx.down hxm hym hk0
    cases hd : declTy ek fn with
    | none => simp [hd, partOk] at hok
    | some ty =>
      rw [hd] at hok
      have hws : ((Tree.fieldIndex ek fn).all fun j => !whereSlot true ek j) = true := by
        cases Tree.fieldIndex ek fn with
        | none => rfl
        | some j => simp [whereSlot_ne_select hsel]
      obtain ⟨x, y, hx, hy, _, _, hc, hwx, _, hg'⟩ := locate_field cx0 hd hws
      rw [hv] at hx; cases hx
      have := part_ne hc hwx hok hg'
      subst this
      refine ne_pass (x := y) ?_ ?_
      · rw [selO_qElemField _ _ _ _ hfn]; simp [Tree.kids, hx0, hv]
      · rw [selO_pElemField _ _ _ _ hfn]; simp [Tree.kids, hy0, hy]

end AcraModel.Censor.Match

namespace AcraModel.Censor.Match
open AcraModel AcraModel.Censor Generated.CensorTable

/-- a list-valued field of `q` and of `p` -/
theorem locate_list {aw : Bool} {k f0 l : String} {ks ps : List Tree} {f : Nat} {ty : Ty} (cx : Ctx aw k ks ps f)
    (hd : declTy k f0 = some ty) (hws : ((Tree.fieldIndex k f0).all fun j => !whereSlot true k j) = true)
    (hl : listKindOf ty = some l) (hpl : plainList l = true) :
    ∃ xl yl, (Tree.node k ks).field f0 = some xl ∧ (Tree.node k ps).field f0 = some yl ∧ xl ∈ ks ∧ yl ∈ ps
      ∧ wf xl = true ∧ acc xl = true
      ∧ ((xl.kids = [] ∧ yl.kids = []) ∨ ∃ ks1 ps1, xl = .node l ks1 ∧ yl = .node l ps1 ∧ isGenKids aw l 0 ps1 ks1 = true) := by
  obtain ⟨xl, yl, hx, hy, hxm, hym, hc, hwx, hax, hg⟩ := locate_field cx hd hws
  refine ⟨xl, yl, hx, hy, hxm, hym, hwx, hax, ?_⟩
  cases xl with
  | leaf b => left; rw [isGen_leaf hg]; exact ⟨rfl, rfl⟩
  | node k1 ks1 =>
    right
    have hk1 : k1 = l := by
      cases ty with
      | named n =>
        simp only [listKindOf] at hl
        have : n = l := by
          cases hn : namedTy n with
          | none => simp [hn] at hl
          | some oe => cases oe with
            | none => simp [hn] at hl
            | some e => simpa [hn] using hl
        subst this
        simpa [conforms, Tree.kind] using hc
      | list e =>
        simp only [listKindOf, Option.some.injEq] at hl
        subst hl
        simp only [conforms, Tree.kind, Bool.and_eq_true, beq_iff_eq] at hc
        exact hc.1
      | leaf => simp [listKindOf] at hl
      | struct _ => simp [listKindOf] at hl
      | ptr _ => simp [listKindOf] at hl
      | iface _ => simp [listKindOf] at hl
      | other => simp [listKindOf] at hl
    subst hk1
    rcases isGen_node hg with h | ⟨ps1, rfl, hk⟩
    · rw [(plainList_spec hpl).1] at h; cases h
    · exact ⟨ks1, ps1, rfl, rfl, hk⟩

/-- `c(q.F[i], p.F[i])` inside `for i := range p.F` -/
theorem fieldElem_cmp_good {aw : Bool} {k f0 l c : String} {ks ps : List Tree} {f : Nat} {esc : String → Tree → Bool} {ty : Ty}
    (cx : Ctx aw k ks ps f) (hfn : f0 ≠ "") (hd : declTy k f0 = some ty)
    (hws : ((Tree.fieldIndex k f0).all fun j => !whereSlot true k j) = true)
    (hl : listKindOf ty = some l) (hpl : plainList l = true)
    (hnb : builtinCmp c = false) (hne : (c == "!=") = false) (hkeep : calleeKeepsKind c = true)
    (hacc : pairAcc k ks c (qFieldElem f0) = true) {yl : Tree} (hy : (Tree.node k ps).field f0 = some yl) (i : Nat) (hi : i < yl.kids.length) :
    (atomAt (evalFn f) esc (.node k ks) (.node k ps) (some i) (.cmp c (qFieldElem f0) (pFieldElem f0))).notFalse = true := by
  obtain ⟨xl, yl', hx, hy', hxm, hym, hwx, hax, hcase⟩ := locate_list cx hd hws hl hpl
  rw [hy] at hy'; cases hy'
  rcases hcase with ⟨_, h0⟩ | ⟨ks1, ps1, rfl, rfl, hk⟩
  · rw [h0] at hi; cases hi
  · obtain ⟨_, hall⟩ := elems_align hpl hk
    obtain ⟨x, y, hx1, hy1, hxm1, hym1, hg⟩ := hall i hi
    refine cmp_pass (x := x) (y := y) ?_ ?_ ?_
    · rw [selO_qFieldElem _ _ _ _ hfn, hx]; simpa [Tree.kids] using hx1
    · rw [selO_pFieldElem _ _ _ _ hfn, hy]; simpa [Tree.kids] using hy1
    · rw [opCmp_fn hnb]
      have hacc' : accepts c x = true := by
        simp only [pairAcc, qFieldElem, List.isEmpty_cons, Bool.false_eq_true, if_false, hx, Option.map_some, Option.getD_some,
          Tree.kids, List.all_eq_true] at hacc
        have := hacc x hxm1
        simpa [hnb, hne] using this
      have d1 := Tree.depth_kid (k := l) hxm1
      have d2 := Tree.depth_kid (k := k) hxm
      have d3 := Tree.depth_kid (k := l) hym1
      have d4 := Tree.depth_kid (k := k) hym
      exact kid_call cx.IH (by omega) (by omega) (wf_kid hwx hxm1) (acc_kid hax hxm1) hacc' hg hkeep cx.fuel

theorem len_pass {call : String → Tree → Tree → Bool} {esc : String → Tree → Bool} {q p x y : Tree} {a b : Opnd}
    (ha : selO none q p a = some x) (hb : selO none q p b = some y) (h : x.kids.length = y.kids.length) :
    (atomAt call esc q p none (.len a b)).notFalse = true := by
  simp [atomAt, ha, hb, h, Res.notFalse]

/-- `len(q.F) != len(p.F)` -/
theorem field_len_good {aw : Bool} {k f0 l : String} {ks ps : List Tree} {f : Nat} {esc : String → Tree → Bool} {ty : Ty}
    (cx : Ctx aw k ks ps f) (hfn : f0 ≠ "CompliantName()") (hd : declTy k f0 = some ty)
    (hws : ((Tree.fieldIndex k f0).all fun j => !whereSlot true k j) = true)
    (hl : listKindOf ty = some l) (hpl : plainList l = true) :
    (atomAt (evalFn f) esc (.node k ks) (.node k ps) none (.len (qField f0) (pField f0))).notFalse = true := by
  obtain ⟨xl, yl, hx, hy, _, _, _, _, hcase⟩ := locate_list cx hd hws hl hpl
  refine len_pass (by rw [selO_qField _ _ _ hfn]; exact hx) (by rw [selO_pField _ _ _ hfn]; exact hy) ?_
  rcases hcase with ⟨h1, h2⟩ | ⟨ks1, ps1, rfl, rfl, hk⟩
  · rw [h1, h2]
  · exact ((elems_align hpl hk).1).symm

/-- `len(q) != len(p)` -/
theorem whole_len_good {aw : Bool} {k : String} {ks ps : List Tree} {f : Nat} {esc : String → Tree → Bool}
    (cx : Ctx aw k ks ps f) (hpl : plainList k = true) :
    (atomAt (evalFn f) esc (.node k ks) (.node k ps) none (.len qWhole pWhole)).notFalse = true :=
  len_pass (selO_qWhole ..) (selO_pWhole ..) ((elems_align hpl cx.gen).1).symm

end AcraModel.Censor.Match
