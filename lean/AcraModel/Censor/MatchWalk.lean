import AcraModel.Censor.MatchTyping
/-!
# The lock-step walk of (statement, pattern): executable definitions only

Definitions used by the driver (`C05.identsound`, `C05.tableok`) and by the theorems of `MatchSound.lean` /
`MatchIdent.lean`. No proofs and no `decide`d facts about the regenerated table live here, so the model driver builds
whatever the table of the current source looks like. See `MatchIdent.lean` for what is proved about them.
-/
namespace AcraModel.Censor.Match
open AcraModel AcraModel.Censor Generated.CensorTable

variable (call : String → Tree → Tree → Bool) (esc : String → Tree → Bool) (q p : Tree)

def Res.isPass : Res → Bool
  | .pass => true
  | _ => false

def Res.isRetTrue : Res → Bool
  | .ret true => true
  | _ => false

/-- every atom of the step (at every loop index) passes -/
def cstepPasses : CStep → Bool
  | .atom a => (atomAt call esc q p none a).isPass
  | .range o body =>
    match selO none q p o with
    | none => false
    | some l => (List.range l.kids.length).all fun i => body.all fun a => (atomAt call esc q p (some i) a).isPass

/-- some atom of the step (at some loop index) stops the function with `true` -/
def cstepRetTrue : CStep → Bool
  | .atom a => (atomAt call esc q p none a).isRetTrue
  | .range o body =>
    match selO none q p o with
    | none => false
    | some l => (List.range l.kids.length).any fun i => body.any fun a => (atomAt call esc q p (some i) a).isRetTrue

end AcraModel.Censor.Match

namespace AcraModel.Censor.Match
open AcraModel AcraModel.Censor Generated.CensorTable

/-- `(a, b)` = (`query.X`, `pattern.X`): the same selector on the two different trees -/
def pairQP (a b : Opnd) : Bool := a.onQ && !b.onQ && a.rootIdx == b.rootIdx && a.path == b.path

def atomPairs : AStep → Bool
  | .len a b => pairQP a b
  | .ne a b => pairQP a b
  | .cmp _ a b => pairQP a b
  | .cmpNeg _ a b => pairQP a b
  | .cmpEsc _ ea _ a b => pairQP a b && !ea.onQ
  | .shortcut o _ => !o.onQ
  | _ => true

def cstepPairs : CStep → Bool
  | .atom a => atomPairs a
  | .range o body => !o.onQ && body.all atomPairs

def switchRowPairs (c : String × String × String × String) : Bool :=
  c.2.1 == "special" || pairQP (parseOpnd c.2.2.1) (parseOpnd c.2.2.2)

/-- **every comparison of the regenerated table compares a part of the query with the same part of the pattern** -/
def tablePairsOk : Bool :=
  compiled.all (fun e => e.2.2.all cstepPairs) && typeSwitches.all (fun e => e.2.all switchRowPairs)

/-- the operand pairs of the table, for reading: (function, [(query operand, pattern operand)]) -/
def operandPairs : List (String × List (String × String)) :=
  comparators.map fun e => (e.1, (e.2.2.filter fun r => r.2.2.2 != "" && r.1 != "cast" && r.1 != "shortcut").map fun r => (r.2.2.1, r.2.2.2))

/-- `x`, `x[i]`, then the path components: the operand `o` read on the tree `x` (whichever side `o` names) -/
def selSide (i : Option Nat) (x : Tree) (o : Opnd) : Option Tree :=
  o.path.foldl (fun acc c => acc.bind fun t => stepComp i t c) (if o.rootIdx then i.bind (x.kids[·]?) else some x)

/-- the comparison (callee, query-side operand, pattern-side operand) that has to succeed for the body to go on -/
def atomSite : AStep → Option (String × Opnd × Opnd)
  | .cmp c a b => some (c, a, b)
  | .cmpEsc _ _ c a b => some (c, a, b)
  | .ne a b => some ("reflect.DeepEqual", a, b)
  | _ => none

/-- `(callee, x, y)`: the query-side operand of the site read on the statement **and on the pattern** -/
def sitePair (i : Option Nat) (q p : Tree) (s : String × Opnd × Opnd) : Option (String × Tree × Tree) :=
  match selSide i q s.2.1, selSide i p s.2.1 with
  | some x, some y => some (s.1, x, y)
  | _, _ => none

def atomSub (i : Option Nat) (q p : Tree) (a : AStep) : Option (String × Tree × Tree) :=
  (atomSite a).bind (sitePair i q p)

/-- the calls one step of a comparator body makes (lock-step) -/
def cstepSubs (q p : Tree) : CStep → List (String × Tree × Tree)
  | .atom a => (atomSub none q p a).toList
  | .range o body =>
    match selSide none p o with
    | none => []
    | some l => (List.range l.kids.length).flatMap fun i => body.filterMap (atomSub (some i) q p)

def switchSubs (fn : String) (q p : Tree) : List (String × Tree × Tree) :=
  match (typeSwitches.lookup fn).bind (·.find? (·.1 == p.kind)) with
  | some (_, callee, qa, _) =>
    if callee == "special" then []
    else
      match selSide none q (parseOpnd qa), selSide none p (parseOpnd qa) with
      | some x, some y => [(callee, x, y)]
      | _, _ => []
  | none => []

def zipCalls (c : String) (qs ps : List Tree) : List (String × Tree × Tree) := (qs.zip ps).map fun e => (c, e.1, e.2)

def loneStar (p : Tree) : Bool := p.kids.length == 1 && (p.kids.head?.map (·.kind)) == some "StarExpr"

def specialSubs (fn : String) (q p : Tree) : List (String × Tree × Tree) :=
  if fn == "areEqualSubquery" then [("areEqualSelectStatement", fld q "Select", fld p "Select")]
  else if fn == "areEqualValTuple" then zipCalls "areEqualExpr" q.kids p.kids
  else if fn == "areEqualSelectExprs" then zipCalls "areEqualSelectExpr" q.kids p.kids
  else if fn == "areEqualSelectExpr" then
    if p.kind == "StarExpr" then [("areEqualTableName", fld q "TableName", fld p "TableName")]
    else if p.kind == "AliasedExpr" then (if q.kind == "AliasedExpr" then [("areEqualAliasedExpr", q, p)] else [])
    else switchSubs fn q p
  else if fn == "areEqualInsertRows" then
    if p.kind == "Values" then zipCalls "areEqualValTuple" q.kids p.kids else switchSubs fn q p
  else if fn == "areEqualExpr" then
    if p.kind == "SQLVal" then (if q.kind == "SQLVal" then [("areEqualSQLVal", q, p)] else [])
    else if p.kind == "ColName" then (if q.kind == "ColName" then [("areEqualColName", q, p)] else [])
    else switchSubs fn q p
  else []

/-- the call `fn(q, p)` is answered `true` without (all of) its comparisons: a placeholder escape -/
def earlyTrue (call : String → Tree → Tree → Bool) (fn : String) (q p : Tree) : Bool :=
  if fn == "areEqualSubquery" then fld p "Select" == subqueryPattern
  else if fn == "areEqualSelectExprs" then loneStar p
  else if specialFns.contains fn then false
  else
    match compiled.lookup fn with
    | some (_, steps) => steps.any (cstepRetTrue call (escEval call) q p)
    | none => false

/-- the calls `fn(q, p)` makes one level down (lock-step) -/
def subs (fn : String) (q p : Tree) : List (String × Tree × Tree) :=
  if specialFns.contains fn then specialSubs fn q p
  else
    match compiled.lookup fn with
    | some (_, steps) => steps.flatMap (cstepSubs q p)
    | none => switchSubs fn q p

/-- every call `(fuel, callee, part of the statement, the same part of the pattern)` the matcher makes below `fn(q, p)`,
not descending below placeholder escapes and built-in comparisons -/
def reach : Nat → String → Tree → Tree → List (Nat × String × Tree × Tree)
  | 0, fn, q, p => [(0, fn, q, p)]
  | f + 1, fn, q, p =>
    (f + 1, fn, q, p) ::
      (if builtinCmp fn || earlyTrue (evalFn f) fn q p then []
       else (subs fn q p).flatMap fun e => reach f e.1 e.2.1 e.2.2)

/-- the walk for a whole pattern / statement pair (`checkSinglePatternMatch`) -/
def compared (t p : Tree) : List (Nat × String × Tree × Tree) :=
  match patternDispatch.lookup p.kind with
  | some h => reach (fuelFor p) h t p
  | none => []

/-- what "equal table identifiers" means to the matcher: equal after `CompliantName()` up to ASCII letter case -/
def identEq (q p : Tree) : Bool :=
  lowerBytes (compliantName (fld q "v").leafBytes) == lowerBytes (compliantName (fld p "v").leafBytes)

/-- the table-level facts the typing judgement rests on hold for the current source (what `fact_comparators_ok`,
`fact_table_typed`, `fact_switches_typed`, `fact_comparators_compare_pattern_with_query` state): when they do not, an
"ill-typed tree" says nothing about the tree -/
def tableFactsOk : Bool :=
  comparators.all comparatorOk && tablePairsOk && switchFns.all switchTyped
    && (compiled.filter fun e => !okRegular e.1).all fun e => e.2.2 == [.atom (.cmp "reflect.DeepEqual" qWhole pWhole)]

/-- the conclusion of `match_sound_on_identifiers` / `match_sound_on_literals_reached`, evaluated on the lock-step walk:
the first leaf comparison that does not hold, or the numbers of table identifiers / column identifiers / literals reached -/
def leafHolds (e : Nat × String × Tree × Tree) : Bool :=
  if e.2.1 == "areEqualTableIdent" then identEq e.2.2.1 e.2.2.2
  else if e.2.1 == "areEqualColIdent" then
    isColumnPattern e.2.2.2 || lowerBytes (fld e.2.2.1 "val").leafBytes == lowerBytes (fld e.2.2.2 "val").leafBytes
  else if e.2.1 == "areEqualSQLVal" then
    isValuePattern e.2.2.2 || isListOfValuesPattern e.2.2.2
      || ((fld e.2.2.1 "Type").leafBytes == (fld e.2.2.2 "Type").leafBytes && (fld e.2.2.1 "Val").leafBytes == (fld e.2.2.2 "Val").leafBytes)
  else true

end AcraModel.Censor.Match
