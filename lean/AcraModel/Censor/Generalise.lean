import AcraModel.Censor.Match
import AcraModel.Censor.Typing
/-!
# Generalising a statement into a pattern

`generalise t σ` replaces positions of the parse tree `t` by the parse trees of the placeholders of
`acra-censor/common/common.go`. A position is the pre-order index of a node (the index of its token in the
reflection dump); `σ` is a set of `(position, action)` pairs, an action that does not apply at its position is
ignored:

* `value`   – a literal (`SQLVal`, `BoolVal`, `NullVal`; also a function call `FuncExpr`, which the matcher accepts
              in the same places) becomes `%%VALUE%%`;
* `lov`     – the tail of a tuple (`ValTuple`: IN list, VALUES row) that starts at this element, provided the
              element is a literal in the above sense, becomes `%%LIST_OF_VALUES%%`;
* `column`  – an identifier (`ColIdent`: column name, alias, function name, INSERT column, USING column) becomes `%%COLUMN%%`;
* `subquery`– a `Subquery` becomes `(%%SUBQUERY%%)`;
* `whereP`  – the WHERE clause of a SELECT (also an absent one) becomes `%%WHERE%%`;
* `star`    – a select list (`SelectExprs`) becomes `*`;
* `stmt`    – a whole `Select` / `Union` / `Insert` / `Update` / `Delete` becomes `%%SELECT%%` / `%%UNION%%` / …

`isGen p t` is the relation "p is *some* generalisation of t" (any combination of the above, not necessarily
given by a σ); `isGen_generalise` shows that `generalise` stays inside it.
-/
namespace AcraModel.Censor
open AcraModel Generated.CensorTable
open AcraModel.Censor.Match

inductive Act where
  | value | lov | column | subquery | whereP | star | stmt
deriving DecidableEq, Repr, Inhabited

abbrev Sigma := List (Nat × Act)

def Sigma.has (σ : Sigma) (i : Nat) (a : Act) : Bool := σ.contains (i, a)

namespace Tree
mutual
/-- number of nodes = number of tokens of the reflection dump -/
def size : Tree → Nat
  | .leaf _ => 1
  | .node _ ks => sizeList ks + 1
def sizeList : List Tree → Nat
  | [] => 0
  | t :: ts => size t + sizeList ts
end
end Tree

/-- what `%%VALUE%%` stands for in the matcher: `areEqualExpr`, case `*sqlparser.SQLVal` -/
def valueLike (k : String) : Bool := k == "SQLVal" || k == "BoolVal" || k == "NullVal" || k == "FuncExpr"

/-- the select list `*` -/
def starList : Tree := .node "SelectExprs" [.node "StarExpr" [tName ""]]

def subqueryNode : Tree := .node "Subquery" [subqueryPattern]

/-- `%%SELECT%%`, `%%UNION%%`, `%%INSERT%%`, `%%UPDATE%%`, `%%DELETE%%` -/
def stmtPattern (k : String) : Option Tree :=
  if k == "Select" then some selectPattern
  else if k == "Union" then some unionPattern
  else if k == "Insert" then some insertPattern
  else if k == "Update" then some updatePattern
  else if k == "Delete" then some deletePattern
  else none

/-- the only slot where `%%WHERE%%` is understood: field `Where` of a `Select` (`handleSelectStatement`); `aw = false`
switches the placeholder off altogether (used once, to bootstrap the proof: `isWherePattern` itself runs the matcher
on the `%%WHERE%%` constant) -/
def whereSlot (aw : Bool) (k : String) (j : Nat) : Bool := aw && k == "Select" && Tree.fieldIndex "Select" "Where" == some j

/-- the placeholders a node of kind `k` may be replaced by (`wh`: the node sits in the WHERE slot of a SELECT) -/
def placeholdersFor (wh : Bool) (k : String) : List Tree :=
  (if valueLike k then [valuePattern] else [])
  ++ (if k == "ColIdent" then [columnPattern] else [])
  ++ (if k == "Subquery" then [subqueryNode] else [])
  ++ (if k == "SelectExprs" then [starList] else [])
  ++ (stmtPattern k).toList
  ++ (if wh then [wherePattern] else [])

/-- the placeholder σ asks for at node `i` of kind `k`, if applicable -/
def pick (σ : Sigma) (wh : Bool) (i : Nat) (k : String) : Option Tree :=
  if σ.has i .value && valueLike k then some valuePattern
  else if σ.has i .column && k == "ColIdent" then some columnPattern
  else if σ.has i .subquery && k == "Subquery" then some subqueryNode
  else if σ.has i .star && k == "SelectExprs" then some starList
  else if σ.has i .stmt && (stmtPattern k).isSome then stmtPattern k
  else if σ.has i .whereP && wh then some wherePattern
  else none

mutual
def gen (σ : Sigma) (wh : Bool) (i : Nat) : Tree → Tree
  | .leaf b => .leaf b
  | .node k ks =>
    match pick σ wh i k with
    | some p => p
    | none => .node k (genKids σ k 0 (i + 1) ks)
def genKids (σ : Sigma) (k : String) (j : Nat) (i : Nat) : List Tree → List Tree
  | [] => []
  | x :: xs =>
    if k == "ValTuple" && σ.has i .lov && valueLike x.kind then [listOfValuesPattern]
    else gen σ (whereSlot true k j) i x :: genKids σ k (j + 1) (i + x.size) xs
end

/-- **`generalise t σ`** -/
def generalise (t : Tree) (σ : Sigma) : Tree := gen σ false 0 t

/-- **`matchT p t`**: the matcher (`checkSinglePatternMatch`) applied to pattern `p` and statement `t` -/
def matchT (p t : Tree) : Bool := patMatch t p

mutual
/-- `isGen aw wh p t`: the pattern `p` is a generalisation of the statement (sub)tree `t` (`wh`: `t` sits in the WHERE
slot of a SELECT; `aw`: `%%WHERE%%` allowed at all) -/
def isGen (aw wh : Bool) : Tree → Tree → Bool
  | p, .leaf b => p == .leaf b
  | p, .node k ks =>
    (placeholdersFor wh k).contains p || (!p.isLeaf && p.kind == k && isGenKids aw k 0 p.kids ks)
def isGenKids (aw : Bool) (k : String) (j : Nat) : List Tree → List Tree → Bool
  | ps, [] => ps.isEmpty
  | ps, x :: xs =>
    (k == "ValTuple" && valueLike x.kind && ps == [listOfValuesPattern]) ||
    (!ps.isEmpty && isGen aw (whereSlot aw k j) (ps.headD Tree.nil) x && isGenKids aw k (j + 1) ps.tail xs)
end

mutual
/-- the applicable `(position, action)` pairs of a tree, in pre-order (the harness draws σ from these) -/
def positions (wh : Bool) (i : Nat) : Tree → List (Nat × Act)
  | .leaf _ => []
  | .node k ks =>
    (if valueLike k then [(i, Act.value)] else [])
    ++ (if k == "ColIdent" then [(i, Act.column)] else [])
    ++ (if k == "Subquery" then [(i, Act.subquery)] else [])
    ++ (if k == "SelectExprs" then [(i, Act.star)] else [])
    ++ (if (stmtPattern k).isSome then [(i, Act.stmt)] else [])
    ++ (if wh then [(i, Act.whereP)] else [])
    ++ positionsKids k 0 (i + 1) ks
def positionsKids (k : String) (j : Nat) (i : Nat) : List Tree → List (Nat × Act)
  | [] => []
  | x :: xs =>
    (if k == "ValTuple" && valueLike x.kind then [(i, Act.lov)] else [])
    ++ positions (whereSlot true k j) i x ++ positionsKids k (j + 1) (i + x.size) xs
end

end AcraModel.Censor
