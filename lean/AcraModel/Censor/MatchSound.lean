import AcraModel.Censor.MatchGeneralise
import AcraModel.Censor.MatchWalk
/-!
# The converse direction: what a successful match of a placeholder-free pattern means

* `runC_true_inv` – a comparator body that returns `true` either ran to its end with **every** comparison passing (and
  ends in `return true`), or some step stopped it with `true`: the only steps that can do so are the nil guard
  (`query == nil && pattern == nil`), a whole-statement shortcut (`%%SELECT%%` …) and the `%%WHERE%%` escape.
* `sqlVal_sound`, `colIdent_sound` – the two leaf comparators: `true` without a placeholder means equal type and bytes /
  equal name up to letter case.
-/
namespace AcraModel.Censor.Match
open AcraModel AcraModel.Censor Generated.CensorTable

variable (call : String → Tree → Tree → Bool) (esc : String → Tree → Bool) (q p : Tree)

theorem eachAt_inv (i : Nat) : ∀ (body : List AStep) (r : Res), eachAt call esc q p i body = r →
    (r = .pass ∧ body.all (fun a => (atomAt call esc q p (some i) a).isPass) = true)
    ∨ (∃ b, r = .ret b ∧ (b = true → body.any (fun a => (atomAt call esc q p (some i) a).isRetTrue) = true))
  | [], r, h => by simp only [eachAt] at h; subst h; exact Or.inl ⟨rfl, rfl⟩
  | a :: as, r, h => by
    simp only [eachAt] at h
    cases ha : atomAt call esc q p (some i) a with
    | pass =>
      rw [ha] at h
      rcases eachAt_inv i as r h with ⟨h1, h2⟩ | ⟨b, h1, h2⟩
      · exact Or.inl ⟨h1, by rw [List.all_cons, h2, ha]; rfl⟩
      · exact Or.inr ⟨b, h1, fun hb => by rw [List.any_cons, h2 hb]; simp⟩
    | ret b =>
      rw [ha] at h
      subst h
      refine Or.inr ⟨b, rfl, fun hb => ?_⟩
      subst hb
      rw [List.any_cons, ha]; rfl

theorem loopOver_inv (body : List AStep) : ∀ (is : List Nat) (r : Res), loopOver call esc q p body is = r →
    (r = .pass ∧ is.all (fun i => body.all fun a => (atomAt call esc q p (some i) a).isPass) = true)
    ∨ (∃ b, r = .ret b ∧ (b = true → is.any (fun i => body.any fun a => (atomAt call esc q p (some i) a).isRetTrue) = true))
  | [], r, h => by simp only [loopOver] at h; subst h; exact Or.inl ⟨rfl, rfl⟩
  | i :: is, r, h => by
    simp only [loopOver] at h
    rcases eachAt_inv call esc q p i body _ rfl with ⟨h1, h2⟩ | ⟨b, h1, h2⟩
    · rw [h1] at h
      rcases loopOver_inv body is r h with ⟨h3, h4⟩ | ⟨b, h3, h4⟩
      · exact Or.inl ⟨h3, by rw [List.all_cons, h2, h4]; rfl⟩
      · exact Or.inr ⟨b, h3, fun hb => by rw [List.any_cons, h4 hb]; simp⟩
    · rw [h1] at h
      subst h
      exact Or.inr ⟨b, rfl, fun hb => by rw [List.any_cons, h2 hb]; rfl⟩

/-- **`true` means: all comparisons passed and the function ends in `return true`, or a guard / shortcut / escape fired.** -/
theorem runC_true_inv (fin : Bool) : ∀ (steps : List CStep), runC call esc q p fin steps = true →
    steps.any (cstepRetTrue call esc q p) = true ∨ (fin = true ∧ steps.all (cstepPasses call esc q p) = true)
  | [], h => by simp only [runC] at h; exact Or.inr ⟨h, rfl⟩
  | .atom a :: rest, h => by
    simp only [runC] at h
    cases ha : atomAt call esc q p none a with
    | pass =>
      rw [ha] at h
      rcases runC_true_inv fin rest h with h1 | ⟨h1, h2⟩
      · exact Or.inl (by rw [List.any_cons, h1]; simp)
      · exact Or.inr ⟨h1, by rw [List.all_cons, h2]; simp [cstepPasses, ha, Res.isPass]⟩
    | ret b =>
      rw [ha] at h
      simp only at h
      subst h
      exact Or.inl (by rw [List.any_cons]; simp [cstepRetTrue, ha, Res.isRetTrue])
  | .range o body :: rest, h => by
    simp only [runC] at h
    cases hl : selO none q p o with
    | none => simp [hl] at h
    | some l =>
      simp only [hl] at h
      rcases loopOver_inv call esc q p body (List.range l.kids.length) _ rfl with ⟨h1, h2⟩ | ⟨b, h1, h2⟩
      · rw [h1] at h
        rcases runC_true_inv fin rest h with h3 | ⟨h3, h4⟩
        · exact Or.inl (by rw [List.any_cons, h3]; simp)
        · exact Or.inr ⟨h3, by rw [List.all_cons, h4]; simp [cstepPasses, hl, h2]⟩
      · rw [h1] at h
        simp only at h
        exact Or.inl (by rw [List.any_cons]; simp [cstepRetTrue, hl, h2 h])

/-- `areEqualSQLVal` without a placeholder: same type, same bytes -/
theorem sqlVal_sound (fuel : Nat) (q p : Tree) (h : evalFn (fuel + 1) "areEqualSQLVal" q p = true)
    (hv : isValuePattern p = false) (hl : isListOfValuesPattern p = false) :
    (fld q "Type").leafBytes = (fld p "Type").leafBytes ∧ (fld q "Val").leafBytes = (fld p "Val").leafBytes := by
  rw [evalFn_SQLVal, hv, hl] at h
  simpa using h

/-- `areEqualColIdent` without `%%COLUMN%%`: the same name up to letter case -/
theorem colIdent_sound (fuel : Nat) (q p : Tree) (h : evalFn (fuel + 1) "areEqualColIdent" q p = true)
    (hc : isColumnPattern p = false) :
    lowerBytes (fld q "val").leafBytes = lowerBytes (fld p "val").leafBytes := by
  rw [evalFn_ColIdent, hc] at h
  simpa using h

theorem retTrue_ite1 (c : Prop) [Decidable c] : (if c then Res.pass else Res.ret false).isRetTrue = false := by
  split <;> rfl
theorem retTrue_ite2 (c : Prop) [Decidable c] : (if c then Res.ret false else Res.pass).isRetTrue = false := by
  split <;> rfl

/-- the only steps that can stop a comparator with `true` -/
theorem atom_retTrue_kinds (i : Option Nat) (a : AStep) (h : (atomAt call esc q p i a).isRetTrue = true) :
    (a = .nilboth ∧ q.isNil = true ∧ p.isNil = true)
    ∨ (∃ o ph x c, a = .shortcut o ph ∧ selO i q p o = some x ∧ placeholderStmt ph = some c ∧ (x == c) = true)
    ∨ (∃ e ea c a' b x, a = .cmpEsc e ea c a' b ∧ selO i q p ea = some x ∧ esc e x = true) := by
  cases a with
  | nilboth =>
    simp only [atomAt] at h
    split at h
    · next hc => simp only [Bool.and_eq_true] at hc; exact Or.inl ⟨rfl, hc.1, hc.2⟩
    · simp [Res.isRetTrue] at h
  | shortcut o ph =>
    simp only [atomAt] at h
    cases hx : selO i q p o with
    | none => simp [hx, Res.isRetTrue] at h
    | some x =>
      cases hc : placeholderStmt ph with
      | none => simp [hx, hc, Res.isRetTrue] at h
      | some c =>
        simp only [hx, hc] at h
        split at h
        · next hxc => exact Or.inr (Or.inl ⟨o, ph, x, c, rfl, hx, hc, hxc⟩)
        · simp [Res.isRetTrue] at h
  | cmpEsc e ea c a' b =>
    simp only [atomAt] at h
    cases ha : selO i q p a' with
    | none => simp [ha, Res.isRetTrue] at h
    | some xa =>
      cases hb : selO i q p b with
      | none => simp [ha, hb, Res.isRetTrue] at h
      | some xb =>
        cases he : selO i q p ea with
        | none => simp [ha, hb, he, Res.isRetTrue] at h
        | some x =>
          simp only [ha, hb, he] at h
          split at h
          · cases hes : esc e x with
            | true => exact Or.inr (Or.inr ⟨e, ea, c, a', b, x, rfl, he, hes⟩)
            | false => simp [hes, Res.isRetTrue] at h
          · simp [Res.isRetTrue] at h
  | cast onQ k => simp only [atomAt] at h; rw [retTrue_ite1] at h; cases h
  | nileither => simp only [atomAt] at h; rw [retTrue_ite2] at h; cases h
  | len a' b =>
    simp only [atomAt] at h
    cases ha : selO i q p a' <;> cases hb : selO i q p b <;> simp only [ha, hb] at h <;>
      first | (rw [retTrue_ite1] at h; cases h) | (rw [retTrue_ite2] at h; cases h) | (exact absurd h (by decide))
  | ne a' b =>
    simp only [atomAt] at h
    cases ha : selO i q p a' <;> cases hb : selO i q p b <;> simp only [ha, hb] at h <;>
      first | (rw [retTrue_ite1] at h; cases h) | (rw [retTrue_ite2] at h; cases h) | (exact absurd h (by decide))
  | cmp c a' b =>
    simp only [atomAt] at h
    cases ha : selO i q p a' <;> cases hb : selO i q p b <;> simp only [ha, hb] at h <;>
      first | (rw [retTrue_ite1] at h; cases h) | (rw [retTrue_ite2] at h; cases h) | (exact absurd h (by decide))
  | cmpNeg c a' b =>
    simp only [atomAt] at h
    cases ha : selO i q p a' <;> cases hb : selO i q p b <;> simp only [ha, hb] at h <;>
      first | (rw [retTrue_ite1] at h; cases h) | (rw [retTrue_ite2] at h; cases h) | (exact absurd h (by decide))
  | bad => simp [atomAt, Res.isRetTrue] at h

end AcraModel.Censor.Match
