import AcraModel.Censor.Tree
/-!
# The pattern matcher (`acra-censor/common/matching_logic.go`)

`checkSinglePatternMatch(query, pattern)` over generic trees. The ~50 field-by-field comparators
(`handle*Statement`, `areEqual*`) are **not** re-typed here: the model *interprets* the regenerated
table `Generated.CensorTable.comparators` (one row per Go function: its comparison steps in source
order with their polarity, and the value of its final `return`), `typeSwitches` (the plain cases of
the functions that switch on the pattern's type) and `patternDispatch`. Only the functions with
placeholder logic are written by hand, following the Go text:
`areEqualExpr` (cases SQLVal and ColName), `areEqualSelectExpr`, `areEqualSelectExprs`,
`areEqualInsertRows` (case Values), `areEqualSQLVal`, `areEqualColIdent`, `areEqualSubquery`,
`areEqualValTuple`, `isWherePattern`, and the `%%…%%` constants of `common.go`.

`fuel` bounds the recursion depth; every recursive call goes one level down into the pattern, so any
fuel above `2 * depth pattern + 4` yields the same answer (the driver uses that).
-/
namespace AcraModel.Censor.Match
open AcraModel AcraModel.Censor Generated.CensorTable

/-! ## placeholder constants (`common.go`) -/

def replacer (name : String) : String := (replacers.lookup name).getD ""

/-- `ValueReplacer[1:34]`, `ListOfValuesReplacer[1:43]`: the text between the quotes. -/
def unquote (s : String) : Bytes := ((strBytes s).drop 1).dropLast

def valueBytes : Bytes := unquote (replacer "ValueReplacer")
def listOfValuesBytes : Bytes := unquote (replacer "ListOfValuesReplacer")
def columnBytes : Bytes := strBytes (replacer "ColumnReplacer")

def lf (s : String) : Tree := .leaf (strBytes s)
def tIdent (s : String) : Tree := .node "TableIdent" [lf "0", lf s, lf ""]
def cIdent (s : String) : Tree := .node "ColIdent" [lf s, lf "", lf "0", lf "false"]
def tName (s : String) : Tree := .node "TableName" [tIdent s, tIdent ""]
def cName (s : String) : Tree := .node "ColName" [Tree.nil, cIdent s, tName ""]
def sqlVal (ty : String) (v : Bytes) : Tree := .node "SQLVal" [lf ty, .leaf v, lf "", Tree.nil]
def aliased (e : Tree) : Tree := .node "AliasedExpr" [e, cIdent ""]
def aliasedTable (n : String) : Tree := .node "AliasedTableExpr" [tName n, .node "Partitions" [], tIdent "", Tree.nil]
def cmpEq (l r : Tree) : Tree := .node "ComparisonExpr" [lf "=", l, r, Tree.nil]
def whereOf (e : Tree) : Tree := .node "Where" [lf "where", e]
def selectOf (exprs from_ : List Tree) (wh : Tree) : Tree :=
  .node "Select" [lf "", .node "Comments" [], lf "", lf "", .node "SelectExprs" exprs, .node "TableExprs" from_, wh,
    .node "GroupBy" [], Tree.nil, .node "OrderBy" [], Tree.nil, lf ""]
def selectDual (e : Tree) : Tree := selectOf [aliased e] [aliasedTable "dual"] Tree.nil

/-- the parse trees of the replacer texts (compared with the real ones by the op `C05.placeholders`) -/
def valuePattern : Tree := sqlVal "0" valueBytes
def listOfValuesPattern : Tree := sqlVal "0" listOfValuesBytes
def columnPattern : Tree := cIdent (replacer "ColumnReplacer")
def selectPattern : Tree := selectDual (sqlVal "1" (strBytes "253768160274445518137315681"))
def subqueryPattern : Tree := selectDual (sqlVal "0" (strBytes "subquery_820753242875385807714016705"))
def unionPattern : Tree :=
  .node "Union" [lf "union", selectDual (sqlVal "1" (strBytes "254775710223443243272234290")),
    selectDual (sqlVal "1" (strBytes "486264166657867240626457666")), .node "OrderBy" [], Tree.nil, lf ""]
def wherePattern : Tree := whereOf (cmpEq (cName "value") (cName "where_651453831047102383248696721"))
def insertPattern : Tree :=
  .node "Insert" [lf "insert", .node "Comments" [], lf "", tName "table_150624360841713829746677497", lf "false",
    .node "Partitions" [], .node "Columns" [cIdent "column_454716724"],
    .node "Values" [.node "ValTuple" [cName "value_151516596"]], .node "OnDup" [], .node "Returning" []]
def updatePattern : Tree :=
  .node "Update" [.node "Comments" [], .node "TableExprs" [aliasedTable "table_795749362101944825892661393"],
    .node "UpdateExprs" [.node "UpdateExpr" [cName "column_148943040", sqlVal "1" (strBytes "577742781")]],
    .node "TableExprs" [], whereOf (cmpEq (cName "row_788570922") (sqlVal "1" (strBytes "840343494"))),
    .node "OrderBy" [], Tree.nil, .node "Returning" []]
def deletePattern : Tree :=
  .node "Delete" [.node "Comments" [], .node "TableExprs" [], .node "TableExprs" [aliasedTable "table_359557854899217835429634591"],
    .node "Partitions" [], Tree.nil, .node "OrderBy" [], Tree.nil, .node "Returning" []]

def placeholderStmt : String → Option Tree
  | "SelectPatternStatement" => some selectPattern
  | "UnionPatternStatement" => some unionPattern
  | "InsertPatternStatement" => some insertPattern
  | "UpdatePatternStatement" => some updatePattern
  | "DeletePatternStatement" => some deletePattern
  | _ => none

def fld (t : Tree) (n : String) : Tree := (t.field n).getD Tree.nil

/-- `isValuePattern`, `isListOfValuesPattern` (on a SQLVal), `isColumnPattern` (on a ColIdent) -/
def isValuePattern (p : Tree) : Bool := (fld p "Type").leafBytes == strBytes "0" && (fld p "Val").leafBytes == valueBytes
def isListOfValuesPattern (p : Tree) : Bool := (fld p "Type").leafBytes == strBytes "0" && (fld p "Val").leafBytes == listOfValuesBytes
def isColumnPattern (p : Tree) : Bool := lowerBytes (fld p "val").leafBytes == lowerBytes columnBytes

/-! ## operands of a step -/

/-- `TableIdent.CompliantName()` -/
def compliantName (b : Bytes) : Bytes :=
  let isLetter (c : UInt8) : Bool := (97 ≤ c.toNat && c.toNat ≤ 122) || (65 ≤ c.toNat && c.toNat ≤ 90) || c.toNat == 95 || c.toNat == 64
  let isDigit (c : UInt8) : Bool := 48 ≤ c.toNat && c.toNat ≤ 57
  (b.zipIdx).map fun (c, i) => if !isLetter c && (i == 0 || !isDigit c) then 95 else c

/-! ### operands, compiled

The regenerated table spells operands as Go text (`q.Where`, `p[i].Expr`, `q.Exprs[i]`, `q.CompliantName()`).
They are parsed once, over `List Char` (structural recursion only, so that the kernel evaluates the
compilation of the whole table – `by decide` – and the proofs never reason about `String` primitives). -/

/-- a parsed operand: root (`q`/`p`), `root[i]`?, then components `(field, followed by [i]?)` -/
structure Opnd where
  onQ : Bool
  rootIdx : Bool
  path : List (String × Bool)
deriving Repr, DecidableEq, Inhabited

def splitOnChar (c : Char) : List Char → List Char → List (List Char)
  | acc, [] => [acc.reverse]
  | acc, x :: xs => if x == c then acc.reverse :: splitOnChar c [] xs else splitOnChar c (x :: acc) xs

/-- `Exprs[i]` ↦ (`Exprs`, true) -/
def stripIdx (cs : List Char) : List Char × Bool :=
  match cs.reverse with
  | ']' :: 'i' :: '[' :: rest => (rest.reverse, true)
  | _ => (cs, false)

def parseOpnd (s : String) : Opnd :=
  match splitOnChar '.' [] s.toList with
  | [] => ⟨false, false, []⟩
  | root :: rest =>
    ⟨root.head? == some 'q', (stripIdx root).2, rest.map fun c => (String.ofList (stripIdx c).1, (stripIdx c).2)⟩

/-- one component of an operand path -/
def stepComp (i : Option Nat) (t : Tree) (c : String × Bool) : Option Tree :=
  if c.2 then do
    let l ← if c.1 == "" then some t else t.field c.1
    let n ← i
    l.kids[n]?
  else if c.1 == "CompliantName()" then (t.field "v").map fun v => .leaf (compliantName v.leafBytes)
  else t.field c.1

/-- evaluates a parsed operand such as `q.Where`, `p[i].Expr`, `q.Exprs[i]`, `q.CompliantName()` -/
def selO (i : Option Nat) (q p : Tree) (o : Opnd) : Option Tree :=
  let base := if o.onQ then q else p
  let base? := if o.rootIdx then i.bind (base.kids[·]?) else some base
  o.path.foldl (fun acc c => acc.bind fun t => stepComp i t c) base?

/-- evaluates an operand given as text -/
def sel (i : Option Nat) (q p : Tree) (operand : String) : Option Tree := selO i q p (parseOpnd operand)

def foldEq (a b : Tree) : Bool :=
  match a, b with
  | .leaf x, .leaf y => lowerBytes x == lowerBytes y
  | _, _ => false

/-! ## the interpreter -/

inductive Res where
  | pass
  | ret (b : Bool)

abbrev Row := String × String × String × String

/-- one comparison `callee(a, b)` -/
def opCmp (call : String → Tree → Tree → Bool) (callee : String) (a b : Tree) : Bool :=
  if callee == "strings.EqualFold" then foldEq a b
  else if callee == "reflect.DeepEqual" || callee == "bytes.Equal" then a == b
  else call callee a b

/-- a compiled step (everything except loops) -/
inductive AStep where
  | cast (onQ : Bool) (ty : String)
  | shortcut (o : Opnd) (ph : String)
  | nilboth
  | nileither
  | len (a b : Opnd)
  | ne (a b : Opnd)
  | cmp (callee : String) (a b : Opnd)
  | cmpNeg (callee : String) (a b : Opnd)
  | cmpEsc (esc : String) (ea : Opnd) (callee : String) (a b : Opnd)
  | bad
deriving Repr, DecidableEq, Inhabited

/-- a compiled step: atomic, or a `for index := range over { body }` -/
inductive CStep where
  | atom (a : AStep)
  | range (over : Opnd) (body : List AStep)
deriving Repr, DecidableEq, Inhabited

/-- kind text (without the `each:` prefix) + row ↦ atomic step -/
def compileAtom (kind : List Char) (r : Row) : AStep :=
  let (_, callee, qa, pa) := r
  if kind == "cast".toList then .cast (qa == "q") callee
  else if kind == "shortcut".toList then .shortcut (parseOpnd qa) pa
  else if kind == "nilboth".toList then .nilboth
  else if kind == "nileither".toList then .nileither
  else if kind == "len".toList then .len (parseOpnd qa) (parseOpnd pa)
  else if kind == "ne".toList then .ne (parseOpnd qa) (parseOpnd pa)
  else if kind == "cmp".toList then .cmp callee (parseOpnd qa) (parseOpnd pa)
  else if kind == "cmpNeg".toList then .cmpNeg callee (parseOpnd qa) (parseOpnd pa)
  else
    -- cmpEsc:<escape>:<operand>
    match splitOnChar ':' [] kind with
    | [k, e, ea] => if k == "cmpEsc".toList then .cmpEsc (String.ofList e) (parseOpnd (String.ofList ea)) callee (parseOpnd qa) (parseOpnd pa) else .bad
    | _ => .bad

def isEach (r : Row) : Bool := r.1.toList.take 5 == "each:".toList

/-- rows → compiled steps; the `each:` rows that follow a `range` row form its body (processed from the right:
`pending` collects the body of the loop whose `range` row comes next) -/
def compileRows : List Row → List CStep × List AStep
  | [] => ([], [])
  | r :: rs =>
    let (acc, pending) := compileRows rs
    if isEach r then (acc, compileAtom (r.1.toList.drop 5) r :: pending)
    else if r.1 == "range" then (.range (parseOpnd r.2.2.2) pending :: acc, [])
    else
      -- `each:` rows without a `range` in front of them do not occur; if they did the body would stop with false
      (.atom (compileAtom r.1.toList r) :: (if pending.isEmpty then acc else .atom .bad :: acc), [])

def compileSteps (rs : List Row) : List CStep :=
  let (acc, pending) := compileRows rs
  if pending.isEmpty then acc else .atom .bad :: acc

/-- one atomic step of a comparator at loop index `i` (`none` outside a loop) -/
def atomAt (call : String → Tree → Tree → Bool) (esc : String → Tree → Bool) (q p : Tree) (i : Option Nat) : AStep → Res
  | .cast onQ ty => if (if onQ then q else p).kind == ty then .pass else .ret false
  | .shortcut o ph =>
    match selO i q p o, placeholderStmt ph with
    | some x, some c => if x == c then .ret true else .pass
    | _, _ => .ret false
  | .nilboth => if q.isNil && p.isNil then .ret true else .pass
  | .nileither => if q.isNil || p.isNil then .ret false else .pass
  | .len a b =>
    match selO i q p a, selO i q p b with
    | some a, some b => if a.kids.length != b.kids.length then .ret false else .pass
    | _, _ => .ret false
  | .ne a b =>
    match selO i q p a, selO i q p b with
    | some a, some b => if a != b then .ret false else .pass
    | _, _ => .ret false
  | .cmp callee a b =>
    match selO i q p a, selO i q p b with
    | some a, some b => if !opCmp call callee a b then .ret false else .pass
    | _, _ => .ret false
  | .cmpNeg callee a b =>
    match selO i q p a, selO i q p b with
    | some a, some b => if opCmp call callee a b then .ret false else .pass
    | _, _ => .ret false
  | .cmpEsc e ea callee a b =>
    match selO i q p a, selO i q p b, selO i q p ea with
    | some a, some b, some x => if !opCmp call callee a b then .ret (esc e x) else .pass
    | _, _, _ => .ret false
  | .bad => .ret false

/-- the body of one loop iteration -/
def eachAt (call : String → Tree → Tree → Bool) (esc : String → Tree → Bool) (q p : Tree) (i : Nat) : List AStep → Res
  | [] => .pass
  | a :: as =>
    match atomAt call esc q p (some i) a with
    | .pass => eachAt call esc q p i as
    | .ret b => .ret b

def loopOver (call : String → Tree → Tree → Bool) (esc : String → Tree → Bool) (q p : Tree) (body : List AStep) : List Nat → Res
  | [] => .pass
  | i :: is =>
    match eachAt call esc q p i body with
    | .pass => loopOver call esc q p body is
    | .ret b => .ret b

/-- a compiled comparator body: steps in source order, then the final `return` -/
def runC (call : String → Tree → Tree → Bool) (esc : String → Tree → Bool) (q p : Tree) (fin : Bool) : List CStep → Bool
  | [] => fin
  | .atom a :: rs =>
    match atomAt call esc q p none a with
    | .pass => runC call esc q p fin rs
    | .ret b => b
  | .range o body :: rs =>
    match selO none q p o with
    | none => false
    | some l =>
      match loopOver call esc q p body (List.range l.kids.length) with
      | .pass => runC call esc q p fin rs
      | .ret b => b

/-- a comparator body given as rows of the regenerated table (`n` is a historical fuel argument: any non-zero value) -/
def runSteps (call : String → Tree → Tree → Bool) (esc : String → Tree → Bool) (q p : Tree) (fin : Bool) : Nat → List Row → Bool
  | 0, _ => false
  | _ + 1, rows => runC call esc q p fin (compileSteps rows)

def all2 (f : Tree → Tree → Bool) : List Tree → List Tree → Bool
  | [], [] => true
  | a :: as, b :: bs => f a b && all2 f as bs
  | _, _ => false

/-- `areEqualValTuple`'s loop: every pattern element has a matching query element at the same index -/
def prefixAll (f : Tree → Tree → Bool) : List Tree → List Tree → Bool
  | _, [] => true
  | [], _ :: _ => false
  | a :: as, b :: bs => f a b && prefixAll f as bs

/-- the hand-written functions of `evalFn` -/
def specialFns : List String :=
  ["handleStreamStatement", "areEqualSQLVal", "areEqualColIdent", "areEqualSubquery", "areEqualValTuple",
   "areEqualSelectExprs", "areEqualSelectExpr", "areEqualInsertRows", "areEqualExpr"]

/-- the functions that switch on the pattern's type (`typeSwitches`, regenerated): the case of `p`'s type decides;
a plain case is `q, ok := query.(T); if !ok {return false}; return callee(q…, p…)`, the others are written by hand
(`special`) -/
def typeSwitchEval (call : String → Tree → Tree → Bool) (fn : String) (q p : Tree) (special : String → Option Bool) : Bool :=
  match (typeSwitches.lookup fn).bind (·.find? (·.1 == p.kind)) with
  | none => false
  | some (_, callee, qa, pa) =>
    if callee == "special" then (special p.kind).getD false
    else if q.kind != p.kind then false
    else
      match sel none q p qa, sel none q p pa with
      | some a, some b => opCmp call callee a b
      | _, _ => false

/-- `isWherePattern(pattern)`: nil-safe; EqualFold(Type) and areEqualExpr(pattern.Expr, WherePattern.Expr) -/
def escEval (call : String → Tree → Tree → Bool) (e : String) (x : Tree) : Bool :=
  e == "isWherePattern" && !x.isNil && foldEq (fld x "Type") (fld wherePattern "Type")
    && call "areEqualExpr" (fld x "Expr") (fld wherePattern "Expr")

/-- `areEqualSelectExpr`: the hand-written cases of its type switch -/
def selectExprSpecial (call : String → Tree → Tree → Bool) (q p : Tree) (k : String) : Option Bool :=
  if k == "StarExpr" then
    some (q.kind == "StarExpr" && call "areEqualTableName" (fld q "TableName") (fld p "TableName"))
  else if k == "AliasedExpr" then
    if q.kind != "AliasedExpr" then
      some (q.kind == "StarExpr" && (fld p "Expr").kind == "ColName" && isColumnPattern (fld (fld p "Expr") "Name"))
    else some (call "areEqualAliasedExpr" q p)
  else none

/-- `areEqualInsertRows`: case `sqlparser.Values` -/
def insertRowsSpecial (call : String → Tree → Tree → Bool) (q p : Tree) (k : String) : Option Bool :=
  if k == "Values" then some (q.kind == "Values" && all2 (call "areEqualValTuple") q.kids p.kids) else none

/-- `areEqualExpr`: cases `*sqlparser.SQLVal` and `*sqlparser.ColName` -/
def exprSpecial (call : String → Tree → Tree → Bool) (q p : Tree) (k : String) : Option Bool :=
  if k == "SQLVal" then
    if q.kind == "SQLVal" then some (call "areEqualSQLVal" q p)
    else if q.kind == "BoolVal" || q.kind == "NullVal" || q.kind == "FuncExpr" then
      some (isValuePattern p || isListOfValuesPattern p)
    else some false
  else if k == "ColName" then
    if q.kind == "ColName" then some (call "areEqualColName" q p)
    else if q.kind == "SQLVal" || q.kind == "Subquery" || q.kind == "FuncExpr" || q.kind == "CaseExpr" || q.kind == "ParenExpr" then
      some (isColumnPattern (fld p "Name"))
    else some false
  else none

/-- the hand-written functions (`specialFns`), following the Go text -/
def evalSpecial (call : String → Tree → Tree → Bool) (fn : String) (q p : Tree) : Bool :=
  if fn == "areEqualSQLVal" then
    isValuePattern p || isListOfValuesPattern p
      || ((fld q "Type").leafBytes == (fld p "Type").leafBytes && (fld q "Val").leafBytes == (fld p "Val").leafBytes)
  else if fn == "areEqualColIdent" then
    isColumnPattern p || lowerBytes (fld q "val").leafBytes == lowerBytes (fld p "val").leafBytes
  else if fn == "areEqualSubquery" then
    if !call "areEqualSelectStatement" (fld q "Select") (fld p "Select") then fld p "Select" == subqueryPattern else true
  else if fn == "areEqualValTuple" then
    if !prefixAll (call "areEqualExpr") q.kids p.kids then false
    else if q.kids.length > p.kids.length then
      match p.kids.getLast? with
      | some l => l.kind == "SQLVal" && isListOfValuesPattern l
      | none => false
    else true
  else if fn == "areEqualSelectExprs" then
    if p.kids.length == 1 && (p.kids.head?.map (·.kind)) == some "StarExpr" then true
    else all2 (call "areEqualSelectExpr") q.kids p.kids
  else if fn == "areEqualSelectExpr" then typeSwitchEval call fn q p (selectExprSpecial call q p)
  else if fn == "areEqualInsertRows" then typeSwitchEval call fn q p (insertRowsSpecial call q p)
  else if fn == "areEqualExpr" then
    if q.isNil && p.isNil then true
    else if q.isNil || p.isNil then false
    else typeSwitchEval call fn q p (exprSpecial call q p)
  else false  -- handleStreamStatement: a stub that returns false

/-- `fn(query, pattern)` for every function of `matching_logic.go` (by name). -/
def evalFn : Nat → String → Tree → Tree → Bool
  | 0, _, _, _ => false
  | fuel + 1, fn, q, p =>
    let call := evalFn fuel
    if !specialFns.contains fn then
      match comparators.lookup fn with
      | some (fin, steps) => runSteps call (escEval call) q p fin (steps.length + 1) steps
      | none => typeSwitchEval call fn q p fun _ => none
    else evalSpecial call fn q p

/-- `checkSinglePatternMatch(query, pattern)` -/
def checkSinglePatternMatch (fuel : Nat) (q p : Tree) : Bool :=
  match patternDispatch.lookup p.kind with
  | some h => evalFn fuel h q p
  | none => patternDispatchDefault

def fuelFor (p : Tree) : Nat := 3 * p.depth + 10

/-- the matcher as the chain uses it (`Sem.pat`) -/
def patMatch (q p : Tree) : Bool := checkSinglePatternMatch (fuelFor p) q p

end AcraModel.Censor.Match

/-! ## well-formedness of the regenerated comparators and what it buys -/
namespace AcraModel.Censor.Match
open AcraModel AcraModel.Censor Generated.CensorTable

/-- both operands name the same part of the query and of the pattern (`q.Where` / `p.Where`) -/
def sameOperand (qa pa : String) : Bool :=
  qa.toList.head? == some 'q' && pa.toList.head? == some 'p' && qa.toList.drop 1 == pa.toList.drop 1

/-- the step has the shape "stop with false unless the two corresponding parts are equal" (or cannot stop with false at all) -/
def stepOk (r : Row) : Bool :=
  let k := if isEach r then (r.1.drop 5).toString else r.1
  if k == "cast" || k == "shortcut" || k == "nilboth" || k == "nileither" || k == "range" then true
  else if k == "cmp" || k == "len" || k == "ne" || k.toList.take 7 == "cmpEsc:".toList then sameOperand r.2.2.1 r.2.2.2
  else false

/-- a comparator is well formed when it ends in `return true` and every step compares a part of the query with the
same part of the pattern, with the right polarity (`cmpNeg` – `if equal { return false }` – is not well formed) -/
def comparatorOk (c : String × Bool × List Row) : Bool := c.2.1 && c.2.2.all stepOk

/-- "no step of the body stops with false": the body run with `true` as its final value -/
def noFalse (call : String → Tree → Tree → Bool) (esc : String → Tree → Bool) (q p : Tree) (n : Nat) (rows : List Row) : Bool :=
  runSteps call esc q p true n rows

theorem runC_of_true (call : String → Tree → Tree → Bool) (esc : String → Tree → Bool) (q p : Tree) (fin : Bool)
    (steps : List CStep) (h : runC call esc q p true steps = true) (hfin : fin = true) :
    runC call esc q p fin steps = true := by
  subst hfin; exact h

/-- **All comparisons succeed ⇒ the handler returns its final value.** -/
theorem runSteps_of_noFalse (call : String → Tree → Tree → Bool) (esc : String → Tree → Bool) (q p : Tree) (fin : Bool)
    (n : Nat) (steps : List Row) (h : noFalse call esc q p n steps = true) (hfin : fin = true) :
    runSteps call esc q p fin n steps = true := by
  subst hfin; exact h

theorem evalFn_regular (fuel : Nat) (fn : String) (q p : Tree) (fin : Bool) (steps : List Row)
    (hs : specialFns.contains fn = false) (hl : comparators.lookup fn = some (fin, steps)) :
    evalFn (fuel + 1) fn q p =
      runSteps (evalFn fuel)
        (fun e x => e == "isWherePattern" && !x.isNil && foldEq (fld x "Type") (fld wherePattern "Type")
          && evalFn fuel "areEqualExpr" (fld x "Expr") (fld wherePattern "Expr"))
        q p fin (steps.length + 1) steps := by
  simp only [evalFn, hs, hl, Bool.not_false, if_true]
  rfl

/-! ### the hand-written functions, unfolded -/

theorem evalFn_special (fuel : Nat) (fn : String) (q p : Tree) (hs : specialFns.contains fn = true) :
    evalFn (fuel + 1) fn q p = evalSpecial (evalFn fuel) fn q p := by
  simp only [evalFn, hs, Bool.not_true, Bool.false_eq_true, if_false]

theorem evalFn_SQLVal (fuel : Nat) (q p : Tree) :
    evalFn (fuel + 1) "areEqualSQLVal" q p = (isValuePattern p || isListOfValuesPattern p
      || ((fld q "Type").leafBytes == (fld p "Type").leafBytes && (fld q "Val").leafBytes == (fld p "Val").leafBytes)) := by
  rw [evalFn_special _ _ _ _ (by decide)]; rfl

theorem evalFn_ColIdent (fuel : Nat) (q p : Tree) :
    evalFn (fuel + 1) "areEqualColIdent" q p =
      (isColumnPattern p || lowerBytes (fld q "val").leafBytes == lowerBytes (fld p "val").leafBytes) := by
  rw [evalFn_special _ _ _ _ (by decide)]; rfl

theorem evalFn_Subquery (fuel : Nat) (q p : Tree) :
    evalFn (fuel + 1) "areEqualSubquery" q p =
      (if !evalFn fuel "areEqualSelectStatement" (fld q "Select") (fld p "Select") then fld p "Select" == subqueryPattern else true) := by
  rw [evalFn_special _ _ _ _ (by decide)]; rfl

theorem evalFn_ValTuple (fuel : Nat) (q p : Tree) :
    evalFn (fuel + 1) "areEqualValTuple" q p =
      (if !prefixAll (evalFn fuel "areEqualExpr") q.kids p.kids then false
       else if q.kids.length > p.kids.length then
         match p.kids.getLast? with
         | some l => l.kind == "SQLVal" && isListOfValuesPattern l
         | none => false
       else true) := by
  rw [evalFn_special _ _ _ _ (by decide)]; rfl

theorem evalFn_SelectExprs (fuel : Nat) (q p : Tree) :
    evalFn (fuel + 1) "areEqualSelectExprs" q p =
      (if p.kids.length == 1 && (p.kids.head?.map (·.kind)) == some "StarExpr" then true
       else all2 (evalFn fuel "areEqualSelectExpr") q.kids p.kids) := by
  rw [evalFn_special _ _ _ _ (by decide)]; rfl

theorem evalFn_SelectExpr (fuel : Nat) (q p : Tree) :
    evalFn (fuel + 1) "areEqualSelectExpr" q p =
      typeSwitchEval (evalFn fuel) "areEqualSelectExpr" q p (selectExprSpecial (evalFn fuel) q p) := by
  rw [evalFn_special _ _ _ _ (by decide)]; rfl

theorem evalFn_InsertRows (fuel : Nat) (q p : Tree) :
    evalFn (fuel + 1) "areEqualInsertRows" q p =
      typeSwitchEval (evalFn fuel) "areEqualInsertRows" q p (insertRowsSpecial (evalFn fuel) q p) := by
  rw [evalFn_special _ _ _ _ (by decide)]; rfl

theorem evalFn_Expr (fuel : Nat) (q p : Tree) :
    evalFn (fuel + 1) "areEqualExpr" q p =
      (if q.isNil && p.isNil then true
       else if q.isNil || p.isNil then false
       else typeSwitchEval (evalFn fuel) "areEqualExpr" q p (exprSpecial (evalFn fuel) q p)) := by
  rw [evalFn_special _ _ _ _ (by decide)]; rfl

/-- a type switch without hand-written cases -/
theorem evalFn_switch (fuel : Nat) (fn : String) (q p : Tree) (hs : specialFns.contains fn = false)
    (hl : comparators.lookup fn = none) :
    evalFn (fuel + 1) fn q p = typeSwitchEval (evalFn fuel) fn q p fun _ => none := by
  simp only [evalFn, hs, hl, Bool.not_false, if_true]

/-! ### what a placeholder matches -/

/-- `%%VALUE%%` (and `%%LIST_OF_VALUES%%`) match every literal. -/
theorem value_matches (fuel : Nat) (q : Tree) : evalFn (fuel + 1) "areEqualSQLVal" q valuePattern = true := by
  have : isValuePattern valuePattern = true := by decide
  rw [evalFn_SQLVal, this]; rfl

theorem listOfValues_matches (fuel : Nat) (q : Tree) : evalFn (fuel + 1) "areEqualSQLVal" q listOfValuesPattern = true := by
  have : isListOfValuesPattern listOfValuesPattern = true := by decide
  rw [evalFn_SQLVal, this]; simp

/-- `%%COLUMN%%` matches every identifier. -/
theorem column_matches (fuel : Nat) (q : Tree) : evalFn (fuel + 1) "areEqualColIdent" q columnPattern = true := by
  have : isColumnPattern columnPattern = true := by decide
  rw [evalFn_ColIdent, this]; rfl

/-- `(%%SUBQUERY%%)` matches every sub-select. -/
theorem subquery_matches (fuel : Nat) (q : Tree) :
    evalFn (fuel + 1) "areEqualSubquery" q (.node "Subquery" [subqueryPattern]) = true := by
  have h : fld (.node "Subquery" [subqueryPattern]) "Select" = subqueryPattern := by rfl
  have h2 : (subqueryPattern == subqueryPattern) = true := Tree.beq_refl _
  rw [evalFn_Subquery, h, h2]
  simp

end AcraModel.Censor.Match
