import AcraModel.Censor.MatchSpecial
/-! # `match_generalise`: the type switches, the induction, the top level -/
namespace AcraModel.Censor.Match
open AcraModel AcraModel.Censor Generated.CensorTable

theorem domOf_switch {fn : String} {cases : List (String × String × String × String)} (hts : typeSwitches.lookup fn = some cases) :
    domOf fn = ⟨(cases.map (·.1)).filter (fun k => !excludedCases.contains (fn, k)), fn == "areEqualExpr"⟩ := by
  have ne : ∀ s, typeSwitches.lookup s = none → (fn == s) = false := fun s hs' => by
    cases h : fn == s with
    | false => rfl
    | true => rw [beq_iff_eq] at h; subst h; rw [hs'] at hts; cases hts
  unfold domOf
  simp only [ne "areEqualSQLVal" (by decide), ne "areEqualColIdent" (by decide), ne "areEqualSubquery" (by decide),
    ne "areEqualValTuple" (by decide), ne "areEqualSelectExprs" (by decide), Bool.false_eq_true, if_false, hts]

theorem rank_switch {fn : String} {cases : List (String × String × String × String)} (hts : typeSwitches.lookup fn = some cases) :
    rankOf fn = 3 := by
  have h1 : rank1Fns.contains fn = false := by
    cases h : rank1Fns.contains fn with
    | false => rfl
    | true =>
      simp only [rank1Fns, List.contains_cons, List.contains_nil, Bool.or_false, Bool.or_eq_true, beq_iff_eq] at h
      rcases h with h | h
      · subst h
        have : typeSwitches.lookup "areEqualSQLVal" = none := by decide
        rw [this] at hts; cases hts
      · subst h
        have : typeSwitches.lookup "areEqualColIdent" = none := by decide
        rw [this] at hts; cases hts
  have h2 : switchFns.contains fn = true := by
    unfold switchFns
    rw [contains_map_fst, hts]; rfl
  simp only [rankOf, h1, h2]
  rfl

/-- the kind-changing kinds -/
theorem kindChanging_cases {k : String} (h : kindChanging k = true) : k = "BoolVal" ∨ k = "NullVal" ∨ k = "FuncExpr" := by
  simp only [kindChanging, valueLike, Bool.and_eq_true, Bool.or_eq_true, beq_iff_eq, bne_iff_ne, ne_eq] at h
  obtain ⟨((h1 | h1) | h1) | h1, h2⟩ := h
  · exact absurd h1 h2
  · exact Or.inl h1
  · exact Or.inr (Or.inl h1)
  · exact Or.inr (Or.inr h1)

/-- a generalisation of a node either keeps its kind or is `%%VALUE%%` standing for a `BoolVal`/`NullVal`/`FuncExpr` -/
theorem isGen_kind_or_value {aw : Bool} {p : Tree} {k : String} {ks : List Tree} (h : isGen aw false p (.node k ks) = true) :
    p.kind = k ∨ (valueLike k = true ∧ p = valuePattern) := by
  cases hkc : kindChanging k with
  | false => exact Or.inl (isGen_kind h hkc)
  | true =>
    rcases isGen_node h with hp | ⟨ps, rfl, _⟩
    · right
      rcases kindChanging_cases hkc with rfl | rfl | rfl
      · have : placeholdersFor false "BoolVal" = [valuePattern] := by rfl
        rw [this, List.mem_singleton] at hp
        exact ⟨by decide, hp⟩
      · have : placeholdersFor false "NullVal" = [valuePattern] := by rfl
        rw [this, List.mem_singleton] at hp
        exact ⟨by decide, hp⟩
      · have : placeholdersFor false "FuncExpr" = [valuePattern] := by rfl
        rw [this, List.mem_singleton] at hp
        exact ⟨by decide, hp⟩
    · exact Or.inl rfl

theorem contains_of_filter {l : List String} {pr : String → Bool} {k : String} (h : (l.filter pr).contains k = true) :
    l.contains k = true ∧ pr k = true := by
  simp only [List.contains_iff_mem, List.mem_filter] at h ⊢
  exact h

/-! ## the special cases of the three hand-written switches -/

theorem specialRows_SelectExpr : ((typeSwitches.lookup "areEqualSelectExpr").getD []).all
    (fun r => r.2.1 != "special" || ["StarExpr", "AliasedExpr"].contains r.1) = true := by decide
theorem specialRows_InsertRows : ((typeSwitches.lookup "areEqualInsertRows").getD []).all
    (fun r => r.2.1 != "special" || ["Values"].contains r.1) = true := by decide
theorem specialRows_Expr : ((typeSwitches.lookup "areEqualExpr").getD []).all
    (fun r => r.2.1 != "special" || ["SQLVal", "ColName"].contains r.1) = true := by decide

theorem special_kind {fn : String} {cases : List (String × String × String × String)} {allowed : List String}
    (hts : typeSwitches.lookup fn = some cases)
    (hrows : ((typeSwitches.lookup fn).getD []).all (fun r => r.2.1 != "special" || allowed.contains r.1) = true)
    {k : String} {row : String × String × String × String} (hfind : cases.find? (·.1 == k) = some row) (hsp : row.2.1 = "special") :
    allowed.contains k = true := by
  obtain ⟨hk, hm⟩ := find?_fst hfind
  rw [hts] at hrows
  have := List.all_eq_true.mp hrows row hm
  simpa [hsp, hk] using this

end AcraModel.Censor.Match

namespace AcraModel.Censor.Match
open AcraModel AcraModel.Censor Generated.CensorTable

theorem accepts_intro {c k : String} {ks : List Tree} (hok : okFn c = true) (hd : (domOf c).kinds.contains k = true)
    (hnn : (Tree.node k ks).isNilNode = false) : accepts c (.node k ks) = true := by
  have hd' : k ∈ (domOf c).kinds := by simpa using hd
  simp [accepts, hok, Tree.isLeaf, hnn, Tree.kind_node, hd']

theorem okFn_AliasedExpr : okFn "areEqualAliasedExpr" = true := by decide
theorem okFn_ColName : okFn "areEqualColName" = true := by decide
theorem domOf_AliasedExpr : (domOf "areEqualAliasedExpr").kinds.contains "AliasedExpr" = true := by decide
theorem domOf_ColName : (domOf "areEqualColName").kinds.contains "ColName" = true := by decide

/-- `areEqualSelectExpr`: cases `*StarExpr` and `*AliasedExpr` -/
theorem selectExpr_special {aw : Bool} {k : String} {ks : List Tree} {p : Tree} {f : Nat}
    (hwf : wf (.node k ks) = true) (hacc : acc (.node k ks) = true) (hnn : (Tree.node k ks).isNilNode = false)
    (IH : ∀ x, x.depth < (Tree.node k ks).depth → wf x = true → acc x = true → P aw x) (h2 : H2 aw (.node k ks))
    (hgen : isGen aw false p (.node k ks) = true) (hpk : p.kind = k) (hfuel : 3 * p.depth + 3 ≤ f + 1)
    (hk : ["StarExpr", "AliasedExpr"].contains k = true) :
    (selectExprSpecial (evalFn f) (.node k ks) p k).getD false = true := by
  simp only [List.contains_cons, List.contains_nil, Bool.or_false, Bool.or_eq_true, beq_iff_eq] at hk
  rcases hk with rfl | rfl
  · rcases isGen_node hgen with h | ⟨ps, rfl, hk2⟩
    · have : placeholdersFor false "StarExpr" = [] := by rfl
      rw [this] at h; cases h
    · have hd : declTy "StarExpr" "TableName" = some (.struct "TableName") := by rfl
      obtain ⟨j, x, y, _, hx, hy, hkx, hky, _, hwx, hg⟩ := field_align hwf hk2 hd
      rw [whereSlot_ne_select (by decide)] at hg
      have hxm := List.mem_of_getElem? hkx
      have hym := List.mem_of_getElem? hky
      have hax := site_field hacc (k := "StarExpr") (f := "TableName") (c := "areEqualTableName") (by decide) (by decide) hx
      have := kid_call IH (Nat.lt_of_succ_le (Tree.depth_kid hxm)) (Tree.depth_kid hym) hwx (acc_kid hacc hxm) hax hg (by decide)
        (by omega : 3 * (Tree.node "StarExpr" ps).depth + 2 ≤ f + 1)
      simp [selectExprSpecial, Tree.kind_node, fld, hx, hy, this]
  · have hcall : evalFn f "areEqualAliasedExpr" (.node "AliasedExpr" ks) p = true := by
      apply h2 "areEqualAliasedExpr" p f (by decide) (accepts_intro okFn_AliasedExpr domOf_AliasedExpr hnn) hgen (fun _ => by rw [hpk]; rfl)
      unfold need
      have : rankOf "areEqualAliasedExpr" = 2 := by decide
      omega
    simp [selectExprSpecial, Tree.kind_node, hcall]

/-- `areEqualInsertRows`: case `Values` -/
theorem insertRows_special {aw : Bool} {k : String} {ks : List Tree} {p : Tree} {f : Nat}
    (hwf : wf (.node k ks) = true) (hacc : acc (.node k ks) = true)
    (IH : ∀ x, x.depth < (Tree.node k ks).depth → wf x = true → acc x = true → P aw x)
    (hgen : isGen aw false p (.node k ks) = true) (hfuel : 3 * p.depth + 3 ≤ f + 1)
    (hk : ["Values"].contains k = true) :
    (insertRowsSpecial (evalFn f) (.node k ks) p k).getD false = true := by
  have hk' := kind_of_contains_single hk
  subst hk'
  rcases isGen_node hgen with h | ⟨ps, rfl, hk2⟩
  · have : placeholdersFor false "Values" = [] := by rfl
    rw [this] at h; cases h
  · obtain ⟨hlen, hall⟩ := isGenKids_plain (k := "Values") (by decide) 0 ps ks hk2
    have : all2 (evalFn f "areEqualValTuple") ks ps = true := by
      apply all2_of_forall _ _ hlen
      intro i x y hx hy
      have hg := hall i x y hx hy
      rw [whereSlot_ne_select (by decide)] at hg
      have hxm := List.mem_of_getElem? hx
      have hym := List.mem_of_getElem? hy
      exact kid_call IH (Nat.lt_of_succ_le (Tree.depth_kid hxm)) (Tree.depth_kid hym) (wf_kid hwf hxm) (acc_kid hacc hxm)
        (site_elems hacc (k := "Values") (c := "areEqualValTuple") (by decide) hxm) hg (by decide)
        (by omega : 3 * (Tree.node "Values" ps).depth + 2 ≤ f + 1)
    simp [insertRowsSpecial, Tree.kind_node, Tree.kids, this]

/-- `areEqualExpr`: cases `*SQLVal` and `*ColName` when the query has the same kind -/
theorem expr_special {aw : Bool} {k : String} {ks : List Tree} {p : Tree} {f : Nat}
    (hnn : (Tree.node k ks).isNilNode = false) (h2 : H2 aw (.node k ks))
    (hgen : isGen aw false p (.node k ks) = true) (hpk : p.kind = k) (hfuel : 3 * p.depth + 3 ≤ f + 1)
    (hk : ["SQLVal", "ColName"].contains k = true) :
    (exprSpecial (evalFn f) (.node k ks) p k).getD false = true := by
  simp only [List.contains_cons, List.contains_nil, Bool.or_false, Bool.or_eq_true, beq_iff_eq] at hk
  rcases hk with rfl | rfl
  · have hcall : evalFn f "areEqualSQLVal" (.node "SQLVal" ks) p = true := by
      apply h2 "areEqualSQLVal" p f (by decide) (accepts_intro (by decide) (by decide) hnn) hgen (fun h => absurd h (by decide))
      unfold need
      have : rankOf "areEqualSQLVal" = 1 := by decide
      omega
    simp [exprSpecial, Tree.kind_node, hcall]
  · have hcall : evalFn f "areEqualColName" (.node "ColName" ks) p = true := by
      apply h2 "areEqualColName" p f (by decide) (accepts_intro okFn_ColName domOf_ColName hnn) hgen (fun _ => by rw [hpk]; rfl)
      unfold need
      have : rankOf "areEqualColName" = 2 := by decide
      omega
    simp [exprSpecial, Tree.kind_node, hcall]

end AcraModel.Censor.Match

namespace AcraModel.Censor.Match
open AcraModel AcraModel.Censor Generated.CensorTable

theorem nil_isNil : Tree.nil.isNil = true := rfl

theorem isNil_false_of {k : String} {ks : List Tree} (hwf : wf (.node k ks) = true) (hnn : (Tree.node k ks).isNilNode = false) :
    (Tree.node k ks).isNil = false := by
  have := isNil_of_wf hwf hnn
  simpa [Tree.isNil, Tree.kind_node] using this

theorem special_switches : specialFns.all (fun s => s == "areEqualSelectExpr" || s == "areEqualInsertRows" || s == "areEqualExpr"
    || (typeSwitches.lookup s).isNone) = true := by decide

theorem kind_keep {aw : Bool} {fn k : String} {ks : List Tree} {p : Tree} {l : List String}
    (hdom : (domOf fn).kinds = l) (hkc : ∀ x ∈ (domOf fn).kinds, kindChanging x = false)
    (hkq : l.contains k = true) (hgen : isGen aw false p (.node k ks) = true) : p.kind = k := by
  have hm : k ∈ (domOf fn).kinds := by rw [hdom]; exact List.contains_iff_mem.mp hkq
  exact isGen_kind hgen (hkc k hm)

/-- **the functions that switch on the pattern's type** -/
theorem switch_fn_ok {aw : Bool} (hw : HW aw) {fn : String} (hsw : switchTyped fn = true)
    {q : Tree} (hwf : wf q = true) (hacc : acc q = true) (hq : accepts fn q = true)
    (IH : ∀ x, x.depth < q.depth → wf x = true → acc x = true → P aw x) (h2 : H2 aw q)
    {p : Tree} (hgen : isGen aw false p q = true) {fuel : Nat} (hfuel : need fn p ≤ fuel) :
    evalFn fuel fn q p = true := by
  unfold switchTyped at hsw
  cases hts : typeSwitches.lookup fn with
  | none => simp [hts] at hsw
  | some cases =>
    simp only [hts, Bool.and_eq_true, Bool.or_eq_true, beq_iff_eq, List.all_eq_true, Bool.not_eq_true', bne_iff_ne, ne_eq,
      Option.isNone_iff_eq_none] at hsw
    obtain ⟨⟨hst, hkc⟩, hspc⟩ := hsw
    have hst' : cases.all (caseTyped fn) = true := List.all_eq_true.mpr hst
    have hr := rank_switch hts
    have hfuel' : 3 * p.depth + 3 ≤ fuel := by unfold need at hfuel; omega
    obtain ⟨f, rfl⟩ : ∃ f, fuel = f + 1 := ⟨fuel - 1, by omega⟩
    have hdom := domOf_switch hts
    simp only [accepts, hdom, Bool.and_eq_true, Bool.or_eq_true, Bool.not_eq_true', beq_iff_eq] at hq
    obtain ⟨⟨_, hnl⟩, hq⟩ := hq
    -- the common part: a non-nil node of an accepted kind, pattern of the same kind
    have core : ∀ k ks, q = .node k ks → q.isNilNode = false →
        ((cases.map (·.1)).filter (fun k => !excludedCases.contains (fn, k))).contains k = true → p.kind = k →
        ∀ sp, (∀ row, cases.find? (·.1 == k) = some row → row.2.1 = "special" → (sp k).getD false = true) →
        typeSwitchEval (evalFn f) fn q p sp = true := by
      intro k ks hqe hnn hkin hpk sp hspec
      subst hqe
      obtain ⟨hkin', hnex⟩ := contains_of_filter hkin
      exact switch_ok hw hts hst' hwf hacc hnn IH h2 hkin' (by simpa using hnex) hgen hpk hfuel' hspec
    by_cases hsp : specialFns.contains fn = true
    · -- the three hand-written switches
      have hfn : fn = "areEqualSelectExpr" ∨ fn = "areEqualInsertRows" ∨ fn = "areEqualExpr" := by
        have := List.all_eq_true.mp special_switches fn (List.contains_iff_mem.mp hsp)
        simp only [Bool.or_eq_true, beq_iff_eq, Option.isNone_iff_eq_none] at this
        rcases this with ((h | h) | h) | h
        · exact Or.inl h
        · exact Or.inr (Or.inl h)
        · exact Or.inr (Or.inr h)
        · rw [h] at hts; cases hts
      rcases hfn with rfl | rfl | rfl
      · -- areEqualSelectExpr
        rcases hq with ⟨_, hnok⟩ | ⟨hnn, hkq⟩
        · simp at hnok
        · cases q with
          | leaf b => simp [Tree.isLeaf] at hnl
          | node k ks =>
            have hpk : p.kind = k := by
              rcases hkc with h | h
              · exact absurd h (by decide)
              · exact kind_keep (by rw [hdom]) h hkq hgen
            rw [evalFn_SelectExpr]
            apply core k ks rfl hnn hkq hpk
            intro row hfind hspr
            exact selectExpr_special hwf hacc hnn IH h2 hgen hpk hfuel' (special_kind hts specialRows_SelectExpr hfind hspr)
      · -- areEqualInsertRows
        rcases hq with ⟨_, hnok⟩ | ⟨hnn, hkq⟩
        · simp at hnok
        · cases q with
          | leaf b => simp [Tree.isLeaf] at hnl
          | node k ks =>
            have hpk : p.kind = k := by
              rcases hkc with h | h
              · exact absurd h (by decide)
              · exact kind_keep (by rw [hdom]) h hkq hgen
            rw [evalFn_InsertRows]
            apply core k ks rfl hnn hkq hpk
            intro row hfind hspr
            exact insertRows_special hwf hacc IH hgen hfuel' (special_kind hts specialRows_InsertRows hfind hspr)
      · -- areEqualExpr
        rw [evalFn_Expr]
        rcases hq with ⟨hnil, _⟩ | ⟨hnn, hkq⟩
        · have := isNilNode_eq hnil
          subst this
          have := isGen_nil hgen
          subst this
          rfl
        · cases q with
          | leaf b => simp [Tree.isLeaf] at hnl
          | node k ks =>
            have hqn := isNil_false_of hwf hnn
            rcases isGen_kind_or_value hgen with hpk | ⟨hv, rfl⟩
            · have hpn : p.isNil = false := by
                have := isNil_of_wf hwf hnn
                simpa [Tree.isNil, hpk] using this
              simp only [hqn, hpn, Bool.false_and, Bool.or_self, Bool.false_eq_true, if_false]
              apply core k ks rfl hnn hkq hpk
              intro row hfind hspr
              exact expr_special hnn h2 hgen hpk hfuel' (special_kind hts specialRows_Expr hfind hspr)
            · -- `%%VALUE%%` for a BoolVal / NullVal / FuncExpr
              have hd : 1 ≤ valuePattern.depth := Tree.depth_pos _
              obtain ⟨f', rfl⟩ : ∃ f', f = f' + 1 := ⟨f - 1, by omega⟩
              have := expr_value (x := .node k ks) (p := valuePattern) (f := f') (by simpa [Tree.kind_node] using hv) (Or.inl rfl)
              rw [evalFn_Expr] at this
              exact this
    · -- a switch without hand-written cases
      have hsp' : specialFns.contains fn = false := by simpa using hsp
      rcases hspc with h | ⟨hnsp, hcl⟩
      · exact absurd h hsp
      · have hne : fn ≠ "areEqualExpr" := by
          intro e; subst e; exact absurd hsp' (by decide)
        rcases hq with ⟨_, hnok⟩ | ⟨hnn, hkq⟩
        · exact absurd hnok hne
        · cases q with
          | leaf b => simp [Tree.isLeaf] at hnl
          | node k ks =>
            have hpk : p.kind = k := by
              rcases hkc with h | h
              · exact absurd h hne
              · exact kind_keep (by rw [hdom]) h hkq hgen
            rw [evalFn_switch f fn _ p hsp' hcl]
            apply core k ks rfl hnn hkq hpk
            intro row hfind hspr
            exact absurd hspr (hnsp row (find?_fst hfind).2)

end AcraModel.Censor.Match

namespace AcraModel.Censor.Match
open AcraModel AcraModel.Censor Generated.CensorTable

/-! ## the induction -/

theorem rank_of_rank1 {c : String} (h : rank1Fns.contains c = true) : rankOf c = 1 := by
  unfold rankOf; rw [if_pos h]

theorem rank2Specials_facts : rank2Specials.all (fun c => rankOf c == 2) = true := by decide

theorem rank_of_rank2Special {c : String} (h : rank2Specials.contains c = true) : rankOf c = 2 := by
  have := List.all_eq_true.mp rank2Specials_facts c (List.contains_iff_mem.mp h)
  simpa using this

theorem okRegular_spec {c : String} (h : okRegular c = true) :
    ∃ fin steps, compiled.lookup c = some (fin, steps) ∧ fnTyped c fin steps = true ∧ rankOf c = 2 := by
  unfold okRegular at h
  cases hl : compiled.lookup c with
  | none => simp [hl] at h
  | some e =>
    obtain ⟨fin, steps⟩ := e
    simp only [hl] at h
    refine ⟨fin, steps, rfl, h, ?_⟩
    unfold fnTyped at h
    split at h
    · simp only [Bool.and_eq_true, Bool.not_eq_true', Option.isNone_iff_eq_none] at h
      exact rank_regular h.1.1.1.1.2 h.1.1.1.2
    · cases h

theorem okFn_of_accepts {c : String} {t : Tree} (h : accepts c t = true) : okFn c = true := by
  simp only [accepts, Bool.and_eq_true] at h
  exact h.1.1

theorem need_pos (c : String) (p : Tree) : 1 ≤ need c p := by
  unfold need
  have := rankOf_pos c
  omega

/-- one step of the induction: `P` below `t` ⇒ `P t` -/
theorem P_step {aw : Bool} (hw : HW aw) {t : Tree} (hwf : wf t = true) (hacc : acc t = true)
    (IH : ∀ x, x.depth < t.depth → wf x = true → acc x = true → P aw x) : P aw t := by
  have low : H2 aw t := by
    intro c p' f' hrk ha hg hkd hn
    have hok := okFn_of_accepts ha
    simp only [okFn, Bool.or_eq_true] at hok
    rcases hok with ((h | h) | h) | h
    · exact rank1_ok h ha hwf hg (Nat.le_trans (need_pos c p') hn)
    · have hr2 := rank_of_rank2Special h
      have hf : 3 * p'.depth + 2 ≤ f' := by unfold need at hn; omega
      simp only [rank2Specials, List.contains_cons, List.contains_nil, Bool.or_false, Bool.or_eq_true, beq_iff_eq] at h
      rcases h with rfl | rfl | rfl
      · exact subquery_ok ha hwf hacc IH hg hf
      · exact valTuple_ok ha hwf hacc IH hg hf
      · exact selectExprs_ok ha hwf hacc IH hg hf
    · obtain ⟨fin, steps, hl, hty, hr2⟩ := okRegular_spec h
      exact regular_ok hw hl hty hwf hacc ha IH
        (fun c' p'' f'' hc ha' hg' hn' => rank1_ok hc ha' hwf hg' (Nat.le_trans (need_pos c' p'') hn'))
        hg (hkd hr2) hn
    · unfold switchTyped at h
      cases hts : typeSwitches.lookup c with
      | none => simp [hts] at h
      | some cases =>
        have := rank_switch hts
        omega
  intro fn p fuel hq hgen hkind hfuel
  by_cases hr : rankOf fn < 3
  · exact low fn p fuel hr hq hgen hkind hfuel
  · have hok := okFn_of_accepts hq
    simp only [okFn, Bool.or_eq_true] at hok
    rcases hok with ((h | h) | h) | h
    · have := rank_of_rank1 h; omega
    · have := rank_of_rank2Special h; omega
    · obtain ⟨_, _, _, _, hr2⟩ := okRegular_spec h; omega
    · exact switch_fn_ok hw h hwf hacc hq IH low hgen hfuel

/-- **`P` for every well-typed tree** -/
theorem P_all {aw : Bool} (hw : HW aw) : ∀ (n : Nat) (t : Tree), t.depth ≤ n → wf t = true → acc t = true → P aw t
  | 0, t, h, _, _ => absurd (Tree.depth_pos t) (by omega)
  | n + 1, t, _, hwf, hacc => P_step hw hwf hacc fun x hx hwx hax => P_all hw n x (by omega) hwx hax

/-! ## `generalise` produces generalisations -/

theorem pick_mem {σ : Sigma} {wh : Bool} {i : Nat} {k : String} {ph : Tree} (h : pick σ wh i k = some ph) :
    ph ∈ placeholdersFor wh k := by
  unfold pick at h
  simp only [placeholdersFor, List.mem_append]
  split at h
  · next hc =>
    simp only [Bool.and_eq_true] at hc
    cases h
    exact Or.inl (Or.inl (Or.inl (Or.inl (Or.inl (by simp [hc.2])))))
  · split at h
    · next hc =>
      simp only [Bool.and_eq_true] at hc
      cases h
      exact Or.inl (Or.inl (Or.inl (Or.inl (Or.inr (by simp [hc.2])))))
    · split at h
      · next hc =>
        simp only [Bool.and_eq_true] at hc
        cases h
        exact Or.inl (Or.inl (Or.inl (Or.inr (by simp [hc.2]))))
      · split at h
        · next hc =>
          simp only [Bool.and_eq_true] at hc
          cases h
          exact Or.inl (Or.inl (Or.inr (by simp [hc.2])))
        · split at h
          · exact Or.inl (Or.inr (by simp [h]))
          · split at h
            · next hc =>
              simp only [Bool.and_eq_true] at hc
              cases h
              exact Or.inr (by simp [hc.2])
            · cases h

mutual
theorem isGen_gen (σ : Sigma) : ∀ (wh : Bool) (i : Nat) (t : Tree), isGen true wh (gen σ wh i t) t = true
  | wh, i, .leaf b => by rw [gen.eq_1, isGen.eq_1]; exact Tree.beq_refl _
  | wh, i, .node k ks => by
    rw [gen.eq_2]
    cases hp : pick σ wh i k with
    | some ph => exact isGen_of_placeholder (pick_mem hp)
    | none => exact isGen_of_structural (isGenKids_genKids σ k 0 (i + 1) ks)
theorem isGenKids_genKids (σ : Sigma) (k : String) : ∀ (j i : Nat) (ks : List Tree), isGenKids true k j (genKids σ k j i ks) ks = true
  | j, i, [] => by rw [genKids.eq_1, isGenKids.eq_1]; rfl
  | j, i, x :: xs => by
    rw [genKids.eq_2, isGenKids.eq_2]
    split
    · next hc =>
      simp only [Bool.and_eq_true] at hc
      simp [hc.1.1, hc.2]
    · simp only [List.isEmpty_cons, Bool.not_false, Bool.true_and, List.headD_cons, List.tail_cons, Bool.or_eq_true, Bool.and_eq_true]
      exact Or.inr ⟨isGen_gen σ _ i x, isGenKids_genKids σ k (j + 1) _ xs⟩
end

theorem isGen_generalise (t : Tree) (σ : Sigma) : isGen true false (generalise t σ) t = true := isGen_gen σ false 0 t

end AcraModel.Censor.Match
