/-!
# acra-censor: the handler chain (`AcraCensor.HandleQuery`)

Model of `/repo/acra-censor/acra-censor_implementation.go` (`HandleQuery`) and of the `CheckQuery`
methods in `/repo/acra-censor/handlers/{allow,deny,allowall,denyall,queryignore,querycapture}_handler.go`,
followed line by line. The parser (`sqlparser.Parser.HandleRawSQLQuery`) is *not* modelled: a statement
arrives as its raw text plus – when the parser accepted it – the normalised text (`sqlparser.String` of
the parse tree) and the parse tree itself. How a parse tree is matched against table rules and
patterns is a parameter (`Sem`); `Censor/Match.lean` provides the concrete instance over `Tree`.

Core Lean only.
-/
namespace AcraModel.Censor

/-- Rule set of an allow/deny handler: `queries` holds the *normalised* texts
(`AddQueries` stores `HandleRawSQLQuery(q).normalizedQuery`), `tables` the configured names,
`patterns` the parsed patterns (`common.ParsePatterns`). Go keeps the first two as `map[string]bool`;
only membership is ever asked, so a list is the same thing. -/
structure Rules (P : Type) where
  queries : List String
  tables : List String
  patterns : List P
deriving Repr

/-- The six handler kinds of `LoadConfiguration`'s switch. `ignore` carries the key set of
`QueryIgnoreHandler.ignoredQueries` (each configured text and – when it parses – its normal form). -/
inductive Handler (P : Type) where
  | allow (r : Rules P)
  | deny (r : Rules P)
  | allowAll
  | denyAll
  | ignore (qs : List String)
  | capture
deriving Repr

structure Cfg (P : Type) where
  /-- `ignore_parse_error` -/
  ignoreParseError : Bool
  /-- `parse_errors_log` is set (`unparsedQueriesWriter != nil`) -/
  hasParseErrLog : Bool
  handlers : List (Handler P)
deriving Repr

/-- What the parser returns for an accepted statement. -/
structure Parsed (A : Type) where
  norm : String
  ast : A
deriving Repr

structure Stmt (A : Type) where
  raw : String
  /-- `none` ⇔ `HandleRawSQLQuery` returned `ErrQuerySyntaxError` (then `normalizedQuery = ""`, `parsedQuery = nil`). -/
  parsed : Option (Parsed A)
deriving Repr

/-- Matching of parse trees: `tables a T` = `common.CheckTableNamesMatch(a, T)` =
(at least one table of the statement is in `T`, all tables are in `T`); `pat a p` =
`checkSinglePatternMatch(a, p)`. -/
structure Sem (A P : Type) where
  tables : A → List String → Bool × Bool
  pat : A → P → Bool

inductive Verdict where
  | allow
  | deny
deriving Repr, DecidableEq

/-- Result of one handler: `(continueHandling = false, err = nil)`, `(_, err ≠ nil)`, `(true, nil)`. -/
inductive Step where
  | allow
  | deny
  | next
deriving Repr, DecidableEq

variable {A P : Type}

/-- The three checks of `AllowHandler.CheckQuery` / `DenyHandler.CheckQuery` in source order; `pick`
selects the component of `CheckTableNamesMatch`'s result the handler looks at
(`allTablesInWhitelist` for allow, `atLeastOneTableInBlacklist` for deny). -/
def rulesHit (sem : Sem A P) (pick : Bool × Bool → Bool) (r : Rules P) (p : Parsed A) : Bool :=
  (!r.queries.isEmpty && r.queries.contains p.norm)
  || (!r.tables.isEmpty && pick (sem.tables p.ast r.tables))
  || (!r.patterns.isEmpty && r.patterns.any (sem.pat p.ast))

/-- `sqlparser.String(nil)`: what `QueryIgnoreHandler.CheckQuery` computes as `normalizedQ` for a
statement that did not parse (`parsedQuery = nil`). -/
def nilString : String := "<nil>"

/-- `sqlparser.String(parsedQuery)` as computed by `QueryIgnoreHandler.CheckQuery(rawQuery, parsedQuery)`. -/
def Stmt.normOrNil (s : Stmt A) : String :=
  match s.parsed with
  | some p => p.norm
  | none => nilString

/-- One handler, as dispatched inside the loop of `HandleQuery`. -/
def Handler.check (sem : Sem A P) (s : Stmt A) : Handler P → Step
  | .capture => .next
  | .ignore qs => if qs.contains s.normOrNil || qs.contains s.raw then .allow else .next
  | .allowAll => .allow
  | .denyAll => .deny
  | .allow r =>
    match s.parsed with
    | none => .next
    | some p => if rulesHit sem (·.2) r p then .allow else .next
  | .deny r =>
    match s.parsed with
    | none => .next
    | some p => if rulesHit sem (·.1) r p then .deny else .next

/-- The `for _, handler := range acraCensor.handlers` loop; falling off the end allows. -/
def runChain (sem : Sem A P) (s : Stmt A) : List (Handler P) → Verdict
  | [] => .allow
  | h :: hs =>
    match h.check sem s with
    | .allow => .allow
    | .deny => .deny
    | .next => runChain sem s hs

/-- A censor without handlers and without a parse-error log "won't work" (first `if` of `HandleQuery`). -/
def Cfg.active (cfg : Cfg P) : Bool := !(cfg.handlers.isEmpty && !cfg.hasParseErrLog)

/-- `AcraCensor.HandleQuery`. -/
def handleQuery (sem : Sem A P) (cfg : Cfg P) (s : Stmt A) : Verdict :=
  if !cfg.active then .allow
  else if s.parsed.isNone && !cfg.ignoreParseError then .deny
  else runChain sem s cfg.handlers

/-! ## lemmas -/

def Step.toVerdict? : Step → Option Verdict
  | .allow => some .allow
  | .deny => some .deny
  | .next => none

theorem runChain_append_next (sem : Sem A P) (s : Stmt A) (pre post : List (Handler P))
    (h : ∀ x ∈ pre, x.check sem s = .next) :
    runChain sem s (pre ++ post) = runChain sem s post := by
  induction pre with
  | nil => rfl
  | cons x xs ih =>
    have hx := h x (by simp)
    simp only [List.cons_append, runChain, hx]
    exact ih (fun y hy => h y (by simp [hy]))

theorem runChain_decisive (sem : Sem A P) (s : Stmt A) (pre post : List (Handler P)) (d : Handler P) (v : Verdict)
    (h : ∀ x ∈ pre, x.check sem s = .next) (hd : (d.check sem s).toVerdict? = some v) :
    runChain sem s (pre ++ d :: post) = v := by
  rw [runChain_append_next sem s pre _ h]
  simp only [runChain]
  cases hc : d.check sem s <;> simp [hc, Step.toVerdict?] at hd ⊢ <;> exact hd

/-- No handler of the list stops with "allow" ⇒ the chain never allows before its end. -/
theorem runChain_no_allow_then_deny (sem : Sem A P) (s : Stmt A) (pre post : List (Handler P))
    (h : ∀ x ∈ pre, x.check sem s ≠ .allow) :
    runChain sem s (pre ++ .denyAll :: post) = .deny := by
  induction pre with
  | nil => simp [runChain, Handler.check]
  | cons x xs ih =>
    have hx := h x (by simp)
    simp only [List.cons_append, runChain]
    cases hc : x.check sem s with
    | allow => exact absurd hc hx
    | deny => rfl
    | next => exact ih (fun y hy => h y (by simp [hy]))

/-- The raw text is looked at by `ignore` handlers only. -/
theorem check_raw_irrelevant (sem : Sem A P) (s₁ s₂ : Stmt A) (hp : s₁.parsed = s₂.parsed) (h : Handler P)
    (hi : ∀ qs, h = .ignore qs → (qs.contains s₁.raw = qs.contains s₂.raw)) :
    h.check sem s₁ = h.check sem s₂ := by
  cases h with
  | ignore qs =>
    have := hi qs rfl
    have hn : s₁.normOrNil = s₂.normOrNil := by simp [Stmt.normOrNil, hp]
    simp only [Handler.check, this, hn]
  | allow r => simp [Handler.check, hp]
  | deny r => simp [Handler.check, hp]
  | allowAll => rfl
  | denyAll => rfl
  | capture => rfl

theorem runChain_raw_irrelevant (sem : Sem A P) (s₁ s₂ : Stmt A) (hp : s₁.parsed = s₂.parsed) (hs : List (Handler P))
    (hi : ∀ qs, Handler.ignore qs ∈ hs → (qs.contains s₁.raw = qs.contains s₂.raw)) :
    runChain sem s₁ hs = runChain sem s₂ hs := by
  induction hs with
  | nil => rfl
  | cons x xs ih =>
    have hx := check_raw_irrelevant sem s₁ s₂ hp x (fun qs e => hi qs (by simp [e]))
    simp only [runChain, hx]
    cases x.check sem s₂ <;> simp
    exact ih (fun qs hq => hi qs (by simp [hq]))

end AcraModel.Censor
