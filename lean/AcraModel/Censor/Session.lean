/-!
# acra-censor inside the proxies: what a session forwards and how responses stay paired

Model of the client→database loop of the PostgreSQL proxy
(`/repo/decryptor/postgresql/pg_decryptor.go`: `ProxyClientConnection`, `handleClientPacket` case
`SimpleQueryPacket`, `handleQueryPacket`, `sendClientError`) together with the part of the
database→client side that consumes the pending-statement queue (`protocol.go`:
`HandleDatabasePacket` on CommandComplete/EmptyQuery/PortalSuspended/ErrorResponse removes the front
entry; `handleQueryDataPacket` processes data rows with the *front* entry's SQL text), and of the
MySQL loop (`/repo/decryptor/mysql/response_proxy.go`: `ProxyClientConnection`, cases
`CommandQuery`/`CommandStatementPrepare`).

The firewall is a parameter `denied : String → Bool` (instantiated with `Chain.handleQuery` in
`Props/C05.lean`). Whether the statement is remembered as pending *before* the firewall is asked is a
parameter too (`addFirst`) – its value for the current source is the regenerated fact
`Generated.CensorTable.pgSimpleQueryCalls`.
-/
namespace AcraModel.Censor.Session

/-- What happens on the two connections of a session. -/
inductive Ev where
  /-- the client sends a statement (PostgreSQL `Query` message / MySQL `COM_QUERY`) -/
  | query (q : String)
  /-- the database reports the end of the oldest outstanding statement (CommandComplete, ErrorResponse …) -/
  | dbDone
deriving Repr, DecidableEq

/-- Observable effects. -/
inductive Obs where
  /-- the statement's packet is written to the database connection (`packet.sendPacket()`) -/
  | forwardDb (q : String)
  /-- `sendClientError`: ErrorResponse … -/
  | clientError
  /-- … followed by ReadyForQuery -/
  | clientReady
  /-- a database response was processed with this statement's text (`none`: no pending entry) -/
  | paired (q : Option String)
deriving Repr, DecidableEq

/-- `PgProtocolState.pendingQueryPackets` restricted to `queryPacket`s of simple queries (a FIFO). -/
structure St where
  pending : List String
deriving Repr, DecidableEq

variable (denied : String → Bool) (addFirst : Bool)

/-- One client statement: `handleClientPacket` (case `SimpleQueryPacket`) then the `if censored`
branch of `ProxyClientConnection`. -/
def stepQuery (st : St) (q : String) : St × List Obs :=
  if addFirst then
    -- pinned tree before the repair: `pendingQueryPackets.Add` precedes `handleQueryPacket`
    let st' : St := ⟨st.pending ++ [q]⟩
    if denied q then (st', [.clientError, .clientReady]) else (st', [.forwardDb q])
  else
    if denied q then (st, [.clientError, .clientReady]) else (⟨st.pending ++ [q]⟩, [.forwardDb q])

/-- One end-of-statement from the database: the response is processed with the front entry, which is then removed
(`GetPendingPacket` / `RemoveNextPendingPacket`). -/
def stepDone (st : St) : St × List Obs :=
  match st.pending with
  | [] => (st, [.paired none])
  | q :: r => (⟨r⟩, [.paired (some q)])

def step (st : St) : Ev → St × List Obs
  | .query q => stepQuery denied addFirst st q
  | .dbDone => stepDone st

def run : St → List Ev → St × List Obs
  | st, [] => (st, [])
  | st, e :: es =>
    let (st', o) := step denied addFirst st e
    let (st'', os) := run st' es
    (st'', o ++ os)

/-- Statements that reached the database, in order. -/
def forwarded : List Obs → List String
  | [] => []
  | .forwardDb q :: r => q :: forwarded r
  | _ :: r => forwarded r

/-- The statements database responses were processed with, in order. -/
def pairedWith : List Obs → List (Option String)
  | [] => []
  | .paired q :: r => q :: pairedWith r
  | _ :: r => pairedWith r

/-- Number of error+ready pairs sent to the client. -/
def clientErrors : List Obs → Nat
  | [] => 0
  | .clientError :: .clientReady :: r => clientErrors r + 1
  | _ :: r => clientErrors r

/-- The statements of an event list the firewall lets through, in order. -/
def allowedOf : List Ev → List String
  | [] => []
  | .query q :: r => if denied q then allowedOf r else q :: allowedOf r
  | .dbDone :: r => allowedOf r

def deniedCount : List Ev → Nat
  | [] => 0
  | .query q :: r => (if denied q then 1 else 0) + deniedCount r
  | .dbDone :: r => deniedCount r

def doneCount : List Ev → Nat
  | [] => 0
  | .query _ :: r => doneCount r
  | .dbDone :: r => doneCount r + 1

/-- The database answers only statements it received: with `n` statements outstanding, no prefix of the
event list contains more `dbDone` than `n` + the statements forwarded so far. -/
def wellFormed : Nat → List Ev → Bool
  | _, [] => true
  | n, .query q :: r => wellFormed (if denied q then n else n + 1) r
  | n, .dbDone :: r => n > 0 && wellFormed (n - 1) r

/-- "the statement is remembered only after the censor": in the ordered call list of the `SimpleQueryPacket` case no
`Add` comes before `handleQueryPacket` (and both occur). -/
def addAfterCensor (calls : List String) : Bool :=
  (calls.takeWhile (· != "handleQueryPacket")).all (· != "Add") && calls.contains "handleQueryPacket" && calls.contains "Add"

/-! ### MySQL (`response_proxy.go`, cases CommandQuery / CommandStatementPrepare)

No queue: a denied statement gets one ERR packet and the loop continues before a response handler is installed and
before the packet is written to the database; an allowed one is written to the database. -/

def myStep (q : String) : List Obs :=
  if denied q then [.clientError] else [.forwardDb q]

def myRun : List String → List Obs
  | [] => []
  | q :: qs => myStep denied q ++ myRun qs

theorem forwarded_myRun (qs : List String) : forwarded (myRun denied qs) = qs.filter (fun q => !denied q) := by
  induction qs with
  | nil => rfl
  | cons q qs ih =>
    simp only [myRun, myStep]
    cases hd : denied q <;> simp [forwarded, ih, hd]

/-! ## lemmas -/

@[simp] theorem forwarded_append (a b : List Obs) : forwarded (a ++ b) = forwarded a ++ forwarded b := by
  induction a with
  | nil => rfl
  | cons x xs ih => cases x <;> simp [forwarded, ih]

@[simp] theorem pairedWith_append (a b : List Obs) : pairedWith (a ++ b) = pairedWith a ++ pairedWith b := by
  induction a with
  | nil => rfl
  | cons x xs ih => cases x <;> simp [pairedWith, ih]

/-- The database-side trace is exactly the allowed statements – whatever the order of `Add`. -/
theorem forwarded_run (st : St) (evs : List Ev) :
    forwarded (run denied addFirst st evs).2 = allowedOf denied evs := by
  induction evs generalizing st with
  | nil => rfl
  | cons e es ih =>
    cases e with
    | query q =>
      simp only [run, step, stepQuery, allowedOf]
      cases addFirst <;> cases hd : denied q <;> simp [forwarded, ih]
    | dbDone =>
      simp only [run, step, stepDone, allowedOf]
      cases st.pending <;> simp [forwarded, ih]

theorem clientErrors_run (st : St) (evs : List Ev) :
    clientErrors (run denied addFirst st evs).2 = deniedCount denied evs := by
  induction evs generalizing st with
  | nil => rfl
  | cons e es ih =>
    cases e with
    | query q =>
      simp only [run, step, stepQuery, deniedCount]
      cases addFirst <;> cases hd : denied q <;> simp [clientErrors, ih] <;> omega
    | dbDone =>
      simp only [run, step, stepDone, deniedCount]
      cases st.pending <;> simp [clientErrors, ih]

/-- With `Add` after the firewall: the queue always holds the allowed statements not yet answered, and the
responses are processed with the allowed statements in order. -/
theorem aligned_run (st : St) (evs : List Ev) (hwf : wellFormed denied st.pending.length evs = true) :
    (run denied false st evs).1.pending = (st.pending ++ allowedOf denied evs).drop (doneCount evs)
    ∧ pairedWith (run denied false st evs).2
        = ((st.pending ++ allowedOf denied evs).take (doneCount evs)).map some := by
  induction evs generalizing st with
  | nil => simp [run, allowedOf, doneCount, pairedWith]
  | cons e es ih =>
    cases e with
    | query q =>
      simp only [run, step, stepQuery, allowedOf, doneCount, wellFormed] at hwf ⊢
      cases hd : denied q
      · simp only [hd] at hwf
        have := ih ⟨st.pending ++ [q]⟩ (by simpa using hwf)
        simpa [pairedWith, hd] using this
      · simp only [hd] at hwf
        have := ih st (by simpa using hwf)
        simpa [pairedWith, hd] using this
    | dbDone =>
      simp only [wellFormed, Bool.and_eq_true, decide_eq_true_eq] at hwf
      obtain ⟨hpos, hwf⟩ := hwf
      match hp : st.pending with
      | [] => simp [hp] at hpos
      | p :: ps =>
        have hlen : ps.length = st.pending.length - 1 := by simp [hp]
        have := ih ⟨ps⟩ (by simpa [hlen] using hwf)
        simp only [run, step, stepDone, hp, doneCount, allowedOf]
        simpa [pairedWith] using this

end AcraModel.Censor.Session
