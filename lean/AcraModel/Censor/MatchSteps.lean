import AcraModel.Censor.MatchProof
/-! # `match_generalise`: every well-typed step of a field-by-field comparator succeeds; the comparators -/
namespace AcraModel.Censor.Match
open AcraModel AcraModel.Censor Generated.CensorTable

/-! ## every well-typed step is good -/

/-- the rank-1 functions on the node itself (proved before the field-by-field comparators) -/
def H1 (k : String) (ks : List Tree) (p : Tree) (f : Nat) : Prop :=
  ∀ c, rank1Fns.contains c = true → (domOf c).kinds.contains k = true → evalFn f c (.node k ks) p = true

theorem pair_good_none {aw : Bool} {k c : String} {ks ps : List Tree} {f : Nat} {esc : String → Tree → Bool} {a b : Opnd}
    (cx : Ctx aw k ks ps f) (h1 : H1 k ks (.node k ps) f)
    (hty : pairTyped k .none c a b = true) (hne : (c == "!=") = false) (hacc : pairAcc k ks c a = true) :
    (atomAt (evalFn f) esc (.node k ks) (.node k ps) none (.cmp c a b)).notFalse = true := by
  simp only [pairTyped, Bool.or_eq_true, Bool.and_eq_true, List.any_eq_true, beq_iff_eq, bne_iff_ne, ne_eq] at hty
  rcases hty with (⟨⟨⟨ha, hb⟩, hef⟩, hw⟩ | ⟨fn, _, ⟨⟨⟨⟨⟨ha, hb⟩, hfn⟩, _⟩, hws⟩, hok⟩⟩) | ⟨⟨⟨ha, hb⟩, hc⟩, hd⟩
  · subst ha; subst hb
    have hne' : c ≠ "!=" := by simpa using hne
    split at hw
    · next hr =>
      have := whole_rigid hw cx.wfq cx.gen
      subst this
      refine cmp_pass (selO_qWhole ..) (selO_pWhole ..) ?_
      rcases hr with (h | h) | h
      · subst h; simp [opCmp]
      · subst h; simp [opCmp]
      · exact absurd h hne'
    · next hr =>
      simp only [Bool.and_eq_true] at hw
      refine cmp_pass (selO_qWhole ..) (selO_pWhole ..) ?_
      simp only [not_or] at hr
      have e1 : (c == "strings.EqualFold") = false := by simpa using hef
      have e2 : (c == "reflect.DeepEqual") = false := by simpa using hr.1.1
      have e3 : (c == "bytes.Equal") = false := by simpa using hr.1.2
      simp only [opCmp, e1, e2, e3, Bool.false_eq_true, if_false, Bool.or_self]
      exact h1 c hw.1 hw.2
  · subst ha; subst hb
    exact field_cmp_good cx hfn hws hok hne hacc
  · subst ha; subst hb; subst hc
    exact compliant_good cx hd

theorem ne_good_none {aw : Bool} {k : String} {ks ps : List Tree} {f : Nat} {esc : String → Tree → Bool} {a b : Opnd}
    (cx : Ctx aw k ks ps f) (hty : pairTyped k .none "!=" a b = true) :
    (atomAt (evalFn f) esc (.node k ks) (.node k ps) none (.ne a b)).notFalse = true := by
  simp only [pairTyped, Bool.or_eq_true, Bool.and_eq_true, List.any_eq_true, beq_iff_eq, bne_iff_ne, ne_eq] at hty
  rcases hty with (⟨⟨⟨ha, hb⟩, _⟩, hw⟩ | ⟨fn, _, ⟨⟨⟨⟨⟨ha, hb⟩, hfn⟩, _⟩, hws⟩, hok⟩⟩) | ⟨⟨⟨_, _⟩, hc⟩, _⟩
  · subst ha; subst hb
    simp only [or_true, if_true] at hw
    have := whole_rigid hw cx.wfq cx.gen
    subst this
    exact ne_pass (selO_qWhole ..) (selO_pWhole ..)
  · subst ha; subst hb
    exact field_ne_good cx hfn hws hok
  · exact absurd hc (by decide)

theorem pair_good_whole {aw : Bool} {k c : String} {ks ps : List Tree} {f : Nat} {esc : String → Tree → Bool} {a b : Opnd}
    (cx : Ctx aw k ks ps f) (hty : pairTyped k .whole c a b = true) (hne : (c == "!=") = false) (hacc : pairAcc k ks c a = true)
    (i : Nat) (hi : i < ps.length) :
    (atomAt (evalFn f) esc (.node k ks) (.node k ps) (some i) (.cmp c a b)).notFalse = true := by
  simp only [pairTyped, Bool.and_eq_true, Bool.or_eq_true, Option.isNone_iff_eq_none, beq_iff_eq, Bool.not_eq_true', bne_iff_ne, ne_eq] at hty
  obtain ⟨hft, hty⟩ := hty
  rcases hty with ⟨⟨⟨⟨⟨ha, hb⟩, hpl⟩, hnb⟩, _⟩, hkeep⟩ | hty
  · subst ha; subst hb
    exact elem_cmp_good cx hpl hnb hne hkeep hacc i hi
  · cases hn : namedTy k with
    | none => simp [hn] at hty
    | some oe =>
      cases oe with
      | none => simp [hn] at hty
      | some e =>
        simp only [hn] at hty
        cases hek : elemKindOf (.named k) with
        | none => simp [hek] at hty
        | some ek =>
          simp only [hek, Bool.and_eq_true, List.isEmpty_iff, bne_iff_ne, ne_eq, List.any_eq_true, beq_iff_eq] at hty
          obtain ⟨⟨⟨⟨⟨hpl, hph⟩, hsel⟩, _⟩, _⟩, fn, _, ⟨⟨⟨⟨ha, hb⟩, hfn⟩, _⟩, hok⟩⟩ := hty
          subst ha; subst hb
          exact elemField_cmp_good cx hpl hft hek hph hsel hfn hok hne hacc i hi

theorem ne_good_whole {aw : Bool} {k : String} {ks ps : List Tree} {f : Nat} {esc : String → Tree → Bool} {a b : Opnd}
    (cx : Ctx aw k ks ps f) (hty : pairTyped k .whole "!=" a b = true) (hacc : pairAcc k ks "!=" a = true)
    (i : Nat) (hi : i < ps.length) :
    (atomAt (evalFn f) esc (.node k ks) (.node k ps) (some i) (.ne a b)).notFalse = true := by
  simp only [pairTyped, Bool.and_eq_true, Bool.or_eq_true, Option.isNone_iff_eq_none, beq_iff_eq, Bool.not_eq_true', bne_iff_ne, ne_eq] at hty
  obtain ⟨hft, hty⟩ := hty
  rcases hty with ⟨⟨⟨⟨⟨_, _⟩, _⟩, _⟩, hc⟩, _⟩ | hty
  · exact absurd trivial hc
  · cases hn : namedTy k with
    | none => simp [hn] at hty
    | some oe =>
      cases oe with
      | none => simp [hn] at hty
      | some e =>
        simp only [hn] at hty
        cases hek : elemKindOf (.named k) with
        | none => simp [hek] at hty
        | some ek =>
          simp only [hek, Bool.and_eq_true, List.isEmpty_iff, bne_iff_ne, ne_eq, List.any_eq_true, beq_iff_eq] at hty
          obtain ⟨⟨⟨⟨⟨hpl, hph⟩, hsel⟩, _⟩, _⟩, fn, _, ⟨⟨⟨⟨ha, hb⟩, hfn⟩, _⟩, hok⟩⟩ := hty
          subst ha; subst hb
          exact elemField_ne_good cx hpl hft hek hph hsel hfn hok hacc i hi

end AcraModel.Censor.Match

namespace AcraModel.Censor.Match
open AcraModel AcraModel.Censor Generated.CensorTable

theorem atom_good_none {aw : Bool} {k : String} {ks ps : List Tree} {f : Nat} (cx : Ctx aw k ks ps f)
    (h1 : H1 k ks (.node k ps) f) {a : AStep} (hty : atomTyped k .none a = true) (hacc : atomAcc k ks a = true) :
    (atomAt (evalFn f) (escEval (evalFn f)) (.node k ks) (.node k ps) none a).notFalse = true := by
  cases a with
  | cast onQ k' =>
    simp only [atomTyped, Bool.and_eq_true, beq_iff_eq] at hty
    cases onQ <;> simp [atomAt, Tree.kind, hty.2, Res.notFalse]
  | shortcut o ph =>
    simp only [atomTyped, Bool.and_eq_true, beq_iff_eq] at hty
    obtain ⟨⟨_, ho⟩, hs⟩ := hty
    subst ho
    cases hp : placeholderStmt ph with
    | none => simp [hp] at hs
    | some c =>
      simp only [atomAt, selO_pWhole, hp]
      split <;> rfl
  | nilboth => simp [atomTyped] at hty
  | nileither => simp [atomTyped] at hty
  | len a b =>
    simp only [atomTyped, Bool.and_eq_true, Bool.or_eq_true, List.any_eq_true, beq_iff_eq, bne_iff_ne, ne_eq] at hty
    rcases hty.2 with ⟨⟨⟨ha, hb⟩, hpl⟩, _⟩ | ⟨fn, _, ⟨⟨⟨⟨⟨ha, hb⟩, hfn⟩, _⟩, hws⟩, hl⟩⟩
    · subst ha; subst hb
      exact whole_len_good cx hpl
    · subst ha; subst hb
      cases hd : declTy k fn with
      | none => simp [hd] at hl
      | some ty =>
        cases hlk : listKindOf ty with
        | none => simp [hd, hlk] at hl
        | some l =>
          simp only [hd, Option.bind_some, hlk] at hl
          exact field_len_good cx hfn hd hws hlk hl
  | ne a b => exact ne_good_none cx hty
  | cmp c a b =>
    simp only [atomTyped, Bool.and_eq_true, bne_iff_ne, ne_eq] at hty
    exact pair_good_none cx h1 hty.2 (by simpa using hty.1) hacc
  | cmpNeg _ _ _ => simp [atomTyped] at hty
  | cmpEsc e ea c a b =>
    simp only [atomTyped, Bool.and_eq_true, beq_iff_eq, Bool.not_eq_true', bne_iff_ne, ne_eq, List.any_eq_true, Option.isSome_iff_ne_none] at hty
    obtain ⟨⟨⟨⟨⟨_, he⟩, hnb⟩, hne⟩, hkeep⟩, fn, _, ⟨⟨⟨⟨⟨ha, hb⟩, hea⟩, hfn⟩, _⟩, hd⟩⟩ := hty
    subst he; subst ha; subst hb; subst hea
    exact field_esc_good cx hfn (by simpa [Option.isSome_iff_ne_none] using hd) hnb (by simpa using hne) hkeep hacc
  | bad => simp [atomTyped] at hty

theorem atom_good_whole {aw : Bool} {k : String} {ks ps : List Tree} {f : Nat} {esc : String → Tree → Bool} (cx : Ctx aw k ks ps f)
    {a : AStep} (hty : atomTyped k .whole a = true) (hacc : atomAcc k ks a = true) (i : Nat) (hi : i < ps.length) :
    (atomAt (evalFn f) esc (.node k ks) (.node k ps) (some i) a).notFalse = true := by
  cases a with
  | ne a b => exact ne_good_whole cx hty hacc i hi
  | cmp c a b =>
    simp only [atomTyped, Bool.and_eq_true, bne_iff_ne, ne_eq] at hty
    exact pair_good_whole cx hty.2 (by simpa using hty.1) hacc i hi
  | cast _ _ => simp [atomTyped] at hty
  | shortcut _ _ => simp [atomTyped] at hty
  | nilboth => simp [atomTyped] at hty
  | nileither => simp [atomTyped] at hty
  | len _ _ => simp [atomTyped] at hty
  | cmpNeg _ _ _ => simp [atomTyped] at hty
  | cmpEsc _ _ _ _ _ => simp [atomTyped] at hty
  | bad => simp [atomTyped] at hty

theorem atom_good_field {aw : Bool} {k f0 l : String} {ks ps : List Tree} {f : Nat} {esc : String → Tree → Bool} {ty : Ty} (cx : Ctx aw k ks ps f)
    (hfn : f0 ≠ "") (hd : declTy k f0 = some ty) (hws : ((Tree.fieldIndex k f0).all fun j => !whereSlot true k j) = true)
    (hl : listKindOf ty = some l) (hpl : plainList l = true)
    {a : AStep} (hty : atomTyped k (.field f0) a = true) (hacc : atomAcc k ks a = true)
    {yl : Tree} (hy : (Tree.node k ps).field f0 = some yl) (i : Nat) (hi : i < yl.kids.length) :
    (atomAt (evalFn f) esc (.node k ks) (.node k ps) (some i) a).notFalse = true := by
  cases a with
  | cmp c a b =>
    simp only [atomTyped, pairTyped, Bool.and_eq_true, bne_iff_ne, ne_eq, beq_iff_eq, Bool.not_eq_true'] at hty
    obtain ⟨_, ⟨⟨⟨⟨⟨⟨ha, hb⟩, _⟩, _⟩, hnb⟩, hne⟩, hkeep⟩, _⟩ := hty
    subst ha; subst hb
    exact fieldElem_cmp_good cx hfn hd hws hl hpl hnb (by simpa using hne) hkeep hacc hy i hi
  | ne a b => simp [atomTyped, pairTyped] at hty
  | cast _ _ => simp [atomTyped] at hty
  | shortcut _ _ => simp [atomTyped] at hty
  | nilboth => simp [atomTyped] at hty
  | nileither => simp [atomTyped] at hty
  | len _ _ => simp [atomTyped] at hty
  | cmpNeg _ _ _ => simp [atomTyped] at hty
  | cmpEsc _ _ _ _ _ => simp [atomTyped] at hty
  | bad => simp [atomTyped] at hty

/-- **every well-typed step of a comparator is good** on a well-typed node and a node-by-node generalisation of it -/
theorem cstep_good {aw : Bool} {k : String} {ks ps : List Tree} {f : Nat} (cx : Ctx aw k ks ps f)
    (h1 : H1 k ks (.node k ps) f) {s : CStep} (hty : cstepTyped k s = true) (hacc : cstepAcc k ks s = true) :
    cstepGood (evalFn f) (escEval (evalFn f)) (.node k ks) (.node k ps) s := by
  cases s with
  | atom a => exact atom_good_none cx h1 hty hacc
  | range o body =>
    simp only [cstepTyped, Bool.or_eq_true, Bool.and_eq_true, beq_iff_eq, List.all_eq_true, List.any_eq_true, bne_iff_ne, ne_eq] at hty
    simp only [cstepAcc, List.all_eq_true] at hacc
    rcases hty with ⟨⟨⟨ho, _⟩, _⟩, hb⟩ | ⟨f0, _, ⟨⟨⟨⟨⟨ho, hfc⟩, hfn⟩, hws⟩, hl⟩, hb⟩⟩
    · subst ho
      exact ⟨.node k ps, selO_pWhole .., fun i hi a ha => atom_good_whole cx (hb a ha) (hacc a ha) i hi⟩
    · subst ho
      cases hd : declTy k f0 with
      | none => simp [hd] at hl
      | some ty =>
        cases hlk : listKindOf ty with
        | none => simp [hd, hlk] at hl
        | some l =>
          simp only [hd, Option.bind_some, hlk] at hl
          obtain ⟨xl, yl, _, hy, _, _, _, _, _⟩ := locate_list cx hd hws hlk hl
          refine ⟨yl, ?_, fun i hi a ha => atom_good_field cx hfn hd hws hlk hl (hb a ha) (hacc a ha) hy i hi⟩
          rw [selO_pField _ _ _ hfc]; exact hy

end AcraModel.Censor.Match
