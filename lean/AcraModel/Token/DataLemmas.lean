import AcraModel.Token.Data
/-!
Range lemmas for the text ↔ integer conversion of `DataTokenizer` (C10).
-/
namespace AcraModel.Token
open AcraModel Generated.Token

/-- `strconv.ParseInt(s, 10, bits)` never returns a value outside the `bits`-bit signed range -/
theorem parseInt_range (bits : Nat) (s : Bytes) (i : Int) (h : parseInt bits s = some i) :
    -((2 ^ (bits - 1) : Nat) : Int) ≤ i ∧ i < ((2 ^ (bits - 1) : Nat) : Int) := by
  unfold parseInt at h
  have hP : 0 < 2 ^ (bits - 1) := Nat.pow_pos (by decide)
  generalize 2 ^ (bits - 1) = P at *
  split at h
  next neg ds _ =>
  split at h
  · cases h
  · cases neg with
    | true =>
      simp only [if_true] at h
      split at h
      · next hle => cases h; constructor <;> omega
      · cases h
    | false =>
      simp only [Bool.false_eq_true, if_false] at h
      split at h
      · next hlt => cases h; constructor <;> omega
      · cases h

theorem encodeIntLE4 (i : Int) : encodeIntLE 4 i = leBytes 4 (i % 4294967296).toNat := rfl

/-- a 32-bit value survives `int32(i)` + little-endian encoding + decoding unchanged (no wrap) -/
theorem decode_encode_int32 (i : Int) (hlo : -2147483648 ≤ i) (hhi : i < 2147483648) :
    decodeIntLE (encodeIntLE 4 i) = i := by
  rw [encodeIntLE4]
  have h0 : (0 : Int) ≤ i % 4294967296 := Int.emod_nonneg _ (by decide)
  have h2 : i % 4294967296 < 4294967296 := Int.emod_lt_of_pos _ (by decide)
  have hc : ((i % 4294967296).toNat : Int) = i % 4294967296 := Int.toNat_of_nonneg h0
  have hlt : (i % 4294967296).toNat < 256 ^ 4 := by
    have : (256 : Nat) ^ 4 = 4294967296 := by decide
    omega
  unfold decodeIntLE
  simp only [leBytes_length, leVal_leBytes_of_lt 4 _ hlt]
  have e1 : (2 : Nat) ^ (8 * 4 - 1) = 2147483648 := by decide
  have e2 : (2 : Nat) ^ (8 * 4) = 4294967296 := by decide
  rw [e1, e2]
  split <;> omega

end AcraModel.Token
