import AcraModel.Token.Gen
/-!
# The pseudoanonymizer as a machine of atomic store steps (C10) – `pseudonymization/tokenizer.go`

One call of `Anonymize`, `AnonymizeConsistently` or `Deanonymize` is a *thread*: a small program whose
every step performs exactly one store call (`Get` or `Save`) – everything between two store calls is
local computation. A sequential call is the thread run to completion; concurrent calls interleave
steps (`Concurrent.lean`). Program counter ↔ code position:

* `getH tried`   – `value, err := p.storage.Get(digestKey, context)` in `AnonymizeConsistently`
                   (`tried` = `triedGetOnce`)
* `gen i tried`  – iteration `i` of the loop in `generateNewValue`: draw a candidate, `Save(t.key, value)`
* `saveH tok tried` – `p.storage.Save(digestKey, context, encodedNewValue)`
* `look`         – `p.storage.Get(key, context)` in `Deanonymize`
* `done r`       – returned
-/
namespace AcraModel.Token
open AcraModel Generated.Token

inductive Res where
  | ok (b : Bytes) | err | panic
deriving DecidableEq, Repr

inductive Kind where
  | anon (consistent : Bool) | deanon
deriving DecidableEq, Repr

/-- A request; `v` is the encoded value (for `deanon`: the encoded token). Integers are encoded as in
`encodeToBytes` (4 / 8 bytes little endian). -/
structure Req where
  kind : Kind
  ctx : Ctx
  ty : TokenType
  v : Bytes

inductive PC where
  | getH (tried : Bool)
  | gen (i : Nat) (tried : Bool)
  | saveH (tok : Bytes) (tried : Bool)
  | look
  | done (r : Res)
deriving DecidableEq, Repr

structure Thread where
  req : Req
  pc : PC
  /-- the random draws of the n-th candidate generation of this call -/
  rnd : Nat → Draws
  /-- candidates generated so far -/
  drawn : Nat

def Thread.start (req : Req) (rnd : Nat → Draws) : Thread :=
  { req, rnd, drawn := 0,
    pc := match req.kind with
      | .anon true => .getH false
      | .anon false => .gen 0 false
      | .deanon => .look }

def Thread.result (t : Thread) : Option Res :=
  match t.pc with | .done r => some r | _ => none

/-- the length check at the head of `decodeInt32` / `decodeInt64` (regenerated; 0 = none) -/
def intLenCheck (name : String) : Nat :=
  ((decodeIntLengthChecks.find? fun p => p.1 == name).map (·.2)).getD 0

/-- `decodeInt32` / `decodeInt64` (`pseudonymization/utils.go`) on a STORED value of any length,
followed by re-encoding: `if len(data) != K { return 0, err }`, then `binary.LittleEndian.UintNN`, which
panics on a slice shorter than `width` and ignores what follows the first `width` bytes. -/
def decodeInt (name : String) (width : Nat) (d : Bytes) : Res :=
  if intLenCheck name ≠ 0 ∧ d.length ≠ intLenCheck name then .err
  else if d.length < width then .panic
  else .ok (d.take width)

/-- `bytesToGolangValue` followed by re-encoding: what the tokenizer makes of the payload of a record it
read from the token store. Strings, e-mails and byte strings are handed out as stored, whatever their
length; integers go through `decodeInt32` / `decodeInt64`. -/
def decodeAs (ty : TokenType) (d : Bytes) : Res :=
  match ty with
  | .int32 => decodeInt "decodeInt32" 4 d
  | .int64 => decodeInt "decodeInt64" 8 d
  | _ => .ok d

/-- payload of a `t.` record: `TokenValue{Value, Type}`. The protobuf framing is abstracted to the
pair (type code, value) – `proto.Unmarshal ∘ proto.Marshal = id` is assumed, not modelled. -/
def encTV (ty : TokenType) (v : Bytes) : Bytes := UInt8.ofNat ty.code :: v

/-- what `Deanonymize` does with a found `t.` record -/
def decTV (ty : TokenType) (data : Bytes) : Res :=
  match data with
  | [] => .err   -- TokenValue{} has Type Unknown ≠ requested type
  | c :: v => if c = UInt8.ofNat ty.code then decodeAs ty v else .err

/-- observable store access of a step (for trace validation) -/
inductive Ev where
  | get (k : Key) (r : GetRes)
  | save (k : Key) (ok : Bool)
  | saveFail (k : Key)
  | none
deriving DecidableEq, Repr

/-- after a failed attempt `i` of `generateNewValue`: next iteration or `ErrGenerationRandomValue` -/
def nextGen (i : Nat) (tried : Bool) : PC :=
  if i + 1 < loopLimit then .gen (i + 1) tried else .done .err

/-- One atomic step of a thread against the store. `enc` says whether the store is wrapped with
`storage.WrapStorageWithEncryption`: the wrapper encrypts the payload before `Save` and decrypts after
`Get` (transparent: `dec ∘ enc = id` is assumed from C01), except that an EMPTY payload cannot be
encrypted (Themis rejects empty messages) – `Save` then fails without touching the store. The only
empty payload that occurs is the `h.` record of an empty string/bytes value (its token is empty). -/
def stepThread (c : CryptoOps) (enc : Bool) (s : Store) (t : Thread) : Store × Thread × Ev :=
  let q := t.req
  match t.pc with
  | .done _ => (s, t, .none)
  | .getH tried =>
    let k := hKey c q.ctx q.ty q.v
    match s.get k with
    | .found d => (s, { t with pc := .done (decodeAs q.ty d) }, .get k (.found d))
    | r => (s, { t with pc := if 0 < loopLimit then .gen 0 tried else .done .err }, .get k r)
  | .gen i tried =>
    match genToken q.ty q.v.length (t.rnd t.drawn) with
    | .panic | .err => (s, { t with pc := .done .panic, drawn := t.drawn + 1 }, .none)
    | .ok tok =>
      let k := tKey c q.ctx q.ty tok
      match s.save k (encTV q.ty q.v) with
      | some s' =>
        let pc := match q.kind with
          | .anon true => PC.saveH tok tried
          | _ => PC.done (.ok tok)
        (s', { t with pc, drawn := t.drawn + 1 }, .save k true)
      | none => (s, { t with pc := nextGen i tried, drawn := t.drawn + 1 }, .save k false)
  | .saveH tok tried =>
    let k := hKey c q.ctx q.ty q.v
    if enc && tok.isEmpty then (s, { t with pc := .done .err }, .saveFail k) else
    match s.save k tok with
    | some s' => (s', { t with pc := .done (.ok tok) }, .save k true)
    | none => (s, { t with pc := if tried then .done .err else .getH true }, .save k false)
  | .look =>
    let k := tKey c q.ctx q.ty q.v
    match s.get k with
    | .found d => (s, { t with pc := .done (decTV q.ty d) }, .get k (.found d))
    | r => (s, { t with pc := .done (.ok q.v) }, .get k r)

end AcraModel.Token
