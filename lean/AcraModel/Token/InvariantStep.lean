import AcraModel.Token.Invariant
/-!
Preservation of `Inv` by every atomic step, hence along every schedule (C10).
-/
namespace AcraModel.Token
open AcraModel Generated.Token

theorem get_found_dataAt {s : Store} {k : Key} {d : Bytes} (h : s.get k = .found d) : dataAt s k = some d := by
  unfold Store.get at h
  unfold dataAt
  cases hs : s k with
  | none => simp [hs] at h
  | some r =>
    simp only [hs] at h
    split at h
    · cases h
    · cases h; rfl

theorem loopLimit_pos : 0 < loopLimit := by decide

/-- **Every atomic step of every thread preserves the invariant and never changes a payload.** -/
theorem stepThread_inv (c : CryptoOps) (hi : HashInj c) (enc : Bool) (s : Store) (t : Thread)
    (hl : Link c s) (ht : TInv c s t) (hw : WF t) :
    Mono s (stepThread c enc s t).1 ∧ Link c (stepThread c enc s t).1 ∧
      TInv c (stepThread c enc s t).1 (stepThread c enc s t).2.1 ∧ WF (stepThread c enc s t).2.1 := by
  rcases t with ⟨⟨kind, x, ty, v⟩, pc, rnd, drawn⟩
  cases pc with
  | done r => exact ⟨Mono.refl s, hl, ht, hw⟩
  | look =>
    have hk : kind = .deanon := hw
    subst hk
    simp only [stepThread]
    cases hg : s.get (tKey c x ty v) with
    | found d =>
      refine ⟨Mono.refl s, hl, ?_, trivial⟩
      simp only [TInv]
      cases decTV ty d <;> trivial
    | notFound => exact ⟨Mono.refl s, hl, trivial, trivial⟩
    | disabled => exact ⟨Mono.refl s, hl, trivial, trivial⟩
  | getH tried =>
    have hk : kind = .anon true := hw
    subst hk
    simp only [stepThread]
    cases hg : s.get (hKey c x ty v) with
    | found d =>
      have hd := get_found_dataAt hg
      have := hl x ty v d hd
      refine ⟨Mono.refl s, hl, ?_, trivial⟩
      simp only [TInv, this.1]
      exact ⟨this.2, fun _ => ⟨d, hd, this.1⟩⟩
    | notFound =>
      simp only [loopLimit_pos, if_true]
      exact ⟨Mono.refl s, hl, trivial, ⟨true, rfl⟩⟩
    | disabled =>
      simp only [loopLimit_pos, if_true]
      exact ⟨Mono.refl s, hl, trivial, ⟨true, rfl⟩⟩
  | gen i tried =>
    obtain ⟨b, hk⟩ : ∃ b, kind = .anon b := hw
    subst hk
    simp only [stepThread]
    cases hgen : genToken ty v.length (rnd drawn) with
    | panic => exact ⟨Mono.refl s, hl, trivial, trivial⟩
    | err => exact ⟨Mono.refl s, hl, trivial, trivial⟩
    | ok tok =>
      simp only []
      cases hs : s.save (tKey c x ty tok) (encTV ty v) with
      | none =>
        refine ⟨Mono.refl s, hl, ?_, ?_⟩
        · simp only [nextGen]; split <;> trivial
        · simp only [nextGen]; split
          · exact ⟨b, rfl⟩
          · trivial
      | some s' =>
        have hm := save_mono hs
        have hlink : Link c s' := by
          intro x' ty' v' d hd
          rw [save_dataAt_other hs (Ne.symm (tKey_ne_hKey c x x' ty ty' tok v'))] at hd
          have := hl x' ty' v' d hd
          exact ⟨this.1, hm _ _ this.2⟩
        cases b with
        | true => exact ⟨hm, hlink, ⟨save_dataAt_same hs, decodeAs_gen hgen⟩, rfl⟩
        | false => exact ⟨hm, hlink, ⟨save_dataAt_same hs, fun h => by cases h⟩, trivial⟩
  | saveH tok tried =>
    have hk : kind = .anon true := hw
    subst hk
    obtain ⟨htrec, hdec⟩ := ht
    simp only [stepThread]
    split
    · exact ⟨Mono.refl s, hl, trivial, trivial⟩
    · cases hs : s.save (hKey c x ty v) tok with
      | none =>
        cases tried with
        | true => exact ⟨Mono.refl s, hl, trivial, trivial⟩
        | false => exact ⟨Mono.refl s, hl, trivial, rfl⟩
      | some s' =>
        have hm := save_mono hs
        refine ⟨hm, ?_, ⟨hm _ _ htrec, fun _ => ⟨tok, save_dataAt_same hs, hdec⟩⟩, trivial⟩
        intro x' ty' v' d hd
        by_cases hk : hKey c x' ty' v' = hKey c x ty v
        · rw [hk, save_dataAt_same hs] at hd
          cases hd
          obtain ⟨hx, hty, hv⟩ := hKey_inj c hi hk
          subst hty; subst hv
          refine ⟨hdec, ?_⟩
          rw [(keys_of_bytes_eq c hx ty' tok).1]
          exact hm _ _ htrec
        · rw [save_dataAt_other hs hk] at hd
          have := hl x' ty' v' d hd
          exact ⟨this.1, hm _ _ this.2⟩

/-! ### the system -/

/-- a schedule event that removes no record (tokenize/detokenize steps, new requests, and
maintenance passes that only enable/disable) -/
def NoRemove : SEv → Prop
  | .visit act => ∀ k r, act k r ≠ .remove
  | _ => True

theorem start_TInv_WF (c : CryptoOps) (s : Store) (req : Req) (rnd : Nat → Draws) :
    TInv c s (Thread.start req rnd) ∧ WF (Thread.start req rnd) := by
  rcases req with ⟨kind, x, ty, v⟩
  cases kind with
  | anon b => cases b <;> exact ⟨trivial, by simp [WF, Thread.start]⟩
  | deanon => exact ⟨trivial, rfl⟩

theorem Sys.step_inv (c : CryptoOps) (hi : HashInj c) (enc : Bool) (σ : Sys) (ev : SEv)
    (h : Inv c σ) (hnr : NoRemove ev) : Inv c (σ.step c enc ev) ∧ Mono σ.store (σ.step c enc ev).store := by
  cases ev with
  | run i =>
    simp only [Sys.step]
    cases hti : σ.threads[i]? with
    | none => exact ⟨h, Mono.refl _⟩
    | some t =>
      have hmem : t ∈ σ.threads := List.mem_of_getElem? hti
      have := stepThread_inv c hi enc σ.store t h.link (h.thr t hmem).1 (h.thr t hmem).2
      refine ⟨⟨this.2.1, ?_⟩, this.1⟩
      intro u hu
      rcases List.mem_or_eq_of_mem_set hu with hu | hu
      · exact ⟨(h.thr u hu).1.mono this.1, (h.thr u hu).2⟩
      · subst hu; exact this.2.2
  | visit act =>
    have hd : ∀ k, dataAt (σ.store.visit act) k = dataAt σ.store k := visit_dataAt σ.store act hnr
    have hm : Mono σ.store (σ.store.visit act) := fun k x hx => by rw [hd]; exact hx
    refine ⟨⟨?_, fun t ht => ⟨(h.thr t ht).1.mono hm, (h.thr t ht).2⟩⟩, hm⟩
    intro x ty v d hdd
    simp only [Sys.step] at hdd
    rw [hd] at hdd
    have := h.link x ty v d hdd
    exact ⟨this.1, hm _ _ this.2⟩
  | spawn req rnd =>
    refine ⟨⟨h.link, ?_⟩, Mono.refl _⟩
    intro t ht
    simp only [Sys.step] at ht
    rcases List.mem_append.mp ht with ht | ht
    · exact h.thr t ht
    · simp only [List.mem_singleton] at ht
      subst ht
      exact start_TInv_WF c σ.store req rnd

/-- **The invariant holds after EVERY schedule** of atomic store steps, new requests and non-removing
maintenance passes (induction over the schedule). -/
theorem Sys.runSched_inv (c : CryptoOps) (hi : HashInj c) (enc : Bool) (sched : List SEv) :
    ∀ σ : Sys, Inv c σ → (∀ ev ∈ sched, NoRemove ev) → Inv c (σ.runSched c enc sched) := by
  induction sched with
  | nil => intro σ h _; exact h
  | cons ev r ih =>
    intro σ h hnr
    exact ih _ (Sys.step_inv c hi enc σ ev h (hnr ev List.mem_cons_self)).1 (fun e he => hnr e (List.mem_cons_of_mem _ he))

end AcraModel.Token
