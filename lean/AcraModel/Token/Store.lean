import AcraModel.Basic.Bytes
import AcraModel.Crypto.Ops
import AcraModel.Generated.Token
/-!
# Token store (C10)

Model of `pseudonymization/storage/{memory,boltdb}.go` and of the identifiers computed in
`pseudonymization/tokenizer.go` / `pseudonymization/common/common.go`.

* The store is a *context-scoped* map `(aggregated context, id) ↦ (data, disabled)`. Both back ends
  (nested Go maps keyed by hex strings; nested bbolt buckets) are this map; creation/access times are
  not modelled (they only steer maintenance, which is modelled as an arbitrary per-record action).
* `Save` is insert-if-absent (`ErrTokenExists` otherwise), `Get` distinguishes found / not found /
  disabled, `VisitMetadata` applies one action (continue/enable/disable/remove) to every record inside
  one critical section.
* Every store call is ONE atomic step (memory: the mutex; bbolt: one transaction) – that atomicity is
  a modelling assumption monitored by the harness, not a theorem.
-/
namespace AcraModel.Token
open AcraModel

/-- ASCII string literal as bytes. -/
def strBytes (s : String) : Bytes := s.toList.map fun ch => UInt8.ofNat ch.toNat

/-- `common.TokenContext`. -/
structure Ctx where
  clientId : Bytes
  additional : Bytes
deriving DecidableEq, Repr

/-- What both `generateDataID` and `AggregateTokenContextToBytes` feed to the hash for a context:
`zone ‖ AdditionalContext` when that is non-empty (legacy zones), else `client ‖ ClientID`. -/
def Ctx.bytes (x : Ctx) : Bytes :=
  if x.additional.length ≠ 0 then strBytes "zone" ++ x.additional else strBytes "client" ++ x.clientId

/-- `common.AggregateTokenContextToBytes` – the name of the per-context bucket. -/
def aggCtx (c : CryptoOps) (x : Ctx) : Bytes := c.sha256 x.bytes

/-- The five supported token types. -/
inductive TokenType where
  | int32 | int64 | str | bytes | email
deriving DecidableEq, Repr

def TokenType.goName : TokenType → String
  | .int32 => "TokenType_Int32" | .int64 => "TokenType_Int64" | .str => "TokenType_String"
  | .bytes => "TokenType_Bytes" | .email => "TokenType_Email"

/-- numeric protobuf enum value, read from the regenerated table -/
def TokenType.code (t : TokenType) : Nat :=
  ((Generated.Token.tokenTypeCodes.find? fun p => p.1 == t.goName).map (·.2)).getD 0

/-- `strconv.Itoa` for naturals. -/
def itoa (n : Nat) : Bytes := strBytes (Nat.repr n)

def delim : Bytes := strBytes Generated.Token.dataIDDelim

/-- The byte string hashed by `generateDataID`. -/
def dataIDPre (data : Bytes) (x : Ctx) (ty : TokenType) : Bytes :=
  delim ++ data ++ x.bytes ++ delim ++ itoa ty.code

/-- `pseudoanonymizer.generateDataID`. -/
def dataID (c : CryptoOps) (data : Bytes) (x : Ctx) (ty : TokenType) : Bytes :=
  c.sha256 (dataIDPre data x ty)

abbrev Key := Bytes × Bytes

/-- key of the `t.` record (token ↦ original value) -/
def tKey (c : CryptoOps) (x : Ctx) (ty : TokenType) (tok : Bytes) : Key :=
  (aggCtx c x, strBytes Generated.Token.tokenPrefix ++ dataID c tok x ty)

/-- key of the `h.` record (value ↦ consistent token) -/
def hKey (c : CryptoOps) (x : Ctx) (ty : TokenType) (v : Bytes) : Key :=
  (aggCtx c x, strBytes Generated.Token.hashPrefix ++ dataID c v x ty)

structure Rec where
  data : Bytes
  disabled : Bool
deriving DecidableEq, Repr

/-- The store: a finite map in reality; a total function here (lookup = application). -/
def Store := Key → Option Rec

def Store.empty : Store := fun _ => none

inductive GetRes where
  | found (d : Bytes) | notFound | disabled
deriving DecidableEq, Repr

/-- `TokenStorage.Get` -/
def Store.get (s : Store) (k : Key) : GetRes :=
  match s k with
  | none => .notFound
  | some r => if r.disabled then .disabled else .found r.data

/-- `TokenStorage.Save`: `none` is `ErrTokenExists`. -/
def Store.save (s : Store) (k : Key) (d : Bytes) : Option Store :=
  match s k with
  | some _ => none
  | none => some fun k' => if k' = k then some ⟨d, false⟩ else s k'

inductive Action where
  | continue | enable | disable | remove
deriving DecidableEq, Repr

/-- `TokenStorage.VisitMetadata` with a callback; the model lets the action depend on the whole
record and its key (the code's callback sees only the data length and the metadata – a special case). -/
def Store.visit (s : Store) (act : Key → Rec → Action) : Store := fun k =>
  match s k with
  | none => none
  | some r =>
    match act k r with
    | .continue => some r
    | .enable => some { r with disabled := false }
    | .disable => some { r with disabled := true }
    | .remove => none

/-! ### basic lemmas -/

theorem Store.save_none_iff (s : Store) (k : Key) (d : Bytes) : s.save k d = none ↔ (s k).isSome := by
  unfold Store.save; cases h : s k <;> simp

theorem Store.save_same {s s' : Store} {k : Key} {d : Bytes} (h : s.save k d = some s') :
    s' k = some ⟨d, false⟩ := by
  unfold Store.save at h
  cases hk : s k with
  | some r => simp [hk] at h
  | none => simp only [hk] at h; cases h; simp

theorem Store.save_other {s s' : Store} {k k' : Key} {d : Bytes} (h : s.save k d = some s') (hne : k' ≠ k) :
    s' k' = s k' := by
  unfold Store.save at h
  cases hk : s k with
  | some r => simp [hk] at h
  | none => simp only [hk] at h; cases h; simp [hne]

theorem Store.save_absent {s s' : Store} {k : Key} {d : Bytes} (h : s.save k d = some s') : s k = none := by
  unfold Store.save at h
  cases hk : s k with
  | some r => simp [hk] at h
  | none => rfl

/-- a successful save never changes or removes an existing record -/
theorem Store.save_mono {s s' : Store} {k k' : Key} {d : Bytes} {r : Rec} (h : s.save k d = some s')
    (hr : s k' = some r) : s' k' = some r := by
  by_cases e : k' = k
  · subst e; rw [Store.save_absent h] at hr; cases hr
  · rw [Store.save_other h e]; exact hr

end AcraModel.Token
