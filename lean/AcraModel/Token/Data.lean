import AcraModel.Token.Tokenizer
/-!
# `DataTokenizer` – text ↔ typed conversion at the SQL boundary (C10)

`pseudonymization/dataTokenizer.go`: integer columns arrive as decimal text, are parsed with
`strconv.ParseInt(text, 10, bitSize)`, converted with `int32(i)` / used as `int64`, tokenized, and the
token is printed with `strconv.FormatInt`. The `bitSize` handed to `ParseInt` is a regenerated fact.
-/
namespace AcraModel.Token
open AcraModel Generated.Token

def isDigit (b : UInt8) : Bool := 48 ≤ b.toNat && b.toNat ≤ 57

def digitsVal (ds : Bytes) : Nat := ds.foldl (fun acc b => acc * 10 + (b.toNat - 48)) 0

/-- `strconv.ParseInt(s, 10, bits)`: optional sign, at least one digit, digits only, range checked. -/
def parseInt (bits : Nat) (s : Bytes) : Option Int :=
  let (neg, ds) := match s with
    | 43 :: r => (false, r)      -- '+'
    | 45 :: r => (true, r)       -- '-'
    | _ => (false, s)
  if ds.isEmpty || !ds.all isDigit then none
  else
    let n := digitsVal ds
    if neg then (if n ≤ 2 ^ (bits - 1) then some (-(n : Int)) else none)
    else (if n < 2 ^ (bits - 1) then some (n : Int) else none)

/-- `strconv.FormatInt(i, 10)` -/
def formatInt (i : Int) : Bytes :=
  if i < 0 then 45 :: itoa i.natAbs else itoa i.natAbs

/-- Go's `int32(i)` / `int64(i)` followed by `encodeInt32` / `encodeInt64`: two's-complement
truncation to `k` bytes, little endian. -/
def encodeIntLE (k : Nat) (i : Int) : Bytes := leBytes k (i % (2 ^ (8 * k) : Nat)).toNat

/-- `decodeIntNN` followed by the conversion to a signed value -/
def decodeIntLE (b : Bytes) : Int :=
  let n := leVal b
  if n < 2 ^ (8 * b.length - 1) then (n : Int) else (n : Int) - (2 ^ (8 * b.length) : Nat)

def parseBits (method : String) (ty : TokenType) : Nat :=
  ((parseIntBits.find? fun p => p.1 == method && p.2.1 == ty.goName).map (·.2.2)).getD 64

/-- text → encoded typed value, as `DataTokenizer.Tokenize` / `Detokenize` do before calling the
pseudoanonymizer; `none` = the method returns the parse error. -/
def textToValue (method : String) (ty : TokenType) (text : Bytes) : Option Bytes :=
  match ty with
  | .int32 => (parseInt (parseBits method ty) text).map (encodeIntLE 4)
  | .int64 => (parseInt (parseBits method ty) text).map (encodeIntLE 8)
  | _ => some text

/-- encoded typed result → text -/
def valueToText (ty : TokenType) (v : Bytes) : Bytes :=
  match ty with
  | .int32 | .int64 => formatInt (decodeIntLE v)
  | _ => v

def resToText (ty : TokenType) : Res → Res
  | .ok v => .ok (valueToText ty v)
  | r => r

end AcraModel.Token
