import AcraModel.Token.Concurrent
import AcraModel.Token.DecodeLemmas
/-!
# The store invariant and its preservation by every atomic step (C10)

`dataAt s k` is the payload stored under `k` regardless of the disabled flag. The invariant `Inv`:

* **link** – every `h.` record `v ↦ d` has a `t.` record `d ↦ v` (and `d` is a fixed point of
  `decodeAs`, i.e. a well-formed token encoding);
* **thr** – per thread: between the successful `Save(t.tok, v)` and `Save(h.v, tok)` the `t.` record is
  there; a finished tokenization that returned `tok` has its `t.` record `tok ↦ v`, and in consistent mode
  the `h.` record of `v` decodes to `tok`.

Every clause is a *positive* statement about payloads, and no step except a removing maintenance
pass ever changes or deletes a payload (`Mono`), so preservation is by monotonicity plus a local
argument for the step's own thread. Record ids must not collide for *different* (context, type,
value) triples: hypothesis `HashInj c` (SHA-256 idealised as injective) – used in exactly one place
(a new `h.` record must not be the `h.` record of another triple).
-/
namespace AcraModel.Token
open AcraModel Generated.Token

def dataAt (s : Store) (k : Key) : Option Bytes := (s k).map (·.data)

/-- payloads only grow -/
def Mono (s s' : Store) : Prop := ∀ k x, dataAt s k = some x → dataAt s' k = some x

theorem Mono.refl (s : Store) : Mono s s := fun _ _ h => h

theorem save_mono {s s' : Store} {k : Key} {d : Bytes} (h : s.save k d = some s') : Mono s s' := by
  intro k' x hx
  unfold dataAt at hx ⊢
  cases hr : s k' with
  | none => rw [hr] at hx; cases hx
  | some r => rw [Store.save_mono h hr]; rw [hr] at hx; exact hx

theorem save_dataAt_same {s s' : Store} {k : Key} {d : Bytes} (h : s.save k d = some s') : dataAt s' k = some d := by
  simp [dataAt, Store.save_same h]

theorem save_dataAt_other {s s' : Store} {k k' : Key} {d : Bytes} (h : s.save k d = some s') (hne : k' ≠ k) :
    dataAt s' k' = dataAt s k' := by
  simp [dataAt, Store.save_other h hne]

/-- a maintenance pass that removes nothing leaves every payload as it is -/
theorem visit_dataAt (s : Store) (act : Key → Rec → Action) (hnr : ∀ k r, act k r ≠ .remove) (k : Key) :
    dataAt (s.visit act) k = dataAt s k := by
  unfold dataAt Store.visit
  cases hs : s k with
  | none => rfl
  | some r =>
    have := hnr k r
    cases ha : act k r <;> simp_all

/-! ### record keys -/

theorem prefixes_differ : strBytes tokenPrefix ≠ strBytes hashPrefix ∧
    (strBytes tokenPrefix).length = 2 ∧ (strBytes hashPrefix).length = 2 := by decide

theorem tKey_ne_hKey (c : CryptoOps) (x x' : Ctx) (ty ty' : TokenType) (a b : Bytes) :
    tKey c x ty a ≠ hKey c x' ty' b := by
  intro h
  have h2 := congrArg Prod.snd h
  simp only [tKey, hKey] at h2
  have ht : strBytes tokenPrefix = [116, 46] := by decide
  have hh : strBytes hashPrefix = [104, 46] := by decide
  rw [ht, hh] at h2
  simp at h2

/-- the keys depend on the context only through `Ctx.bytes` -/
theorem keys_of_bytes_eq (c : CryptoOps) {x x' : Ctx} (h : x.bytes = x'.bytes) (ty : TokenType) (a : Bytes) :
    tKey c x ty a = tKey c x' ty a ∧ hKey c x ty a = hKey c x' ty a := by
  simp [tKey, hKey, aggCtx, dataID, dataIDPre, h]

theorem code_digits : ∀ ty : TokenType, (itoa ty.code).length = 1 := by
  intro ty; cases ty <;> decide

theorem code_inj : ∀ a b : TokenType, itoa a.code = itoa b.code → a = b := by
  intro a b; cases a <;> cases b <;> decide

/-- **Within one context the hashed byte string determines (value, type).** -/
theorem dataIDPre_inj {v v' : Bytes} {x x' : Ctx} {ty ty' : TokenType} (hx : x.bytes = x'.bytes)
    (h : dataIDPre v x ty = dataIDPre v' x' ty') : v = v' ∧ ty = ty' := by
  unfold dataIDPre at h
  rw [hx] at h
  simp only [List.append_assoc] at h
  have h1 := List.append_cancel_left h
  have hlen : (x'.bytes ++ (delim ++ itoa ty.code)).length = (x'.bytes ++ (delim ++ itoa ty'.code)).length := by
    simp [code_digits]
  have h2 := List.append_inj' h1 hlen
  refine ⟨h2.1, ?_⟩
  have h3 := List.append_cancel_left (List.append_cancel_left h2.2)
  exact code_inj _ _ h3

/-- equal `h.` keys ⇒ same effective context, type and value (SHA-256 idealised as injective) -/
theorem hKey_inj (c : CryptoOps) (hi : HashInj c) {x x' : Ctx} {ty ty' : TokenType} {v v' : Bytes}
    (h : hKey c x ty v = hKey c x' ty' v') : x.bytes = x'.bytes ∧ ty = ty' ∧ v = v' := by
  have h1 := congrArg Prod.fst h
  have h2 := congrArg Prod.snd h
  simp only [hKey, aggCtx] at h1 h2
  have hx := hi.sha_inj _ _ h1
  have h3 := hi.sha_inj _ _ (List.append_cancel_left h2)
  have := dataIDPre_inj hx h3
  exact ⟨hx, this.2, this.1⟩

/-! ### generated tokens are fixed points of `decodeAs` -/

theorem randomBytes_length (n : Nat) (d : Draws) : (randomBytes n d).length = n := by simp [randomBytes]

theorem decodeAs_gen {ty : TokenType} {n : Nat} {d : Draws} {tok : Bytes} (h : genToken ty n d = .ok tok) :
    decodeAs ty tok = .ok tok := by
  cases ty with
  | int32 =>
    simp only [genToken, Out.ok.injEq] at h
    subst h
    exact decodeAs_exact .int32 _ ⟨fun _ => randomBytes_length 4 d, (by intro e; cases e)⟩
  | int64 =>
    simp only [genToken, Out.ok.injEq] at h
    subst h
    exact decodeAs_exact .int64 _ ⟨(by intro e; cases e), fun _ => randomBytes_length 8 d⟩
  | str => rfl
  | bytes => rfl
  | email => rfl

/-! ### the invariant -/

/-- program counter and request kind fit together (true of `Thread.start`, kept by every step) -/
def WF (t : Thread) : Prop :=
  match t.pc with
  | .getH _ => t.req.kind = .anon true
  | .saveH _ _ => t.req.kind = .anon true
  | .gen _ _ => ∃ b, t.req.kind = .anon b
  | .look => t.req.kind = .deanon
  | .done _ => True

/-- what a thread's position guarantees about the store -/
def TInv (c : CryptoOps) (s : Store) (t : Thread) : Prop :=
  match t.pc with
  | .saveH tok _ =>
    dataAt s (tKey c t.req.ctx t.req.ty tok) = some (encTV t.req.ty t.req.v) ∧ decodeAs t.req.ty tok = .ok tok
  | .done (.ok tok) =>
    match t.req.kind with
    | .anon cons =>
      dataAt s (tKey c t.req.ctx t.req.ty tok) = some (encTV t.req.ty t.req.v) ∧
        (cons = true → ∃ d, dataAt s (hKey c t.req.ctx t.req.ty t.req.v) = some d ∧ decodeAs t.req.ty d = .ok tok)
    | .deanon => True
  | _ => True

theorem TInv.mono {c : CryptoOps} {s s' : Store} {t : Thread} (h : TInv c s t) (hm : Mono s s') : TInv c s' t := by
  rcases t with ⟨⟨kind, x, ty, v⟩, pc, rnd, drawn⟩
  cases pc with
  | saveH tok tr => exact ⟨hm _ _ h.1, h.2⟩
  | done r =>
    cases r with
    | ok tok =>
      cases kind with
      | anon cons =>
        exact ⟨hm _ _ h.1, fun hc => let ⟨d, hd, he⟩ := h.2 hc; ⟨d, hm _ _ hd, he⟩⟩
      | deanon => trivial
    | err => trivial
    | panic => trivial
  | getH _ => trivial
  | gen _ _ => trivial
  | look => trivial

/-- every `h.` record points to a `t.` record for the same value -/
def Link (c : CryptoOps) (s : Store) : Prop :=
  ∀ x ty v d, dataAt s (hKey c x ty v) = some d →
    decodeAs ty d = .ok d ∧ dataAt s (tKey c x ty d) = some (encTV ty v)

structure Inv (c : CryptoOps) (σ : Sys) : Prop where
  link : Link c σ.store
  thr : ∀ t ∈ σ.threads, TInv c σ.store t ∧ WF t

theorem inv_empty (c : CryptoOps) : Inv c ⟨Store.empty, []⟩ :=
  ⟨by intro x ty v d h; simp [dataAt, Store.empty] at h, by intro t h; cases h⟩

end AcraModel.Token
