import AcraModel.Token.Tokenizer
/-!
# Decoding of stored token records never panics (C10, C14)

`bytesToGolangValue` (`decodeAs`) and the `t.`-record path of `Deanonymize` (`decTV`) applied to ARBITRARY
stored bytes – a damaged store, or a record of another type/length found under the looked-up id.
The two length constants come from the regenerated table `decodeIntLengthChecks`; on a tree whose
`decodeInt32` / `decodeInt64` lack the check (the pinned tree) `intLenCheck_*` do not check and
`legacy_short_record_panics` shows the panic.
-/
namespace AcraModel.Token
open AcraModel Generated.Token

/-- the source checks `len(data) != 4` in `decodeInt32` and `len(data) != 8` in `decodeInt64` -/
theorem intLenCheck_32 : intLenCheck "decodeInt32" = 4 := by decide
theorem intLenCheck_64 : intLenCheck "decodeInt64" = 8 := by decide

/-- with a length check `k`, `decodeInt` of width `k` accepts exactly the values of `k` bytes -/
theorem decodeInt_checked (name : String) (k : Nat) (hk : intLenCheck name = k) (hpos : k ≠ 0) (d : Bytes) :
    decodeInt name k d = if d.length = k then .ok d else .err := by
  unfold decodeInt
  rw [hk]
  by_cases h : d.length = k
  · simp [h, hpos, List.take_of_length_le]
  · simp [h, hpos]

theorem decodeAs_int32 (d : Bytes) : decodeAs .int32 d = if d.length = 4 then .ok d else .err :=
  decodeInt_checked "decodeInt32" 4 intLenCheck_32 (by decide) d

theorem decodeAs_int64 (d : Bytes) : decodeAs .int64 d = if d.length = 8 then .ok d else .err :=
  decodeInt_checked "decodeInt64" 8 intLenCheck_64 (by decide) d

/-- **No stored payload makes `bytesToGolangValue` panic**, whatever its length and the requested type. -/
theorem decodeAs_no_panic (ty : TokenType) (d : Bytes) : decodeAs ty d ≠ .panic := by
  cases ty with
  | int32 => rw [decodeAs_int32]; split <;> simp
  | int64 => rw [decodeAs_int64]; split <;> simp
  | str => simp [decodeAs]
  | bytes => simp [decodeAs]
  | email => simp [decodeAs]

/-- … and neither does the decoding of a `t.` record (`TokenValueFromData`, type comparison, value decoding). -/
theorem decTV_no_panic (ty : TokenType) (data : Bytes) : decTV ty data ≠ .panic := by
  unfold decTV
  cases data with
  | nil => simp
  | cons c v =>
    simp only
    split
    · exact decodeAs_no_panic ty v
    · simp

/-- what is handed out is the stored payload itself, and an integer only from a payload of exactly 4 / 8 bytes -/
theorem decodeAs_ok (ty : TokenType) (d v : Bytes) (h : decodeAs ty d = .ok v) :
    v = d ∧ (ty = .int32 → d.length = 4) ∧ (ty = .int64 → d.length = 8) := by
  cases ty with
  | int32 =>
    rw [decodeAs_int32] at h
    split at h
    · rename_i hl; cases h; exact ⟨rfl, fun _ => hl, (by intro e; cases e)⟩
    · cases h
  | int64 =>
    rw [decodeAs_int64] at h
    split at h
    · rename_i hl; cases h; exact ⟨rfl, (by intro e; cases e), fun _ => hl⟩
    · cases h
  | str =>
    simp only [decodeAs, Res.ok.injEq] at h
    subst h
    exact ⟨rfl, (by intro e; cases e), (by intro e; cases e)⟩
  | bytes =>
    simp only [decodeAs, Res.ok.injEq] at h
    subst h
    exact ⟨rfl, (by intro e; cases e), (by intro e; cases e)⟩
  | email =>
    simp only [decodeAs, Res.ok.injEq] at h
    subst h
    exact ⟨rfl, (by intro e; cases e), (by intro e; cases e)⟩

/-- for well-formed values `bytesToGolangValue` is the identity -/
theorem decodeAs_exact (ty : TokenType) (v : Bytes)
    (h : (ty = .int32 → v.length = 4) ∧ (ty = .int64 → v.length = 8)) : decodeAs ty v = .ok v := by
  cases ty with
  | int32 => rw [decodeAs_int32]; simp [h.1 rfl]
  | int64 => rw [decodeAs_int64]; simp [h.2 rfl]
  | str => rfl
  | bytes => rfl
  | email => rfl

/-- The pinned tree (no length check): a stored int32 value of fewer than 4 bytes – e.g. the empty
record – makes `binary.LittleEndian.Uint32` panic; a 5-byte record is silently cut to 4 bytes. -/
theorem legacy_short_record_panics (name : String) (h0 : intLenCheck name = 0) (d : Bytes) (hd : d.length < 4) :
    decodeInt name 4 d = .panic := by
  unfold decodeInt
  simp [h0, hd]

theorem legacy_long_record_truncated (name : String) (h0 : intLenCheck name = 0) (d : Bytes) (hd : 4 ≤ d.length) :
    decodeInt name 4 d = .ok (d.take 4) := by
  unfold decodeInt
  simp [h0, Nat.not_lt.mpr hd]

end AcraModel.Token
