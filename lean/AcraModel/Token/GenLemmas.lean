import AcraModel.Token.Gen
/-!
Shape of generated tokens, for every random stream (C10).
-/
namespace AcraModel.Token
open AcraModel Generated.Token

theorem getD_mem {α} (l : List α) (i : Nat) (d : α) (h : i < l.length) : l.getD i d ∈ l := by
  rw [List.getD_eq_getElem?_getD, List.getElem?_eq_getElem h]
  simp

theorem charsetB_length : charsetB.length = 62 := by decide

theorem charset_pick (k : Nat) : inCharset (charsetB.getD (k % charsetB.length) 0) = true := by
  have h : k % charsetB.length < charsetB.length := Nat.mod_lt _ (by rw [charsetB_length]; omega)
  simpa [inCharset] using getD_mem charsetB _ 0 h

theorem randomString_length (n : Nat) (d : Draws) (off : Nat) : (randomString n d off).length = n := by
  simp [randomString]

theorem randomString_charset (n : Nat) (d : Draws) (off : Nat) : (randomString n d off).all inCharset = true := by
  simp only [randomString, List.all_map, List.all_eq_true]
  intro i _
  exact charset_pick _

theorem tlds_nonempty : ∀ s ∈ allTLDs, 0 < (strBytes s).length := by decide

theorem tldsFor_sub (n : Nat) : ∀ s ∈ tldsFor n, s ∈ allTLDs := by
  intro s hs
  unfold tldsFor at hs
  split at hs
  · exact List.mem_append_right _ hs
  · exact hs

theorem tldsFor_pos (n : Nat) : 0 < (tldsFor n).length := by
  unfold tldsFor; split <;> decide

/-- the TLD `randomEmail` picks is one of the table for that length -/
theorem picked_tld_mem (n k : Nat) : (tldsFor n).getD (k % (tldsFor n).length) "" ∈ tldsFor n :=
  getD_mem _ _ _ (Nat.mod_lt _ (tldsFor_pos n))

/-- the TLD drawn for a buffer of `n` bytes -/
def pickedTld (n : Nat) (d : Draws) : Bytes := strBytes ((tldsFor n).getD (d 0 % (tldsFor n).length) "")

/-- the local part and domain drawn, with `@` at the middle position -/
def emailBody (m : Nat) (d : Draws) : Bytes :=
  (List.range m).map fun i => if i = m / 2 then atSign else charsetB.getD (d (1 + i) % charsetB.length) 0

theorem randomEmail_eq (n : Nat) (d : Draws) :
    randomEmail n d =
      if n < (pickedTld n d).length then (if emailNegativeGuard then .ok (randomString n d 1) else .panic)
      else if (n - (pickedTld n d).length) / 2 < n then .ok (emailBody (n - (pickedTld n d).length) d ++ pickedTld n d)
      else .panic := rfl

theorem pickedTld_pos (n : Nat) (d : Draws) : 0 < (pickedTld n d).length :=
  tlds_nonempty _ (tldsFor_sub n _ (picked_tld_mem n (d 0)))

theorem emailBody_length (m : Nat) (d : Draws) : (emailBody m d).length = m := by simp [emailBody]

/-- **`randomEmail` never panics** once the negative-length guard is in the source. -/
theorem randomEmail_no_panic (hg : emailNegativeGuard = true) (n : Nat) (d : Draws) : randomEmail n d ≠ .panic := by
  rw [randomEmail_eq]
  have hpos := pickedTld_pos n d
  by_cases hlt : n < (pickedTld n d).length
  · rw [if_pos hlt, hg]; intro h; cases h
  · have : (n - (pickedTld n d).length) / 2 < n := by
      have := Nat.div_le_self (n - (pickedTld n d).length) 2
      omega
    rw [if_neg hlt, if_pos this]; intro h; cases h

/-- **Shape of e-mail tokens**, every stream. -/
theorem randomEmail_shape (n : Nat) (d : Draws) (t : Bytes) (h : randomEmail n d = .ok t) : shapeOK .email n t = true := by
  rw [randomEmail_eq] at h
  simp only [shapeOK, List.any_eq_true]
  refine ⟨_, picked_tld_mem n (d 0), ?_⟩
  show (if n < (pickedTld n d).length then t.length == n && t.all inCharset else emailShapeWith n (pickedTld n d) t) = true
  by_cases hlt : n < (pickedTld n d).length
  · rw [if_pos hlt] at h ⊢
    split at h
    · cases h
      simp [randomString_length, randomString_charset]
    · cases h
  · rw [if_neg hlt] at h ⊢
    split at h
    · cases h
      have hlen := emailBody_length (n - (pickedTld n d).length) d
      simp only [emailShapeWith, Bool.and_eq_true, beq_iff_eq, List.all_eq_true, List.mem_range]
      refine ⟨⟨?_, ?_⟩, ?_⟩
      · rw [List.length_append, hlen]; omega
      · rw [List.drop_left' hlen]
      · intro i hi
        rw [List.getD_eq_getElem?_getD, List.getElem?_append_left (by rw [hlen]; exact hi)]
        simp only [emailBody, List.getElem?_map, List.getElem?_range hi, Option.map_some, Option.getD_some]
        split
        · simp
        · simpa using charset_pick _
    · cases h

/-- **`token_shape`** – for every token type, value length and random stream, whatever the generator
returns has the shape of the value it replaces. -/
theorem genToken_shape (ty : TokenType) (n : Nat) (d : Draws) (t : Bytes) (h : genToken ty n d = .ok t) :
    shapeOK ty n t = true := by
  cases ty with
  | int32 => simp only [genToken, Out.ok.injEq] at h; subst h; simp [shapeOK, randomBytes]
  | int64 => simp only [genToken, Out.ok.injEq] at h; subst h; simp [shapeOK, randomBytes]
  | bytes => simp only [genToken, Out.ok.injEq] at h; subst h; simp [shapeOK, randomBytes]
  | str =>
    simp only [genToken, Out.ok.injEq] at h; subst h
    simp [shapeOK, randomString_length, randomString_charset]
  | email => exact randomEmail_shape n d t h

end AcraModel.Token
