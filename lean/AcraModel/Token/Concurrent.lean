import AcraModel.Token.Tokenizer
/-!
# Concurrent requests and maintenance over one store (C10)

The system is a store plus a finite list of threads (requests in flight or finished). A *schedule* is
any list of events: `run i` lets thread `i` perform its next atomic store step, `visit act` is a
maintenance pass (`VisitMetadata`, atomic), `spawn req rnd` adds a new request. Every behaviour of
the real system in which store calls are atomic is the run of some schedule; theorems about
`runSched` therefore hold for every interleaving.
-/
namespace AcraModel.Token
open AcraModel

structure Sys where
  store : Store
  threads : List Thread

inductive SEv where
  | run (i : Nat)
  | visit (act : Key → Rec → Action)
  | spawn (req : Req) (rnd : Nat → Draws)

def Sys.step (c : CryptoOps) (enc : Bool) (σ : Sys) : SEv → Sys
  | .run i =>
    match σ.threads[i]? with
    | none => σ
    | some t =>
      let (s', t', _) := stepThread c enc σ.store t
      { store := s', threads := σ.threads.set i t' }
  | .visit act => { σ with store := σ.store.visit act }
  | .spawn req rnd => { σ with threads := σ.threads ++ [Thread.start req rnd] }

def Sys.runSched (c : CryptoOps) (enc : Bool) (σ : Sys) (sched : List SEv) : Sys := sched.foldl (Sys.step c enc) σ

/-- run one thread to completion (a sequential call): at most `fuel` steps -/
def Sys.complete (c : CryptoOps) (enc : Bool) (σ : Sys) (i : Nat) : Nat → Sys
  | 0 => σ
  | fuel + 1 =>
    match σ.threads[i]? with
    | some t => match t.pc with
      | .done _ => σ
      | _ => Sys.complete c enc (σ.step c enc (.run i)) i fuel
    | none => σ

end AcraModel.Token
