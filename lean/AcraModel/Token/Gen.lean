import AcraModel.Token.Store
/-!
# Token generators (C10) – `pseudonymization/random.go`, `anonymizer.Anonymize*`

Generators are functions of an explicit stream of random draws `d : Nat → Nat` (the i-th draw of the
call; `seededRand.Intn(n)` is `d i % n`, a random byte is `d i % 256`). Theorems quantify over all
streams. Go's `math/rand` / `crypto/rand` are modelled by this contract (any value in range can come out).
-/
namespace AcraModel.Token
open AcraModel Generated.Token

abbrev Draws := Nat → Nat

def charsetB : Bytes := strBytes charset

/-- `randomString(buf)`: `buf[i] = charset[seededRand.Intn(len(charset))]`, draws `off … off+n-1`. -/
def randomString (n : Nat) (d : Draws) (off : Nat := 0) : Bytes :=
  (List.range n).map fun i => charsetB.getD (d (off + i) % charsetB.length) 0

/-- `rand.Read(buf)` -/
def randomBytes (n : Nat) (d : Draws) : Bytes :=
  (List.range n).map fun i => UInt8.ofNat (d i % 256)

def allTLDs : List String := genericTLDs ++ ccTLDs

/-- the TLD table `randomEmail` chooses from for a buffer of `n` bytes -/
def tldsFor (n : Nat) : List String := if n < shortEmailThreshold then ccTLDs else allTLDs

def atSign : UInt8 := 64

/-- `randomEmail(buf)` with `len(buf) = n`. Draw 0 picks the TLD, draws 1… fill the rest.
`buf[:nonTLDlen]` with a negative `nonTLDlen` is a run-time panic unless the guard
`if nonTLDlen < 0 { return randomString(buf) }` is present in the source (regenerated fact). -/
def randomEmail (n : Nat) (d : Draws) : Out Bytes :=
  let tlds := tldsFor n
  let tld := strBytes (tlds.getD (d 0 % tlds.length) "")
  if n < tld.length then
    (if emailNegativeGuard then .ok (randomString n d 1) else .panic)
  else
    let m := n - tld.length
    -- randomString(buf[:m]); buf[m/2] = '@' (index panic when the buffer is empty); copy(buf[m:], tld)
    -- (for m = 0 the '@' written at index 0 is overwritten by the TLD)
    let body := (List.range m).map fun i => if i = m / 2 then atSign else charsetB.getD (d (1 + i) % charsetB.length) 0
    if m / 2 < n then .ok (body ++ tld) else .panic

/-- the candidate the anonymizer draws for a value of `vlen` bytes of type `ty` -/
def genToken (ty : TokenType) (vlen : Nat) (d : Draws) : Out Bytes :=
  match ty with
  | .int32 => .ok (randomBytes 4 d)
  | .int64 => .ok (randomBytes 8 d)
  | .bytes => .ok (randomBytes vlen d)
  | .str => .ok (randomString vlen d)
  | .email => randomEmail vlen d

/-! ### the inverse used by the driver: a stream that makes the generator produce a given candidate -/

def charIndex (b : UInt8) : Nat := (charsetB.findIdx? (· == b)).getD 0

/-- draws reproducing `t` (when `t` is in the generator's image; otherwise some other stream, and the
driver's comparison `genToken … = t` fails, which reports the shape violation). -/
def drawsOf (ty : TokenType) (vlen : Nat) (t : Bytes) : Draws :=
  match ty with
  | .int32 | .int64 | .bytes => fun i => (t.getD i 0).toNat
  | .str => fun i => charIndex (t.getD i 0)
  | .email =>
    let tlds := tldsFor vlen
    let cands : List Draws := (List.range tlds.length).map fun j => fun i =>
      if i = 0 then j else charIndex (t.getD (i - 1) 0)
    (cands.find? fun d => randomEmail vlen d == .ok t).getD fun _ => 0

/-! ### shape predicate -/

def inCharset (b : UInt8) : Bool := charsetB.contains b

/-- the e-mail shape for a value of `n` bytes built on TLD `tld` (`n ≥ |tld|`): `n - |tld|` charset
characters with `@` written at position `(n - |tld|)/2`, then the TLD (for `n = |tld|` just the TLD). -/
def emailShapeWith (n : Nat) (tld : Bytes) (t : Bytes) : Bool :=
  let m := n - tld.length
  t.length == n && t.drop m == tld &&
    (List.range m).all fun i => if i = m / 2 then t.getD i 0 == atSign else inCharset (t.getD i 0)

/-- **shape of a token** for a value of `vlen` bytes -/
def shapeOK (ty : TokenType) (vlen : Nat) (t : Bytes) : Bool :=
  match ty with
  | .int32 => t.length == 4
  | .int64 => t.length == 8
  | .bytes => t.length == vlen
  | .str => t.length == vlen && t.all inCharset
  | .email =>
    (tldsFor vlen).any fun s =>
      let tld := strBytes s
      if vlen < tld.length then t.length == vlen && t.all inCharset else emailShapeWith vlen tld t

end AcraModel.Token
