#!/usr/bin/env python3
"""Regenerates the table of DESIGN.md §19 from seeded/*/meta.json and the last sweeps (seeded/SWEEP*.txt)."""
import json,os,re,glob
V=os.path.dirname(os.path.dirname(os.path.abspath(__file__)))
sweep={}
for f in sorted(glob.glob(V+'/seeded/SWEEP*.txt')):
    for l in open(f,errors='replace'):
        m=re.match(r'(C\d\d-\d+) (.*)',l.rstrip('\n'))
        if not m: continue
        sid,rest=m.groups()
        if rest.startswith('DETECTED'):
            cls=re.findall(r'class=(\S+)',rest); nf='no-failing-input-found' in rest.split('FAILING-INPUT')[0] and not cls
            sweep[sid]='detected'+(': failing input `%s`'%cls[0] if cls else (' (broken obligation / disagreement, no failing input)' if nf else ''))
        elif rest.startswith('MISSED'): sweep[sid]='MISSED'
        elif 'PATCH-DOES-NOT-APPLY' in rest: sweep[sid]='no longer applies (the site was rewritten by a later fix: commit)'
        else: sweep[sid]='error: '+rest[:60]
def cut(t,n):
    t=re.sub(r'\s+',' ',str(t)).replace('|','\\|').strip()
    return t if len(t)<=n else t[:n-1]+'…'
rows=[]
for d in sorted(glob.glob(V+'/seeded/C??-*')):
    sid=os.path.basename(d); m=json.load(open(d+'/meta.json'))
    det=m.get('detection','')
    cur=m.get('detection_now') or sweep.get(sid,'')
    if m.get('cross_detection'): cur+=' – other checks: '+m['cross_detection']
    rows.append('| %s | %s | %s | %s | %s |'%(sid,cut(m.get('summary',''),260),cut(m.get('needs',''),220),cut(det,260) or '–',cut(cur,300)))
s=open(V+'/DESIGN.md').read()
a=s.index('| seed | ')
b=a
lines=s[a:].split('\n')
n=0
for l in lines:
    if l.startswith('|'): n+=1
    else: break
end=a+len('\n'.join(lines[:n]))
hdr='| seed | change | needs | detection history (rounds 1–3: recorded when the seed was kept) | last sweep (`tools/seedsweep.sh`, check of the property it breaks) |\n|---|---|---|---|---|\n'
open(V+'/DESIGN.md','w').write(s[:a]+hdr+'\n'.join(rows)+s[end:])
print(len(rows),'rows')
