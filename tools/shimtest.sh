#!/bin/sh
# Runs Acra's own (unedited) package tests against the Themis stand-in:  tools/shimtest.sh ./decryptor/mysql/... ./acrablock/...
# (paths relative to the repository root; VERIF_REPO selects another checkout)
set -e
REPO=${VERIF_REPO:-/repo}
export GOFLAGS=-mod=mod GOPROXY=off GOSUMDB=off GOTOOLCHAIN=local
cd "$(dirname "$0")/../harness"
if [ "$REPO" != /repo ]; then
  T=$(mktemp -d); cp -r . "$T/h"; cd "$T/h"
  sed -i "s#=> /repo#=> $REPO#; s#=> ../gothemis#=> $(dirname "$0")/../gothemis#" go.mod
fi
cp "$REPO/go.sum" go.sum 2>/dev/null || true
pk=""
for p in "$@"; do pk="$pk github.com/cossacklabs/acra/${p#./}"; done
go test -vet=off -count=1 $pk
