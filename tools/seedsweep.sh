#!/bin/sh
# tools/seedsweep.sh <workers> – regression over every kept seeded change: each is applied to a scratch copy of
# /repo's HEAD and the check of the property it breaks is run against it, in <workers> private copies of /verif
# (the generated facts live inside the Lean project, so runs against different trees cannot share one copy).
# SEEDS=<regex> restricts the seeds, SWEEP_OUT=<file name> the result file.
# Result lines go to seeded/SWEEP.txt (DETECTED / MISSED / PATCH-DOES-NOT-APPLY per seed).
V=$(cd "$(dirname "$0")/.." && pwd)
W=${1:-4}
OUT=$V/seeded/${SWEEP_OUT:-SWEEP.txt}; : > "$OUT.tmp"
ls "$V/seeded" | grep '^C[0-9][0-9]-' | grep -E -e "${SEEDS:-.}" > /root/work/sweep-all-$$.txt
i=0
while [ $i -lt $W ]; do
  ( D=/root/work/sweep-$$-$i; rm -rf $D; cp -a "$V" $D; rm -f $D/.build/lock* 
    awk -v w=$W -v i=$i 'NR%w==i' /root/work/sweep-all-$$.txt | while read S; do
      P=$(python3 -c "import json;print(json.load(open('$V/seeded/$S/meta.json'))['breaks_property'])")
      R=$(VERIF_TIER=${VERIF_TIER:-quick} $D/tools/seedtest.sh "$V/seeded/$S/patch.diff" $P 2>&1 | head -4 | tr '\n' ' ' | cut -c1-400)
      echo "$S $R" >> "$OUT.tmp"
    done; rm -rf $D ) &
  i=$((i+1))
done
wait
sort "$OUT.tmp" > "$OUT"; rm -f "$OUT.tmp" /root/work/sweep-all-$$.txt
echo "detected: $(grep -c ' DETECTED ' "$OUT")  missed: $(grep -c ' MISSED ' "$OUT")  other: $(grep -vc ' DETECTED \| MISSED ' "$OUT")"
