#!/usr/bin/env python3
"""Lead tool: after builders' repo patches were committed, replace the patch file names in the `commit` field of `fixed`
entries of known_findings.json by the commit hashes (matched through the commit subject = first line of the patch file),
normalise the text to "fixed: property=<id> <commit> <what failed>" and list fix: commits no entry refers to."""
import json,subprocess,re,os,glob,sys
V=os.path.dirname(os.path.dirname(os.path.abspath(__file__)))
P=V+'/known_findings.json'
k=json.load(open(P))
log=subprocess.run("git -C /repo log --reverse --format='%h %s' 2e75cd2..HEAD",shell=True,capture_output=True,text=True).stdout.splitlines()
subj={l.split(' ',1)[1].strip():l.split(' ',1)[0] for l in log}
pm={}
for f in glob.glob(V+'/repo-patches/*.diff')+glob.glob('/root/work/*/repo-patches/*.diff'):
    pm.setdefault(os.path.basename(f),set()).add(open(f).readline().strip())
def valid(c): return bool(c) and all(re.fullmatch(r'[0-9a-f]{7,40}',x) and subprocess.run(['git','-C','/repo','cat-file','-e',x+'^{commit}'],capture_output=True).returncode==0 for x in c.replace(',',' ').split())
def resolve(ref):
    hs=[]
    for num,rest in re.findall(r'(?:repo-patches/|, ?)(\d+[a-z]?)-?([\w\-]*)',ref):
        for b in pm:
            if b.startswith(num+'-') and (not rest or b.startswith(num+'-'+rest[:12])):
                for s in pm[b]:
                    if s in subj and subj[s] not in hs: hs.append(subj[s])
    return hs
for e in k:
    if e['status']!='fixed': continue
    c=str(e.get('commit',''))
    if not valid(c):
        hs=resolve(c)
        if hs: e['commit']=' '.join(hs)
        else: print('UNRESOLVED',e['property'],e['class'],repr(c)[:80])
    t=re.sub(r'^fixed:\s*property=C\d\d\s*','',e.get('text',''))
    t=re.sub(r'^[0-9a-f]{7}( [0-9a-f]{7})*\s+','',t)
    e['text']='fixed: property=%s %s %s'%(e['property'],e.get('commit',''),t)
json.dump(k,open(P,'w'),indent=1,ensure_ascii=False); open(P,'a').write('\n')
ref=' '.join(str(e.get('commit','')) for e in k)
for l in log:
    h,s=l.split(' ',1)
    if s.startswith('fix:') and h not in ref: print('UNREFERENCED',l[:120])
