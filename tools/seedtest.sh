#!/bin/sh
# tools/seedtest.sh <patch.diff> <Cxx> [Cyy …]
# Applies a seeded change to a scratch copy of /repo's HEAD, runs the given checks against it
# (VERIF_REPO) and removes the copy. Prints one line per check: DETECTED / MISSED.
set -u
PATCH=$(realpath "$1"); shift
V=$(cd "$(dirname "$0")/.." && pwd)
D=$(mktemp -d /root/work/seedtest-XXXXXX)
git -C /repo archive HEAD | tar -x -C "$D"
if ! (cd "$D" && patch -p1 -s < "$PATCH"); then echo "PATCH-DOES-NOT-APPLY $PATCH"; rm -rf "$D"; exit 2; fi
for P in "$@"; do
  OUT=$(cd "$V" && VERIF_REPO="$D" ./check "$P" --tier "${VERIF_TIER:-quick}" 2>&1); RC=$?
  if [ $RC -eq 1 ] && echo "$OUT" | grep -q '^VIOLATION'; then
    echo "DETECTED $P: $(echo "$OUT" | grep -m1 '^VIOLATION')"
    echo "$OUT" | grep -m3 '^FAILING-INPUT\|^BROKEN\|^DISAGREEMENT' | cut -c1-260 | sed 's/^/    /'
  elif [ $RC -eq 0 ]; then echo "MISSED $P"
  else echo "ERROR $P (exit $RC)"; echo "$OUT" | tail -5 | cut -c1-300; fi
done
rm -rf "$D"
# the checks rewrote evidence/*.json from the scratch copy: restore the committed evidence
(cd "$V" && git checkout -q -- evidence 2>/dev/null || true)
