#!/bin/sh
# tools/confirm_seed.sh <N> <k> [go test flags]: confirms seed /tmp/seed/N/out/k in its own worktree:
# demo FAILS with the patch, PASSES without; touched packages' own tests pass with the patch.
N=$1; K=$2; shift 2
export GOFLAGS=-mod=mod GOPROXY=off GOSUMDB=off GOTOOLCHAIN=local
WT=/tmp/seed/$N/repo; O=/tmp/seed/$N/out/$K
git -C $WT checkout -q -- . ; git -C $WT apply $O/patch.diff || { echo "APPLY-FAILED"; exit 2; }
(cd $O/demo && go test -tags verif -vet=off -count=1 ./... >/tmp/seed/$N/demo-with.log 2>&1); W=$?
PK=$(git -C $WT diff --name-only | xargs -n1 dirname | sort -u | sed 's#^#github.com/cossacklabs/acra/#' | tr '\n' ' ')
mkdir -p /tmp/seed/$N/h && cd /tmp/seed/$N/h && [ -f go.mod ] || printf 'module seedharness\ngo 1.23.0\nrequire github.com/cossacklabs/acra v0.0.0\nrequire github.com/cossacklabs/themis/gothemis v0.14.0\nreplace github.com/cossacklabs/acra => %s\nreplace github.com/cossacklabs/themis/gothemis => /tmp/seed/kit/gothemis\n' $WT > go.mod
cp $WT/go.sum . ; go test -vet=off -count=1 $PK >/tmp/seed/$N/pk.log 2>&1; T=$?
(cd $WT && GOFLAGS=-mod=mod go test -vet=off -count=1 ./keystore/v2/keystore/filesystem/backend/... ./keystore/v2/keystore/signature/... ./sqlparser/... >/tmp/seed/$N/base.log 2>&1); B=$?
git -C $WT checkout -q -- .
(cd $O/demo && go test -tags verif -vet=off -count=1 ./... >/tmp/seed/$N/demo-without.log 2>&1); WO=$?
echo "seed $N/$K: demo-with-patch exit=$W (want !=0), demo-without exit=$WO (want 0), touched-pkg tests exit=$T (want 0), baseline exit=$B (want 0)  pkgs: $PK"
