#!/usr/bin/env python3
"""Regenerates /verif/MANIFEST.json from checks.json (claimed checks) and not_applicable.json."""
import json, os
V = os.path.dirname(os.path.dirname(os.path.abspath(__file__)))
checks = {f[:-5]: json.load(open(os.path.join(V, "checks", f))) for f in sorted(os.listdir(os.path.join(V, "checks"))) if f.endswith(".json")}
props = [json.loads(l) for l in open(os.path.join(V, "properties.jsonl"))]
na_reasons = json.load(open(os.path.join(V, "not_applicable.json")))
hooks = json.load(open(os.path.join(V, "hooks.json")))
m = {
 "version": 1,
 "setup_cmd": "./check setup",
 "hooks": hooks,
 "engines": [
  {"name": "lean-model", "path": "lean/", "serves_properties": sorted(checks), "kind_free_text": "Lean 4 library AcraModel (models, theorems in AcraModel/Props, regenerated facts in AcraModel/Generated) + core-only driver exe acra_model"},
  {"name": "factgen", "path": "harness/cmd/factgen", "serves_properties": sorted(checks), "kind_free_text": "go/ast translator: regenerates AcraModel/Generated/*.lean from /repo on every run"},
  {"name": "vh", "path": "harness/", "serves_properties": sorted(checks), "kind_free_text": "Go correspondence harness: real Acra code (linked with the Themis stand-in /verif/gothemis) vs the Lean model driver, plus direct property oracles"}
 ],
 "checks": [],
 "notes": "Technique: machine-checked proof in Lean 4 with a regenerated-facts translator and a differential correspondence check (DESIGN.md). Known findings / fixes: known_findings.json.",
 "not_applicable": []
}
for p in props:
    pid = p["id"]
    if pid in checks:
        c = checks[pid]
        m["checks"].append({
         "property_id": pid,
         "quick_cmd": "./check %s --tier quick" % pid,
         "thorough_cmd": "./check %s --tier thorough" % pid,
         "evidence_file": "/verif/evidence/%s.json" % pid,
         "replay_cmd_template": "./check %s --replay {path}" % pid,
         "engine": "lean-model",
         "level_claimed": {"category": "proof", "text": c["level_text"], "design_ref": c["design_ref"]},
         "level_note": c["level_note"],
         "technique": c["technique"],
        })
    else:
        m["not_applicable"].append({"property_id": pid, "reason": na_reasons.get(pid, "check not built yet (work in progress; see DESIGN.md §7 for the plan)")})
json.dump(m, open(os.path.join(V, "MANIFEST.json"), "w"), indent=1)
print("MANIFEST.json: %d checks, %d not claimed" % (len(m["checks"]), len(m["not_applicable"])))
