#!/usr/bin/env python3
"""tools/ingest_seed.py <N> <k> <id>  – confirm seed /tmp/seed/N/out/k (tools/confirm_seed.sh) and, when confirmed,
keep it as seeded/<id>/ (patch.diff, demo/, meta.json with breaks_property and confirmed_by_lead)."""
import sys,subprocess,json,os,shutil,re
N,k,sid=sys.argv[1:4]
V=os.path.dirname(os.path.dirname(os.path.abspath(__file__)))
r=subprocess.run([V+'/tools/confirm_seed.sh',N,k],capture_output=True,text=True)
line=[l for l in r.stdout.splitlines() if l.startswith('seed ')]
print(r.stdout.strip()[-600:])
if not line: sys.exit('no result line')
m=re.search(r'demo-with-patch exit=(\d+).*demo-without exit=(\d+).*touched-pkg tests exit=(\d+).*baseline exit=(\d+)',line[0])
w,wo,t,b=map(int,m.groups())
ok = w!=0 and wo==0 and t==0 and b==0
if not ok:
    print('NOT CONFIRMED',sid); sys.exit(1)
src='/tmp/seed/%s/out/%s'%(N,k); dst=V+'/seeded/'+sid
if os.path.exists(dst): shutil.rmtree(dst)
os.makedirs(dst)
shutil.copy(src+'/patch.diff',dst+'/patch.diff')
shutil.copytree(src+'/demo',dst+'/demo')
meta=json.load(open(src+'/meta.json'))
meta['breaks_property']=sid.split('-')[0]
meta['round']=6
meta['confirmed_by_lead']={'how':'tools/confirm_seed.sh %s %s: demo FAILS with the patch and PASSES without it in the seed\'s scratch worktree; touched packages\' own tests (Themis stand-in) and the natively building baseline packages pass with the patch'%(N,k),'result':'confirmed'}
json.dump(meta,open(dst+'/meta.json','w'),indent=1,ensure_ascii=False)
print('KEPT',sid)
