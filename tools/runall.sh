#!/bin/sh
# tools/runall.sh [tier] [parallelism] – runs every claimed check, prints the verdict lines
cd "$(dirname "$0")/.."
T=${1:-quick}; J=${2:-4}
python3 -c "import json; [print(c['property_id']) for c in json.load(open('MANIFEST.json'))['checks']]" | \
  xargs -P $J -I{} sh -c "./check {} --tier $T > .build/runall-{}.log 2>&1; echo \"{} exit=\$? \$(grep -c '^KNOWN-FINDING' .build/runall-{}.log) known; \$(tail -1 .build/runall-{}.log | cut -c1-160)\""
