#!/usr/bin/env python3
"""Lead tool: commit builders' /repo patches (repo-patches/*.diff in their worktrees) as separate commits.
Applies each patch in a scratch worktree of /repo's HEAD, commits it with the message at the top of the
patch file, then moves /repo's HEAD there with a mixed reset (working tree untouched)."""
import subprocess, sys, os, re, json
def sh(*a, **k): return subprocess.run(a, text=True, capture_output=True, **k)
files = sys.argv[1:]
tmp = "/tmp/rp-apply"
sh("git","-C","/repo","worktree","remove","--force",tmp); sh("git","-C","/repo","branch","-D","apply-tmp")
r = sh("git","-C","/repo","worktree","add","-q","-b","apply-tmp",tmp,"HEAD"); assert r.returncode==0, r.stderr
done=[]
for f in files:
    txt=open(f).read()
    m=re.search(r"^(diff |--- )", txt, re.M)
    msg=txt[:m.start()].strip()
    msg="\n".join(l for l in msg.split("\n") if not l.startswith("(apply with"))
    body=txt[m.start():]
    p=subprocess.run(["patch","-p1","--no-backup-if-mismatch","-s","--forward","--batch","-r","/dev/null"],input=body,text=True,cwd=tmp,capture_output=True)
    if p.returncode!=0:
        print("FAILED to apply",f,p.stdout[:200],p.stderr[:200]); sh("git","-C",tmp,"checkout","--","."); sh("git","-C",tmp,"clean","-fdq"); continue
    sh("git","-C",tmp,"add","-A")
    c=sh("git","-C",tmp,"commit","-q","-m",msg)
    if c.returncode!=0: print("commit failed",f,c.stdout,c.stderr); continue
    h=sh("git","-C",tmp,"rev-parse","--short","HEAD").stdout.strip()
    print(h, msg.split("\n")[0][:100]); done.append((h,f,msg.split("\n")[0]))
sh("git","-C","/repo","reset","-q","apply-tmp")
sh("git","-C","/repo","worktree","remove","--force",tmp); sh("git","-C","/repo","branch","-D","apply-tmp")
print(sh("git","-C","/repo","status","--short").stdout)
json.dump(done,open("/tmp/rp-done.json","w"))
