#!/bin/bash
# Lead tool: merge a builder branch into main with the standing conflict rules
# (evidence/MANIFEST/check/go.mod: ours; known_findings.json: union, theirs wins per (property,class,status);
#  DESIGN.md: rows of the merged branch replace ours, other lines are united).
cd "$(dirname "$0")/.." || exit 1
b=$1
git add -A; git commit -q -m "evidence refresh before merge" 2>/dev/null
cp known_findings.json /tmp/kf-main.json
git merge -q "$b" -m "Merge $b" 2>&1 | grep -i "conflict\|error"
for f in $(git status --short | grep "^UU\|^AA" | awk '{print $2}'); do
  case $f in
    evidence/*|MANIFEST.json|check|harness/go.mod) git checkout --ours "$f"; git add "$f";;
    known_findings.json) git checkout --theirs known_findings.json; python3 - <<'PY'
import json
a=json.load(open('/tmp/kf-main.json')); b=json.load(open('known_findings.json'))
idx={(e['property'],e['class'],e['status']):i for i,e in enumerate(a)}
for e in b:
    k=(e['property'],e['class'],e['status'])
    if k in idx: a[idx[k]]=e
    else: a.append(e); idx[k]=len(a)-1
json.dump(a,open('known_findings.json','w'),indent=1); print('known_findings entries:',len(a))
PY
      git add known_findings.json;;
    DESIGN.md) python3 - <<'PY'
p='DESIGN.md'
L=open(p).read().split('\n')
out=[];i=0;n=0
while i<len(L):
    if L[i].startswith('<<<<<<< '):
        j=L.index('=======',i); k=next(x for x in range(j,len(L)) if L[x].startswith('>>>>>>> '))
        ours=L[i+1:j]; theirs=L[j+1:k]
        tk={l[:6] for l in theirs if l.startswith('| C')}
        out+=[l for l in ours if not (l.startswith('| C') and l[:6] in tk)]+[l for l in theirs if l not in ours]; i=k+1; n+=1
    else:
        out.append(L[i]); i+=1
open(p,'w').write('\n'.join(out)); print('DESIGN.md conflicts resolved:',n)
PY
      git add DESIGN.md;;
    *) echo "UNRESOLVED $f";;
  esac
done
if git status --short | grep -q "^UU\|^AA"; then echo "STOP: unresolved conflicts"; exit 1; fi
git commit -q -m "Merge $b" 2>/dev/null
# known_findings union also when git merged it without conflict but dropped nothing: verify monotone
python3 - <<'PY'
import json
a=json.load(open('/tmp/kf-main.json')); b=json.load(open('known_findings.json'))
ka={(e['property'],e['class'],e['status']) for e in a}; kb={(e['property'],e['class'],e['status']) for e in b}
lost=ka-kb
if lost: print("WARNING: entries lost in merge:",sorted(lost))
PY
(cd harness && GOFLAGS=-mod=mod GOPROXY=off GOSUMDB=off GOTOOLCHAIN=local go build -o ../.build/factgen ./cmd/factgen 2>&1 | head -5)
python3 tools/mkmanifest.py
git log --oneline | head -1
